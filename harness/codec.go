package main

import (
	"bytes"
	"encoding/json"
	"fmt"
	"net/http"
	"reflect"
	"regexp"
	"runtime"
	"strings"
	"time"

	"github.com/vicanso/pike/cache"
)

// suite codec: the persistence format.
//   enc      structured, reachable entries built through the public API (Get, Cacheable, HitForPass
//            with a recording store); observation: the record bytes, and the re-encoding of its decoding
//   enc-obs  same, header values containing bytes that are not valid UTF-8 (legal obs-text)
//   resp     HTTPResponse.Bytes / FromBytes alone, arbitrary compress service names and filters
//   trunc    every strict prefix of a valid record
//   mut      mutated records: bit flips, lying length fields, spliced garbage
// Decoding runs under recover, a watchdog and an allocation meter.

func init() { suites["codec"] = suiteCodec }

var codecFilters = []string{"", "", "text|javascript|json", "image/.*", "^text/", "a{2,3}"}
var codecBadFilters = []string{"(", "a{2,1}", "[z-a]", "\\"}

func genBody(r *rng, max int) []byte {
	switch r.intn(8) {
	case 0:
		return nil
	case 1:
		return []byte{byte(r.intn(256))}
	case 2:
		return []byte(strings.Repeat("ab", r.intn(max/2+1)))
	case 3:
		return r.bytes(r.intn(max + 1))
	default:
		return []byte(fmt.Sprintf("body-%d-%s", r.intn(1000), strings.Repeat("x", r.intn(40))))
	}
}

func genHeader(r *rng, obs bool) http.Header {
	h := http.Header{}
	n := r.intn(5)
	names := []string{"Content-Type", "Etag", "X-Name", "Cache-Control", "Vary", "Set-Cookie-X", "X-Empty", "Last-Modified"}
	vals := []string{"text/html; charset=utf-8", "\"abc\"", "a, b", "max-age=60", "", "<b>&amp;</b>", "café", "line\ttab", " x", "q\"uote\\", "日本語"}
	for i := 0; i < n; i++ {
		k := r.pick(names)
		nv := 1 + r.intn(3)
		if r.chance(5) {
			nv = 0
		}
		var vs []string
		for j := 0; j < nv; j++ {
			v := r.pick(vals)
			if obs && r.chance(60) {
				v = r.pick([]string{"caf\xe9", "\xff\xfe", "a\x80b", "\xc3"})
			}
			vs = append(vs, v)
		}
		if nv == 0 && r.chance(50) {
			h[k] = nil
		} else if nv == 0 {
			h[k] = []string{}
		} else {
			h[k] = vs
		}
	}
	if r.chance(5) {
		return nil
	}
	return h
}

type decResult struct {
	err      string
	reenc    []byte
	status   string
	resp     *cache.HTTPResponse
	age      int
	alloc    uint64
	panicked bool
	timedOut bool
}

// decode data with the real FromBytes on a fresh entry, metered
func decodeRecord(data []byte) decResult {
	ch := make(chan decResult, 1)
	go func() {
		var res decResult
		defer func() {
			if p := recover(); p != nil {
				res.panicked = true
				res.err = fmt.Sprint("panic: ", p)
			}
			ch <- res
		}()
		var m0, m1 runtime.MemStats
		runtime.ReadMemStats(&m0)
		hc := cache.NewHTTPCache()
		err := hc.FromBytes(data)
		runtime.ReadMemStats(&m1)
		res.alloc = m1.TotalAlloc - m0.TotalAlloc
		if err != nil {
			res.err = "ERR"
			return
		}
		b, err := hc.Bytes()
		if err != nil {
			res.err = "ERR-reencode"
			return
		}
		res.reenc = b
		res.status = hc.GetStatus().String()
		res.age = hc.Age()
		if hc.GetStatus() == cache.StatusHit && !hc.IsExpired() {
			if st, resp := hc.Get(); st == cache.StatusHit {
				res.resp = resp
			}
		}
	}()
	select {
	case r := <-ch:
		if r.alloc > 1<<28 {
			codecAbort = true // a decoder that allocates by the untrusted length prefix: a few cases are evidence enough
		}
		return r
	case <-time.After(20 * time.Second):
		codecAbort = true
		return decResult{timedOut: true, err: "TIMEOUT"}
	}
}

// set when a decode hung or allocated without bound: the remaining cases are skipped (each would cost seconds)
var codecAbort bool

func headerEq(a, b http.Header) bool {
	if len(a) != len(b) {
		return false
	}
	for k, va := range a {
		vb, ok := b[k]
		if !ok || len(va) != len(vb) {
			return false
		}
		for i := range va {
			if va[i] != vb[i] {
				return false
			}
		}
	}
	return true
}

func respFields(resp *cache.HTTPResponse) []string {
	f := ""
	if resp.CompressContentTypeFilter != nil {
		f = resp.CompressContentTypeFilter.String()
	}
	hj, _ := json.Marshal(resp.Header)
	return []string{hx(resp.CompressSrv), itoa(int64(resp.CompressMinLength)), hx(f), hxb(hj), itoa(int64(resp.StatusCode)),
		hxb(resp.GzipBody), hxb(resp.BrBody), hxb(resp.RawBody)}
}

func decOut(d decResult) []string {
	switch {
	case d.panicked:
		return []string{"PANIC", itoa(int64(d.alloc))}
	case d.timedOut:
		return []string{"TIMEOUT", "0"}
	case d.err != "":
		return []string{d.err, itoa(int64(d.alloc))}
	}
	return []string{hxb(d.reenc), itoa(int64(d.alloc))}
}

func suiteCodec(r *rng, n int) {
	installClock()
	maxBody := 600
	var records [][]byte // valid records, for trunc / mut
	var recordJ []string
	var recordF []string
	for i := 0; i < n; i++ {
		cr := r.fork(uint64(i))
		now := int64(1_700_000_000 + cr.intn(1000000))
		setClock(now)
		obs := cr.chance(6)
		op := "enc"
		if obs {
			op = "enc-obs"
		}
		st := newMemStore()
		hc := cache.NewHTTPStoreCache([]byte(fmt.Sprintf("GET h /c/%d", i)), st)
		hc.Get()
		var filter *regexp.Regexp
		fsrc := cr.pick(codecFilters)
		if fsrc != "" {
			filter = regexp.MustCompile(fsrc)
		}
		hdr := genHeader(cr, obs)
		orig := hdr.Clone()
		resp := &cache.HTTPResponse{
			CompressSrv:               cr.pick([]string{"", "bestCompression", "custom"}),
			CompressMinLength:         cr.pick2(0, 1, 1024, 1<<20, 1<<31),
			CompressContentTypeFilter: filter,
			Header:                    hdr,
			StatusCode:                cr.pick2(0, 200, 204, 301, 404, 500, 599, 99999),
		}
		switch cr.intn(4) {
		case 0:
			resp.RawBody = genBody(cr, maxBody)
		case 1:
			resp.GzipBody = genBody(cr, maxBody)
			if cr.chance(50) {
				resp.GzipBody = encGzip(genBody(cr, maxBody)) // a real gzip stream: the identity body is derived from it
			}
		case 2:
			resp.BrBody = genBody(cr, maxBody)
		default:
			resp.RawBody, resp.GzipBody, resp.BrBody = genBody(cr, maxBody), genBody(cr, maxBody), genBody(cr, maxBody)
		}
		ttl := cr.pick2(1, 60, 3600, 1<<31, 1<<62)
		wantStatus := 3
		hasResp := "1"
		created, expired := now, now+int64(ttl)
		kind := cr.intn(10)
		switch {
		case kind < 7:
			hc.Cacheable(resp, ttl)
			stat("enc-hit")
		case kind < 9:
			// hit-for-pass on a fresh entry: no response
			hc.HitForPass(ttl)
			wantStatus, hasResp, created = 2, "0", 0
			stat("enc-hfp-empty")
		default:
			// hit, expiry, refetch that ends in hit-for-pass: the marker keeps the old response
			hc.Cacheable(resp, 1)
			setClock(now + 5)
			hc.Get()
			hc.HitForPass(ttl)
			wantStatus = 2
			expired = now + 5 + int64(ttl)
			now += 5
			stat("enc-hfp-with-response")
		}
		sets := st.takeSets()
		if len(sets) == 0 {
			emit("codec", "nosave", itoa(int64(i)))
			continue
		}
		data := sets[len(sets)-1].data
		d := decodeRecord(data)
		// monitor data: behavioural comparison of the decoded entry with the original
		rt := "same"
		if d.err == "" {
			if d.status != map[int]string{2: "hitForPass", 3: "hit"}[wantStatus] {
				rt = "status"
			}
			if wantStatus == 3 && expired >= now {
				if d.resp == nil {
					rt = "noresponse"
				} else {
					if !headerEq(d.resp.Header, orig) {
						rt = "header"
						// is the difference exactly json's replacement of invalid UTF-8 by U+FFFD?
						rep := http.Header{}
						for k, vs := range orig {
							nv := make([]string, len(vs))
							for i, v := range vs {
								nv[i] = strings.ToValidUTF8(v, "\uFFFD")
							}
							rep[k] = nv
						}
						if obs && headerEq(d.resp.Header, repPerByte(orig)) {
							rt = "header:invalid-utf8-replaced"
						}
						_ = rep
					}
					a, b := respFields(d.resp), respFields(resp)
					a[3], b[3] = "", ""
					if !reflect.DeepEqual(a, b) {
						rt = "fields"
					}
					if d.age != 0 {
						rt = "age"
					}
					// the decoded entry must BEHAVE like the original: the identity body a client without gzip/br gets
					rawA, errA := d.resp.GetRawBody()
					rawB, errB := resp.GetRawBody()
					if (errA == nil) != (errB == nil) || !bytes.Equal(rawA, rawB) {
						rt = "behaviour:identity-body"
					}
				}
			}
		} else {
			rt = "undecodable"
		}
		fields := []string{"codec", op, itoa(int64(i)), itoa(int64(wantStatus)), itoa(created), itoa(expired), hasResp}
		if hasResp == "1" {
			fields = append(fields, respFields(resp)...)
		} else {
			fields = append(fields, "-", "0", "-", "-", "0", "-", "-", "-")
		}
		fields = append(fields, "=>", hxb(data))
		fields = append(fields, decOut(d)...)
		fields = append(fields, rt)
		emit(fields...)
		if hasResp == "1" && len(records) < 400 && !obs {
			records = append(records, data)
			hj, _ := json.Marshal(resp.Header)
			recordJ = append(recordJ, string(hj))
			recordF = append(recordF, fsrc)
		}
	}
	// truncation at every offset
	nt := len(records)
	if nt > n/20+3 {
		nt = n/20 + 3
	}
	for i := 0; i < nt && i < len(records) && !codecAbort; i++ {
		data := records[i]
		var sb strings.Builder
		for k := 0; k < len(data) && !codecAbort; k++ {
			d := decodeRecord(data[:k])
			switch {
			case d.panicked:
				sb.WriteByte('P')
			case d.timedOut:
				sb.WriteByte('T')
			case d.err != "":
				sb.WriteByte('E')
			default:
				sb.WriteByte('A')
			}
		}
		stat("trunc-record")
		emit("codec", "trunc", itoa(int64(i)), hxb(data), hx(recordJ[i]), hx(recordF[i]), "=>", sb.String())
	}
	// mutations
	for i := 0; i < n && len(records) > 0 && !codecAbort; i++ {
		cr := r.fork(uint64(1_000_000 + i))
		ri := cr.intn(len(records))
		data := append([]byte(nil), records[ri]...)
		kind := cr.intn(7)
		switch kind {
		case 0: // bit flip
			for f := 0; f < 1+cr.intn(3); f++ {
				p := cr.intn(len(data))
				data[p] ^= 1 << uint(cr.intn(8))
			}
		case 1: // lying length / numeric field near the start of a field boundary
			p := cr.intn(len(data) - 3)
			v := []uint32{0, 1, 0xffffffff, 0x7fffffff, uint32(len(data)), uint32(cr.intn(1 + 2*len(data))), 0x80000000}[cr.intn(7)]
			data[p], data[p+1], data[p+2], data[p+3] = byte(v>>24), byte(v>>16), byte(v>>8), byte(v)
		case 2: // status word
			v := uint32(cr.intn(9))
			data[0], data[1], data[2], data[3] = byte(v>>24), byte(v>>16), byte(v>>8), byte(v)
		case 3: // random garbage
			data = cr.bytes(cr.intn(64))
		case 4: // splice in an invalid filter or broken JSON by replacing bytes
			p := cr.intn(len(data))
			g := []byte(cr.pick(append(codecBadFilters, "{", "null", "[]", "{\"a\":1}")))
			data = append(append(append([]byte(nil), data[:p]...), g...), data[p:]...)
		case 5: // trailing garbage
			data = append(data, cr.bytes(1+cr.intn(20))...)
		default: // cut and extend
			data = data[:cr.intn(len(data)+1)]
			data = append(data, cr.bytes(cr.intn(30))...)
		}
		stat(fmt.Sprintf("mut-%d", kind))
		d := decodeRecord(data)
		fields := []string{"codec", "mut", itoa(int64(i)), hxb(data), hx(recordJ[ri]), hx(recordF[ri]), "=>"}
		fields = append(fields, decOut(d)...)
		emit(fields...)
	}
}

func (r *rng) pick2(xs ...int) int { return xs[r.intn(len(xs))] }

// json.Marshal replaces each invalid byte by U+FFFD (one replacement per byte)
func repPerByte(h http.Header) http.Header {
	res := http.Header{}
	for k, vs := range h {
		nv := make([]string, len(vs))
		for i, v := range vs {
			var b strings.Builder
			for _, r := range v { // ranging yields RuneError (width 1) for each invalid byte
				b.WriteRune(r)
			}
			nv[i] = b.String()
		}
		res[k] = nv
	}
	return res
}
