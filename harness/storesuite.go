package main

import (
	"bytes"
	"fmt"
	"os"
	"path/filepath"
	"time"

	"github.com/vicanso/pike/cache"
	"github.com/vicanso/pike/config"
	"github.com/vicanso/pike/store"
)

// suite store: the persistent store as the rest of pike sees it — store.NewStore(url) and the Store interface — with
// REAL badger stores on disk.  The cache layer (and its Lean model, Sys.store : Key → Option Rec) relies on a store
// being a partial map keyed by the exact key bytes, one map per configured store url.  Random get/set/delete
// sequences on two stores with keys that differ only far from their beginning (1.5 KB keys sharing 1.4 KB; 66 000
// byte keys sharing 65 500 bytes, beyond badger's own key limit; 64 000 byte keys differing in the last byte) are
// replayed on the Lean map.

func init() { suites["store"] = suiteStore }

func storeKeys() [][]byte {
	long := func(n int, tail string) []byte {
		b := bytes.Repeat([]byte("abcdefghij"), n/10+1)[:n]
		return append(append([]byte("GET s.test /long?q="), b...), tail...)
	}
	return [][]byte{
		[]byte("GET s.test /a"), []byte("GET s.test /b"), []byte("HEAD s.test /a"), []byte("GET s.test /a?x=1"),
		long(1400, "&tail=1"), long(1400, "&tail=2"),
		long(65500, "&z="+string(bytes.Repeat([]byte("1"), 500))), long(65500, "&z="+string(bytes.Repeat([]byte("2"), 500))),
		long(64000, "1"), long(64000, "2"),
	}
}

func suiteStore(r *rng, n int) {
	base := os.Getenv("VERIF_WORK")
	if base == "" {
		base = "/verif/.work"
	}
	keys := storeKeys()
	dirs := []string{filepath.Join(base, fmt.Sprintf("store-%d-a", os.Getpid())), filepath.Join(base, fmt.Sprintf("store-%d-b", os.Getpid()))}
	var ss []store.Store
	for _, d := range dirs {
		_ = os.RemoveAll(d)
		_ = os.MkdirAll(d, 0o755)
		defer os.RemoveAll(d)
		s, err := store.NewStore("badger://" + d)
		if err != nil || s == nil {
			emit("store", "open", "fail")
			return
		}
		ss = append(ss, s)
	}
	lens := ""
	for _, k := range keys {
		lens += itoa(int64(len(k))) + ","
	}
	emit("store", "open", "ok", lens)
	seq := 0
	for i := 0; i < n; i++ {
		cr := r.fork(uint64(i))
		si := cr.intn(2)
		ki := cr.intn(len(keys))
		if cr.chance(50) {
			// work on the neighbour of the key used last: the pairs that share a long prefix are adjacent
			ki = (ki / 2 * 2) + cr.intn(2)
		}
		switch x := cr.intn(100); {
		case x < 40:
			seq++
			v := fmt.Sprintf("v-%d-%d-%d", si, ki, seq)
			err := ss[si].Set(keys[ki], []byte(v), 10*time.Minute)
			emit("store", "set", itoa(int64(si)), itoa(int64(ki)), hx(v), "=>", errStr(err))
		case x < 85:
			d, err := ss[si].Get(keys[ki])
			res := "found"
			if err == store.ErrNotFound {
				res = "none"
			} else if err != nil {
				res = "err"
			}
			emit("store", "get", itoa(int64(si)), itoa(int64(ki)), "=>", res, hxb(d))
		default:
			err := ss[si].Delete(keys[ki])
			emit("store", "del", itoa(int64(si)), itoa(int64(ki)), "=>", errStr(err))
		}
		stat(fmt.Sprintf("key-%d", len(keys[ki])))
	}
	// the registry hands out one instance per url, and different urls are different stores
	again, _ := store.NewStore("badger://" + dirs[0])
	emit("store", "registry", b2s(again == ss[0]), b2s(ss[0] != ss[1]))
	// a record of any size the cache may produce (a 17 MB body) is stored and read back whole
	big := bytes.Repeat([]byte("0123456789abcdef"), (17<<20)/16)
	eb := ss[1].Set(keys[2], big, time.Minute)
	db, eg := ss[1].Get(keys[2])
	emit("store", "bigvalue", b2s(eb == nil && eg == nil && bytes.Equal(db, big)))
	_ = ss[1].Delete(keys[2])
	// a store never writes into the key it is handed (the caller's key buffer is also the shard's map key)
	orig := storeKeys()
	same := true
	for i := range keys {
		if !bytes.Equal(keys[i], orig[i]) {
			same = false
		}
	}
	// mixed-case hosts are keys like any other
	mk := []byte("GET MiXed.Example.COM /Path?Q=1")
	mk0 := append([]byte(nil), mk...)
	_ = ss[0].Set(mk, []byte("v"), time.Minute)
	_, _ = ss[0].Get(mk)
	_ = ss[0].Delete(mk)
	emit("store", "keyintact", b2s(same && bytes.Equal(mk, mk0)))
	// several caches name the same store url; a reload that removes one of them leaves the store open for the
	// others (and for the cache that is configured again later)
	shared := "badger://" + dirs[0]
	cache.ResetDispatchers(nil)
	cache.ResetDispatchers([]config.CacheConfig{{Name: "sa", Size: 10, HitForPass: "5m", Store: shared}, {Name: "sb", Size: 10, HitForPass: "5m", Store: shared}})
	cache.ResetDispatchers([]config.CacheConfig{{Name: "sa", Size: 10, HitForPass: "5m", Store: shared}})
	e1 := ss[0].Set(keys[0], []byte("after-reload"), time.Minute)
	d1, e2 := ss[0].Get(keys[0])
	cache.ResetDispatchers(nil)
	e3 := ss[0].Set(keys[1], []byte("after-removal"), time.Minute)
	emit("store", "shared", b2s(e1 == nil && e2 == nil && string(d1) == "after-reload" && e3 == nil))
	// overlapping first uses of one url (the initial update and the watcher's callback both build the caches):
	// everybody gets the one instance
	dir3 := filepath.Join(base, fmt.Sprintf("store-%d-c", os.Getpid()))
	_ = os.RemoveAll(dir3)
	_ = os.MkdirAll(dir3, 0o755)
	defer os.RemoveAll(dir3)
	res := make(chan store.Store, 6)
	start := make(chan struct{})
	for g := 0; g < 6; g++ {
		go func() {
			<-start
			s, err := store.NewStore("badger://" + dir3)
			if err != nil {
				s = nil
			}
			res <- s
		}()
	}
	close(start)
	var first store.Store
	all := true
	for g := 0; g < 6; g++ {
		s := <-res
		if g == 0 {
			first = s
		}
		if s == nil || s != first {
			all = false
		}
	}
	emit("store", "concurrent-open", b2s(all))
	_ = store.Close()
}

func errStr(err error) string {
	if err != nil {
		return "err"
	}
	return "ok"
}
