package main

import (
	"bufio"
	"encoding/hex"
	"fmt"
	"os"
	"sort"
	"strings"
)

// ---- one PRNG: every random choice derives from VERIF_SEED through this stream
type rng struct{ s uint64 }

func newRng(seed uint64) *rng { return &rng{s: seed*0x9E3779B97F4A7C15 + 0x1234567} }
func (r *rng) u64() uint64 {
	r.s += 0x9E3779B97F4A7C15
	z := r.s
	z = (z ^ (z >> 30)) * 0xBF58476D1CE4E5B9
	z = (z ^ (z >> 27)) * 0x94D049BB133111EB
	return z ^ (z >> 31)
}
func (r *rng) intn(n int) int {
	if n <= 0 {
		return 0
	}
	return int(r.u64() % uint64(n))
}
func (r *rng) chance(pct int) bool     { return r.intn(100) < pct }
func (r *rng) pick(xs []string) string { return xs[r.intn(len(xs))] }
func (r *rng) bytes(n int) []byte {
	b := make([]byte, n)
	for i := range b {
		b[i] = byte(r.u64())
	}
	return b
}

// derive an independent stream for case i
func (r *rng) fork(i uint64) *rng { return newRng(r.s ^ (i+1)*0xD1342543DE82EF95) }

// ---- output: one case per line, fields separated by TAB
var outw = bufio.NewWriterSize(os.Stdout, 1<<16)

func emit(fields ...string) {
	outw.WriteString(strings.Join(fields, "\t"))
	outw.WriteByte('\n')
}
func flush() { outw.Flush() }

func hx(s string) string {
	if s == "" {
		return "-"
	}
	return hex.EncodeToString([]byte(s))
}
func hxb(b []byte) string { return hx(string(b)) }

// header as  hexkey:.hexv,.hexv;hexkey:...   sorted by key
func hxHeader(h map[string][]string) string {
	if len(h) == 0 {
		return "-"
	}
	keys := make([]string, 0, len(h))
	for k := range h {
		keys = append(keys, k)
	}
	sort.Strings(keys)
	parts := make([]string, 0, len(keys))
	for _, k := range keys {
		vs := make([]string, len(h[k]))
		for i, v := range h[k] {
			vs[i] = "." + hex.EncodeToString([]byte(v))
		}
		parts = append(parts, hex.EncodeToString([]byte(k))+":"+strings.Join(vs, ","))
	}
	return strings.Join(parts, ";")
}

func itoa(i int64) string { return fmt.Sprintf("%d", i) }

// ---- distribution statistics, printed to stderr as "STAT suite key count"
var stats = map[string]int{}

func stat(k string) { stats[k]++ }
func dumpStats(suite string) {
	keys := make([]string, 0, len(stats))
	for k := range stats {
		keys = append(keys, k)
	}
	sort.Strings(keys)
	for _, k := range keys {
		fmt.Fprintf(os.Stderr, "STAT\t%s\t%s\t%d\n", suite, k, stats[k])
	}
}
