package main

import (
	"fmt"
	"net"
	"sort"
	"strings"
	"time"

	"github.com/dustin/go-humanize"
	"github.com/vicanso/pike/cache"
	"github.com/vicanso/pike/compress"
	"github.com/vicanso/pike/config"
	"github.com/vicanso/pike/location"
	"github.com/vicanso/pike/server"
	"github.com/vicanso/pike/upstream"
)

// suite reconf: sequences of valid configurations applied to the REAL registries in main.update's
// order (compress, caches, upstreams, locations, servers); after every update the observable
// registry state is read back through the exported getters for a fixed probe set of names.

func init() { suites["reconf"] = suiteReconf }

var rcCompress = []string{"bestCompression", "zip", "fast"}
var rcCaches = []string{"c1", "c2", "c3"}
var rcUps = []string{"u1", "u2", "u3"}
var rcLocs = []string{"l1", "l2", "l3"}
var rcAddrs = []string{":45001", ":45002", ":45003"}

func pickSome(r *rng, xs []string, min int) []string {
	var out []string
	for _, x := range xs {
		if r.chance(55) {
			out = append(out, x)
		}
	}
	for len(out) < min {
		x := xs[r.intn(len(xs))]
		dup := false
		for _, y := range out {
			if y == x {
				dup = true
			}
		}
		if !dup {
			out = append(out, x)
		}
	}
	return out
}

func genReconf(r *rng) *config.PikeConfig {
	c := &config.PikeConfig{}
	for _, n := range pickSome(r, rcCompress, 0) {
		// either level may be left out of a profile: the codec then runs at its library default
		lv := map[string]uint{}
		if r.chance(70) {
			lv["gzip"] = uint(1 + r.intn(9))
		}
		if r.chance(70) {
			lv["br"] = uint(1 + r.intn(11))
		}
		c.Compresses = append(c.Compresses, config.CompressConfig{Name: n, Levels: lv})
	}
	for _, n := range pickSome(r, rcCaches, 1) {
		cc := config.CacheConfig{Name: n, Size: 10 + r.intn(90), HitForPass: r.pick([]string{"5m", "30s"})}
		if n == "c2" {
			// this cache names a store that cannot be opened (a path below a character device): it works from memory
			// only, and like every cache it survives the updates that keep its name
			cc.Store = "badger:///dev/null/verif-reconf"
		}
		c.Caches = append(c.Caches, cc)
	}
	for _, n := range pickSome(r, rcUps, 1) {
		c.Upstreams = append(c.Upstreams, config.UpstreamConfig{Name: n, Policy: r.pick([]string{"first", "random", "roundRobin"}), AcceptEncoding: r.pick([]string{"", "gzip", "br"}),
			Servers: []config.UpstreamServerConfig{{Addr: fmt.Sprintf("http://127.0.0.1:%d", 1+r.intn(3))}}})
	}
	for _, n := range pickSome(r, rcLocs, 1) {
		c.Locations = append(c.Locations, config.LocationConfig{Name: n, Upstream: c.Upstreams[r.intn(len(c.Upstreams))].Name,
			RespHeaders: []string{fmt.Sprintf("X-Gen:%d", r.intn(3))}})
	}
	for _, a := range pickSome(r, rcAddrs, 1) {
		s := config.ServerConfig{Addr: a, Cache: c.Caches[r.intn(len(c.Caches))].Name}
		for _, l := range c.Locations {
			if r.chance(70) {
				s.Locations = append(s.Locations, l.Name)
			}
		}
		if len(s.Locations) == 0 {
			s.Locations = []string{c.Locations[0].Name}
		}
		if len(c.Compresses) > 0 && r.chance(60) {
			s.Compress = c.Compresses[r.intn(len(c.Compresses))].Name
		}
		if r.chance(50) {
			s.CompressMinLength = r.pick([]string{"1kb", "512", "2kb"})
		}
		if r.chance(40) {
			s.CompressContentTypeFilter = r.pick([]string{"text|json", "image"})
		}
		c.Servers = append(c.Servers, s)
	}
	return c
}

func encReconf(c *config.PikeConfig) string {
	j := func(xs []string) string {
		if len(xs) == 0 {
			return "-"
		}
		return strings.Join(xs, ";")
	}
	var comp, caches, ups, locs, srvs []string
	for _, x := range c.Compresses {
		lvl := func(k string) string {
			if v, ok := x.Levels[k]; ok {
				return fmt.Sprintf("%d", v)
			}
			return "x" // not configured
		}
		comp = append(comp, fmt.Sprintf("%s|%s|%s", hx(x.Name), lvl("gzip"), lvl("br")))
	}
	for _, x := range c.Caches {
		caches = append(caches, fmt.Sprintf("%s|%d", hx(x.Name), x.Size))
	}
	for _, x := range c.Upstreams {
		ups = append(ups, hx(x.Name)+"|"+hx(x.Policy+"/"+x.AcceptEncoding+"/"+x.Servers[0].Addr))
	}
	for _, x := range c.Locations {
		locs = append(locs, hx(x.Name+">"+x.Upstream+">"+strings.Join(x.RespHeaders, ",")))
	}
	for _, x := range c.Servers {
		ml, _ := humanize.ParseBytes(x.CompressMinLength)
		srvs = append(srvs, fmt.Sprintf("%s|%s|%s|%s|%d|%s", hx(x.Addr), encList(x.Locations), hx(x.Cache), hx(x.Compress), ml, hx(x.CompressContentTypeFilter)))
	}
	return j(comp) + "\t" + j(caches) + "\t" + j(ups) + "\t" + j(locs) + "\t" + j(srvs)
}

func observeReconf(cacheIdx map[interface{}]int) string {
	var parts []string
	for _, n := range rcCompress {
		s := compress.Get(n)
		parts = append(parts, fmt.Sprintf("L|%s|%d|%d", hx(n), s.GetLevel("gzip"), s.GetLevel("br")))
	}
	for _, n := range rcCaches {
		d := cache.GetDispatcher(n)
		if d == nil {
			parts = append(parts, "C|"+hx(n)+"|-")
		} else {
			idx, ok := cacheIdx[d]
			if !ok {
				idx = len(cacheIdx)
				cacheIdx[d] = idx
			}
			parts = append(parts, fmt.Sprintf("C|%s|%d", hx(n), idx))
		}
	}
	for _, n := range rcUps {
		u := upstream.Get(n)
		if u == nil {
			parts = append(parts, "U|"+hx(n)+"|-")
		} else {
			addr := ""
			if l := u.HTTPUpstream.GetUpstreamList(); len(l) > 0 {
				addr = "http://" + l[0].URL.Host
			}
			parts = append(parts, "U|"+hx(n)+"|"+hx(u.Option.Policy+"/"+u.Option.AcceptEncoding+"/"+addr))
		}
	}
	var locs []string
	for _, n := range rcLocs {
		if l := location.Get("zz.test", "/", n); l != nil {
			var hs []string
			for _, v := range l.ResponseHeader["X-Gen"] {
				hs = append(hs, "X-Gen:"+v)
			}
			locs = append(locs, hx(l.Name+">"+l.Upstream+">"+strings.Join(hs, ",")))
		}
	}
	sort.Strings(locs)
	if len(locs) == 0 {
		locs = []string{"-"}
	}
	parts = append(parts, "O|"+strings.Join(locs, ","))
	for _, a := range rcAddrs {
		s := server.Get(a)
		if s == nil {
			parts = append(parts, "S|"+hx(a)+"|-")
		} else {
			cn, ml, f := s.GetCompress()
			fs := ""
			if f != nil {
				fs = f.String()
			}
			parts = append(parts, fmt.Sprintf("S|%s|%s|%s|%s|%d|%s", hx(a), encList(s.GetLocations()), hx(s.GetCache()), hx(cn), ml, hx(fs)))
		}
	}
	return strings.Join(parts, ";")
}

func applyLikeMainUpdate(c *config.PikeConfig) {
	compress.Reset(c.Compresses)
	cache.ResetDispatchers(c.Caches)
	upstream.Reset(c.Upstreams)
	location.Reset(c.Locations)
	server.Reset(c.Servers)
}

func suiteReconf(r *rng, n int) {
	for seq := 0; seq < n; seq++ {
		cr := r.fork(uint64(seq))
		// a clean slate stands for process start (compress profiles cannot be removed: the driver
		// is told what the built-in profile looks like at sequence start)
		applyLikeMainUpdate(&config.PikeConfig{})
		compress.Reset([]config.CompressConfig{{Name: "bestCompression", Levels: map[string]uint{"gzip": 9}}, {Name: "zip", Levels: map[string]uint{}}, {Name: "fast", Levels: map[string]uint{}}})
		compress.Get("bestCompression").SetLevels(map[string]int{"gzip": 9, "br": -1})
		cacheIdx := map[interface{}]int{}
		emit("reconf", "begin", itoa(int64(seq)), observeReconf(cacheIdx))
		steps := 2 + cr.intn(5)
		var prev *config.PikeConfig
		for i := 0; i < steps; i++ {
			c := genReconf(cr)
			if prev != nil && len(prev.Servers) > 0 && cr.chance(35) {
				// a small edit of the previous configuration: exactly one setting of one server changes (updates
				// that touch a single field must be applied like any other)
				cp := *prev
				cp.Servers = append([]config.ServerConfig(nil), prev.Servers...)
				sv := &cp.Servers[cr.intn(len(cp.Servers))]
				switch cr.intn(5) {
				case 3, 4:
					// the server loses the LAST location of its list, nothing else changes
					if len(sv.Locations) > 1 {
						sv.Locations = append([]string(nil), sv.Locations[:len(sv.Locations)-1]...)
						stat("location-list-shortened")
					}
				case 0:
					sv.CompressContentTypeFilter = map[string]string{"": "text|json", "text|json": "image", "image": "text|json"}[sv.CompressContentTypeFilter]
				case 1:
					sv.CompressMinLength = map[string]string{"": "2kb", "1kb": "512", "512": "2kb", "2kb": "1kb"}[sv.CompressMinLength]
				default:
					sv.Cache = cp.Caches[cr.intn(len(cp.Caches))].Name
				}
				c = &cp
				stat("single-field-updates")
			}
			if err := c.Validate(); err != nil {
				emit("reconf", "invalid", err.Error())
				continue
			}
			applyLikeMainUpdate(c)
			prev = c
			emit("reconf", "update", encReconf(c), "=>", observeReconf(cacheIdx))
			stat("updates")
		}
		emit("reconf", "end")
	}
	applyLikeMainUpdate(&config.PikeConfig{})
	if optFlag != "nolisten" {
		reconfListen()
	}
	applyLikeMainUpdate(&config.PikeConfig{})
}

func freeAddr() string {
	ln, err := net.Listen("tcp", "127.0.0.1:0")
	if err != nil {
		return "127.0.0.1:0"
	}
	defer ln.Close()
	return ln.Addr().String()
}

func accepts(addr string) string {
	c, err := net.DialTimeout("tcp", addr, 500*time.Millisecond)
	if err != nil {
		return "0"
	}
	c.Close()
	return "1"
}

// directed history with REAL listeners: four servers are started, one update removes three of them at once
// and adds one; after the graceful-close period the removed ones must refuse connections, the kept and the
// added one must accept them (what a fresh start with the final configuration would show)
func reconfListen() {
	base := config.PikeConfig{
		Caches:    []config.CacheConfig{{Name: "c1", Size: 10}},
		Upstreams: []config.UpstreamConfig{{Name: "u1", Servers: []config.UpstreamServerConfig{{Addr: "http://127.0.0.1:1"}}}},
		Locations: []config.LocationConfig{{Name: "l1", Upstream: "u1"}},
	}
	mk := func(as []string) *config.PikeConfig {
		c := base
		c.Servers = nil
		for _, a := range as {
			c.Servers = append(c.Servers, config.ServerConfig{Addr: a, Cache: "c1", Locations: []string{"l1"}})
		}
		return &c
	}
	var addrs []string
	// poll (bounded) until the listeners show the configured picture: start-up and the 10 s graceful close run
	// in goroutines of their own, and the machine may be busy
	observe := func(want string, limit time.Duration) string {
		deadline := time.Now().Add(limit)
		for {
			got := ""
			for _, a := range addrs {
				got += accepts(a)
			}
			if got == want || time.Now().After(deadline) {
				return got
			}
			time.Sleep(200 * time.Millisecond)
		}
	}
	before := ""
	// a probed free port can be taken by another process before the server listens on it: start over with
	// other ports (what is examined is the update, not the start-up)
	for attempt := 0; attempt < 4; attempt++ {
		applyLikeMainUpdate(&config.PikeConfig{})
		addrs = nil
		for i := 0; i < 5; i++ {
			addrs = append(addrs, freeAddr())
		}
		applyLikeMainUpdate(mk(addrs[:4]))
		_ = server.Start()
		before = observe("11110", 5*time.Second)
		if before == "11110" {
			break
		}
		stat("listen-start-retried")
	}
	final := []string{addrs[0], addrs[4]}
	applyLikeMainUpdate(mk(final))
	_ = server.Start()
	time.Sleep(10500 * time.Millisecond) // GracefulClose(10s) of the removed servers
	after := observe("10001", 8*time.Second)
	// configured before: 11110, configured after: 10001
	emit("reconf", "listen", "11110", before, "10001", after)
	stat("listen-histories")
	// an address that is busy when its server is configured: the bind fails at that update; once the address is
	// free the next update binds it (what a fresh start with the same configuration does)
	busy := freeAddr()
	hold, herr := net.Listen("tcp", busy)
	withBusy := append(append([]string(nil), final...), busy)
	applyLikeMainUpdate(mk(withBusy))
	_ = server.Start()
	if herr == nil {
		hold.Close()
	}
	applyLikeMainUpdate(mk(withBusy))
	_ = server.Start()
	addrs = []string{busy}
	emit("reconf", "listenretry", b2s(herr == nil), observe("1", 5*time.Second))
	stat("listen-retry-histories")
}
