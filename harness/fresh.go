package main

import (
	"encoding/binary"
	"fmt"
	"net/http"
	"strings"

	"github.com/vicanso/elton"
	"github.com/vicanso/pike/config"
	"github.com/vicanso/pike/location"
)

// suite fresh: upstream header sets through the real request path; observation = whether the
// entry was stored (record written by saveToStore with status hit) and its lifetime.

func init() { suites["fresh"] = suiteFresh }

var directiveNames = []string{"no-cache", "no-store", "private", "public", "max-age", "s-maxage",
	"must-revalidate", "immutable", "no-transform", "x-private-y", "proxy-revalidate", "maxage", "s-max-age"}
var ageValues = []string{"0", "1", "5", "59", "60", "61", "3600", "2147483648", "9223372036854775807",
	"9223372036854775808", "99999999999999999999", "abc", "-5", "1.5", "\"60\"", "", "+7", " 9", "007"}

func randCase(r *rng, s string) string {
	switch r.intn(6) {
	case 0:
		return strings.ToUpper(s)
	case 1:
		return strings.Title(s)
	case 2:
		b := []byte(s)
		for i := range b {
			if r.chance(50) && b[i] >= 'a' && b[i] <= 'z' {
				b[i] -= 32
			}
		}
		return string(b)
	default:
		return s
	}
}

func genCacheControl(r *rng) []string {
	if r.chance(8) {
		return nil
	}
	nTok := 1 + r.intn(4)
	var toks []string
	for i := 0; i < nTok; i++ {
		var name string
		switch {
		case r.chance(35):
			name = "max-age"
		case r.chance(20):
			name = "s-maxage"
		case r.chance(7):
			name = r.pick([]string{"no-cache", "no-store", "private"})
		default:
			name = r.pick(directiveNames)
		}
		if name == "max-age" || name == "s-maxage" {
			if !r.chance(85) {
				name = randCase(r, name)
			}
		} else {
			name = randCase(r, name)
		}
		tok := name
		low := strings.ToLower(name)
		if low == "max-age" || low == "s-maxage" || low == "maxage" || low == "s-max-age" || r.chance(10) {
			if r.chance(92) {
				tok += r.pick([]string{"=", "=", "=", "=", " =", "= "}) + r.pick(ageValues)
			}
		} else if (low == "private" || low == "no-cache") && r.chance(20) {
			tok += "=\"set-cookie\""
		}
		toks = append(toks, tok)
	}
	// distribute over 1..3 header lines
	nLines := 1 + r.intn(3)
	if nLines > len(toks) {
		nLines = len(toks)
	}
	lines := make([]string, nLines)
	for i, t := range toks {
		li := i * nLines / len(toks)
		sep := r.pick([]string{", ", ",", " , ", ",  "})
		if lines[li] == "" {
			lines[li] = t
		} else {
			lines[li] += sep + t
		}
	}
	if r.chance(5) {
		lines = append(lines, "")
	}
	return lines
}

func genFreshHeader(r *rng) http.Header {
	h := http.Header{}
	if cc := genCacheControl(r); cc != nil {
		h["Cache-Control"] = cc
	}
	switch r.intn(24) {
	case 0:
		h["Set-Cookie"] = []string{"a=b"}
	case 1:
		h["Set-Cookie"] = []string{"", "a=b"}
	case 2:
		h["Set-Cookie"] = []string{""}
	case 3:
		h["Set-Cookie"] = []string{"a=b", "c=d; Path=/"}
	}
	if r.chance(40) {
		h["Age"] = []string{r.pick(ageValues)}
		if r.chance(10) {
			h["Age"] = append(h["Age"], r.pick(ageValues))
		}
	}
	if r.chance(20) {
		h["Expires"] = []string{r.pick([]string{"Thu, 01 Dec 2094 16:00:00 GMT", "0", "Thu, 01 Jan 1970 00:00:00 GMT"})}
	}
	if r.chance(20) {
		h["Etag"] = []string{"\"abc\""}
	}
	if r.chance(10) {
		h["Pragma"] = []string{"no-cache"}
	}
	if r.chance(20) {
		h["Content-Type"] = []string{"text/plain"}
	}
	if r.chance(8) {
		// an origin that is itself a pike (or anything else that labels its answers): the label the client sees is ours
		h["X-Status"] = []string{r.pick([]string{"hit", "fetching", "passed"})}
	}
	return h
}

var freshMethods = []string{"GET", "GET", "GET", "GET", "GET", "GET", "HEAD", "HEAD", "POST", "PUT", "DELETE", "PATCH", "OPTIONS"}
var freshStatus = []int{200, 200, 200, 200, 201, 203, 204, 301, 302, 404, 410, 500, 503}

// decode status / createdAt / expiredAt from an entry record
func recordMeta(data []byte) (status int, created, expired int64, ok bool) {
	if len(data) < 24 {
		return
	}
	status = int(binary.BigEndian.Uint32(data[0:4]))
	created = int64(binary.BigEndian.Uint64(data[len(data)-16 : len(data)-8]))
	expired = int64(binary.BigEndian.Uint64(data[len(data)-8:]))
	return status, created, expired, true
}

func suiteFresh(r *rng, n int) {
	installClock()
	p := newPipeline(100000, "300s", true, serverOption(), nil, nil)
	for i := 0; i < n; i++ {
		cr := r.fork(uint64(i))
		method := cr.pick(freshMethods)
		status := freshStatus[cr.intn(len(freshStatus))]
		h := genFreshHeader(cr)
		// the location may ADD response headers (also Cache-Control): they are appended to what the upstream sent
		// before the lifetime is computed, so the origin's own directives still count
		hm := h
		locHeaders := []string(nil)
		if cr.chance(15) {
			add := cr.pick([]string{"max-age=60", "private", "s-maxage=10", "public"})
			locHeaders = []string{"Cache-Control:" + add}
			hm = h.Clone()
			hm["Cache-Control"] = append(hm["Cache-Control"], add)
			if cr.chance(40) {
				// two configured headers of the same name: both are added, in this order
				add2 := cr.pick([]string{"public", "s-maxage=1", "no-transform", "private"})
				locHeaders = append(locHeaders, "Cache-Control:"+add2)
				hm["Cache-Control"] = append(hm["Cache-Control"], add2)
			}
		}
		location.Reset([]config.LocationConfig{{Name: "l1", Upstream: "u1", RespHeaders: locHeaders}})
		// every upstream answer carries its own serial number: a response served twice is recognisable
		serial := 0
		p.setScript(func(c *elton.Context) error {
			serial++
			return answer(status, h, []byte(fmt.Sprintf("body-%d-%d", i, serial)))(c)
		})
		p.store.takeSets()
		uri := fmt.Sprintf("/fresh/%d?x=%d", i, cr.intn(10))
		before := p.calls()
		w := p.do(method, "h.test", uri, nil, nil)
		upCalls := p.calls() - before
		stored, life := 0, int64(0)
		hfp := 0
		for _, sc := range p.store.takeSets() {
			st, c, e, ok := recordMeta(sc.data)
			if !ok {
				continue
			}
			if st == 3 { // hit
				stored = 1
				life = e - c
			} else if st == 2 {
				hfp = 1
			}
		}
		switch {
		case stored == 1:
			stat("stored")
		case hfp == 1:
			stat("hit-for-pass")
		default:
			stat("passed")
		}
		// the same request again: a hit must not touch the upstream, anything else must be forwarded afresh
		before2 := p.calls()
		w2 := p.do(method, "h.test", uri, nil, nil)
		upCalls2 := p.calls() - before2
		emit("fresh", itoa(int64(i)), hx(method), itoa(int64(status)), hxHeader(hm), "=>",
			itoa(int64(stored)), itoa(life), itoa(int64(hfp)), itoa(int64(upCalls)), hx(w.Header().Get("X-Status")), itoa(int64(w.Code)),
			itoa(int64(upCalls2)), hx(w2.Header().Get("X-Status")), hx(w.Body.String()), hx(w2.Body.String()))
	}
}
