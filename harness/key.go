package main

import (
	"fmt"
	"net/http"
	"net/url"
	"strings"

	"github.com/vicanso/elton"
)

// suite key: pairs of (method, host, uri) triples through the real request path.
// Observations: the exact key bytes the implementation used (seen by the recording store),
// whether the second request was served from the first one's entry, and whose body it got.

func init() { suites["key"] = suiteKey }

var keyHosts = []string{"a.test", "b.test", "a.test:8080", "A.test", "a.tes", "a.test.", "xn--bcher-kva.test", "127.0.0.1", "[::1]:80"}

func mutateURI(r *rng, u string) string {
	b := []byte(u)
	switch r.intn(7) {
	case 0:
		i := r.intn(len(b)-1) + 1
		b[i] ^= 1
		if b[i] <= ' ' || b[i] >= 0x7f {
			b[i] = 'z'
		}
		return string(b)
	case 1:
		return u + "&"
	case 2:
		return u[:len(u)-1]
	case 3:
		return u + "?"
	case 4:
		return "/" + u
	case 5:
		return u + "%20"
	default:
		return u + "0"
	}
}

func suiteKey(r *rng, n int) {
	installClock()
	script := func(c *elton.Context) error {
		h := c.Header()
		h["Cache-Control"] = []string{"max-age=600"}
		c.StatusCode = 200
		c.BodyBuffer = bytesBuf(c.Request.Method + "|" + c.Request.Host + "|" + c.Request.RequestURI)
		return nil
	}
	p := newPipeline(1000000, "300s", true, serverOption(), nil, nil)
	p.setScript(script)
	// every (method, host, uri) triple is requested in one case only: a mutated URI that happens to equal the URI of
	// another case would find that case's entry (a legitimate hit, but not what the pair is about)
	used := map[string]bool{}
	for i := 0; i < n; i++ {
		if i == n/2 {
			// the second half runs on a cache of ONE entry: one shard, every key shares it with every other key, each
			// new key evicts the one before ("no matter how many keys share a shard, how entries are evicted")
			p = newPipeline(1, "300s", true, serverOption(), nil, nil)
			p.setScript(script)
		}
		cr := r.fork(uint64(i))
		m1 := cr.pick([]string{"GET", "GET", "HEAD"})
		h1 := cr.pick(keyHosts)
		u1 := fmt.Sprintf("/k%d/%s?%s=%d", i, cr.pick([]string{"a", "a/b", "users/1", "x%2Fy", "é"}), cr.pick([]string{"q", "id", "a b"[:1]}), cr.intn(100))
		if cr.chance(10) {
			u1 = fmt.Sprintf("/k%d", i)
		}
		long := cr.chance(8)
		if long {
			// keys longer than any plausible index limit of a store, distinguished only at the very end
			u1 = fmt.Sprintf("/k%d/%s?id=%d", i, strings.Repeat("segment/", 140), cr.intn(10))
		}
		m2, h2, u2 := m1, h1, u1
		kind := "same"
		switch cr.intn(10) {
		case 0, 1:
			kind = "method"
			if m1 == "GET" {
				m2 = "HEAD"
			} else {
				m2 = "GET"
			}
		case 2, 3:
			kind = "host"
			for h2 == h1 {
				h2 = cr.pick(keyHosts)
			}
		case 4, 5, 6:
			kind = "uri"
			u2 = mutateURI(cr, u1)
			for !validURI(u2) || u2 == u1 {
				u2 = mutateURI(cr, u1)
			}
			if long {
				u2 = u1[:len(u1)-1] + string(rune('0'+(int(u1[len(u1)-1]-'0')+1)%10)) // same but for the last digit
			}
		}
		if used[m1+" "+h1+" "+u1] || (kind != "same" && used[m2+" "+h2+" "+u2]) {
			stat("pair-skipped-collision")
			continue
		}
		used[m1+" "+h1+" "+u1], used[m2+" "+h2+" "+u2] = true, true
		stat("pair-" + kind)
		p.store.takeSets()
		w1 := p.do(m1, h1, u1, http.Header{}, nil)
		sets := p.store.takeSets()
		k1 := ""
		if len(sets) > 0 {
			k1 = sets[0].key
		}
		w2 := p.do(m2, h2, u2, http.Header{}, nil)
		sets2 := p.store.takeSets()
		k2 := k1
		if len(sets2) > 0 {
			k2 = sets2[0].key
		}
		emit("key", itoa(int64(i)), hx(m1), hx(h1), hx(u1), hx(m2), hx(h2), hx(u2), "=>",
			hx(k1), hx(k2), hx(w1.Header().Get("X-Status")), hx(w2.Header().Get("X-Status")), hx(w1.Body.String()), hx(w2.Body.String()))
	}
}

func validURI(u string) bool {
	_, err := url.ParseRequestURI(u)
	return err == nil
}
