package main

import (
	"bytes"
	"compress/gzip"
	"fmt"
	"io"
	"net/http"
	"net/http/httptest"
	"regexp"
	"sort"
	"strings"

	"github.com/andybalholm/brotli"
	"github.com/golang/snappy"
	"github.com/klauspost/compress/zstd"
	"github.com/pierrec/lz4"
	"github.com/vicanso/pike/cache"
	"github.com/vicanso/pike/compress"
	"github.com/vicanso/pike/config"
	"github.com/vicanso/pike/server"
)

// suite resp: upstream response x encoding x server settings x client Accept-Encoding through
// the real request path, on four paths: cold fetch, second request (hit or hit-for-pass),
// request after the entry was dropped and restored from the store, uncached pass-through (POST).

func init() { suites["resp"] = suiteResp }

func encGzip(b []byte) []byte {
	var buf bytes.Buffer
	w, _ := gzip.NewWriterLevel(&buf, 6)
	w.Write(b)
	w.Close()
	return buf.Bytes()
}
func encBr(b []byte) []byte {
	var buf bytes.Buffer
	w := brotli.NewWriterLevel(&buf, 5)
	w.Write(b)
	w.Close()
	return buf.Bytes()
}
func encLZ4(b []byte) ([]byte, bool) {
	dst := make([]byte, lz4.CompressBlockBound(len(b))+16)
	n, err := lz4.CompressBlock(b, dst, nil)
	if err != nil || (n == 0 && len(b) > 0) {
		return nil, false // incompressible: the block API gives up
	}
	return dst[:n], true
}
func encSnappy(b []byte) []byte { return snappy.Encode(nil, b) }

var zstdEnc, _ = zstd.NewWriter(nil)

func encZstd(b []byte) []byte { return zstdEnc.EncodeAll(b, nil) }

func decodeBy(enc string, b []byte) ([]byte, bool) {
	switch enc {
	case "":
		return b, true
	case "gzip":
		r, err := gzip.NewReader(bytes.NewReader(b))
		if err != nil {
			return nil, false
		}
		d, err := io.ReadAll(r)
		return d, err == nil
	case "br":
		d, err := io.ReadAll(brotli.NewReader(bytes.NewReader(b)))
		return d, err == nil
	}
	return nil, false
}

var respAE = []string{"", "gzip", "br", "gzip, br", "br, gzip, deflate", "deflate", "identity", "*", "x-gzip", "zstd, lz4", "gzip,deflate", " br ", "GZIP", "abr", "brotli"}

func genRespBody(r *rng, minLen int) ([]byte, string) {
	switch r.intn(10) {
	case 0:
		return nil, "empty"
	case 1:
		return []byte("tiny!"), "tiny"
	case 2:
		return bytes.Repeat([]byte("a"), max0(minLen-1)), "min-1"
	case 3:
		return bytes.Repeat([]byte("b"), minLen), "min"
	case 4:
		return []byte(strings.Repeat("c", minLen) + "d"), "min+1"
	case 5:
		return []byte(strings.Repeat("hello world, ", 400)), "large"
	case 6:
		return r.bytes(2000 + r.intn(500)), "random"
	case 7:
		return make([]byte, 3000+r.intn(100)), "zeros>10x"
	case 8:
		return make([]byte, 40000), "zeros>255x"
	default:
		return []byte(fmt.Sprintf("{\"id\":%d,\"pad\":\"%s\"}", r.intn(1000), strings.Repeat("x", r.intn(2*minLen+10)))), "json"
	}
}

func max0(x int) int {
	if x < 0 {
		return 0
	}
	return x
}

func subHeader(h http.Header, drop ...string) string {
	m := map[string][]string{}
	for k, v := range h {
		skip := false
		for _, d := range drop {
			if k == d {
				skip = true
			}
		}
		if !skip {
			m[k] = v
		}
	}
	return hxHeader(m)
}

func suiteResp(r *rng, n int) {
	installClock()
	// the process has already compressed something per request with a fast custom profile (an uncacheable answer
	// of another server) before the first cacheable response is stored
	// … and a profile whose configured levels are beyond what the codecs know (accepted by the validation; the encoders
	// fall back to their defaults): the decision table does not depend on the profile
	compress.Reset([]config.CompressConfig{{Name: "fast", Levels: map[string]uint{"gzip": 1, "br": 1}}, {Name: "odd", Levels: map[string]uint{"gzip": 11, "br": 13}}})
	for k := 0; k < 4; k++ {
		compress.Get("fast").Gzip(bytes.Repeat([]byte("warm-up "), 200+k))
		compress.Get("fast").Brotli(bytes.Repeat([]byte("warm-up "), 200+k))
	}
	for i := 0; i < n; i++ {
		cr := r.fork(uint64(i))
		minLenCfg := cr.pick2(0, 0, 1, 100, 5000)
		minLen := minLenCfg
		if minLen == 0 {
			minLen = 1024
		}
		filterSrc := cr.pick([]string{"", "", "text|json", "image"})
		opt := server.ServerOption{Addr: ":0", CompressMinLength: minLenCfg, Compress: cr.pick([]string{"", "", "", "fast", "odd"})}
		if filterSrc != "" {
			opt.CompressContentTypeFilter = regexp.MustCompile(filterSrc)
		}
		body, bclass := genRespBody(cr, minLen)
		ctype := cr.pick([]string{"text/html; charset=utf-8", "application/json", "image/png", "", "application/octet-stream", "font/woff2"})
		enc := cr.pick([]string{"", "", "gzip", "br", "lz4", "zst", "snz"})
		if optFlag == "c13" {
			// C13's cells are about stored raw/gzip/br variants only
			enc = cr.pick([]string{"", "", "gzip", "br"})
		}
		var data []byte
		okEnc := true
		switch enc {
		case "":
			data = body
		case "gzip":
			data = encGzip(body)
		case "br":
			data = encBr(body)
		case "lz4":
			data, okEnc = encLZ4(body)
		case "zst":
			data = encZstd(body)
		case "snz":
			data = encSnappy(body)
		}
		if !okEnc {
			enc, data = "", body
		}
		if (enc == "gzip" || enc == "br") && cr.chance(10) && len(body) == 0 {
			data = nil // an upstream may also send no bytes at all for an empty body
		}
		status := cr.pick2(200, 200, 200, 201, 404, 301, 500)
		cacheable := cr.chance(60)
		uh := http.Header{}
		if ctype != "" {
			uh["Content-Type"] = []string{ctype}
		}
		if enc != "" {
			uh["Content-Encoding"] = []string{enc}
		}
		if cacheable {
			uh["Cache-Control"] = []string{"max-age=60"}
		} else {
			uh["Cache-Control"] = []string{"no-store"}
		}
		if cr.chance(30) {
			// the upstream is itself a cache and states the age of what it hands out
			uh["Age"] = []string{itoa(int64(1 + cr.intn(20)))}
		}
		uh["Etag"] = []string{fmt.Sprintf("\"e%d\"", i)}
		uh["X-Multi"] = []string{"a", "b"}
		uh["Date"] = []string{"Mon, 01 Jan 2024 00:00:00 GMT"}
		uh["Connection"] = []string{"keep-alive"}
		uh["Content-Length"] = []string{itoa(int64(len(data)))}
		var p *pipeline
		if cr.chance(30) {
			// the server is started with OTHER compress settings and updated to the real ones while running: the
			// handler chain built at start must follow the update
			decoy := server.ServerOption{Addr: ":0", CompressMinLength: 7777, CompressContentTypeFilter: regexp.MustCompile("never-matches")}
			p = newPipeline(1000, "300s", true, decoy, nil, nil)
			real := opt
			real.Locations, real.Cache = []string{"l1"}, "c1"
			p.srv.Update(real)
			stat("live-updated-options")
		} else {
			p = newPipeline(1000, "300s", true, opt, nil, nil)
		}
		p.setScript(answer(status, uh, data))
		uri := fmt.Sprintf("/r/%d", i)
		stat("enc-" + enc)
		stat("body-" + bclass)
		emit("resp", "case", itoa(int64(i)), itoa(int64(status)), hxHeader(uh), hx(enc), itoa(int64(len(data))), hxb(body),
			itoa(int64(minLen)), hx(filterSrc), b2s(cacheable), hx(bclass))
		paths := []string{"fetch", "second", "again", "restored", "post"}
		for _, path := range paths {
			ae := cr.pick(respAE)
			method := "GET"
			switch path {
			case "again":
				// another URL with a different, compressible body is fetched and cached in between: what was stored
				// for the first URL must not be affected by later compressions
				other := bytes.Repeat([]byte(fmt.Sprintf("other-%d-", i)), 300+cr.intn(3000))
				oh := http.Header{"Content-Type": []string{"text/html"}, "Cache-Control": []string{"max-age=60"}}
				p.setScript(answer(200, oh, other))
				p.do("GET", "r.test", uri+"/other", http.Header{"Accept-Encoding": []string{"gzip, br"}}, nil)
				p.setScript(answer(status, uh, data))
			case "restored":
				// drop every entry, keep the store: same store URL, fresh dispatcher
				cache.ResetDispatchers(nil)
				cache.ResetDispatchers(withSibling(p.cacheCfg))
			case "post":
				method = "POST"
			}
			h := http.Header{}
			if ae != "" || cr.chance(50) {
				h["Accept-Encoding"] = []string{ae}
			}
			if path == "fetch" {
				p.store.takeSets()
			}
			before := p.calls()
			w := p.do(method, "r.test", uri, h, nil)
			calls := p.calls() - before
			emitRespObs(path, i, ae, w, body, data, calls)
			if path == "fetch" {
				// two seconds pass: the hits that follow are two seconds old, whether served from memory or restored
				setClock(getClock() + 2)
			}
			if path == "fetch" && enc == "" {
				// the variants pike compressed itself when it stored the response: made with the best-compression
				// profile, whatever profile the server uses per request
				for _, sc := range p.store.takeSets() {
					hc := cache.NewHTTPCache()
					if hc.FromBytes(sc.data) != nil || hc.GetStatus() != cache.StatusHit {
						continue
					}
					_, stored := hc.Get()
					if stored == nil {
						continue
					}
					best := compress.Get(compress.BestCompression)
					if len(stored.GzipBody) != 0 {
						// reference made with the standard library directly (level 9), not through pike's own encoder
						var rb bytes.Buffer
						zw, _ := gzip.NewWriterLevel(&rb, gzip.BestCompression)
						zw.Write(body)
						zw.Close()
						ref := rb.Bytes()
						emit("resp", "variant", itoa(int64(i)), "gzip", b2s(bytes.Equal(ref, stored.GzipBody)), itoa(int64(len(stored.GzipBody))), itoa(int64(len(ref))))
					}
					if len(stored.BrBody) != 0 {
						ref, _ := best.Brotli(body)
						emit("resp", "variant", itoa(int64(i)), "br", b2s(bytes.Equal(ref, stored.BrBody)), itoa(int64(len(stored.BrBody))), itoa(int64(len(ref))))
					}
				}
			}
		}
	}
}

func b2s(b bool) string {
	if b {
		return "1"
	}
	return "0"
}

func emitRespObs(path string, i int, ae string, w *httptest.ResponseRecorder, body, data []byte, calls int) {
	ce := w.Header().Get("Content-Encoding")
	sent := w.Body.Bytes()
	dec, ok := decodeBy(ce, sent)
	bodyOK := ok && bytes.Equal(dec, body)
	same := bytes.Equal(sent, data) && len(data) > 0
	cl := w.Header().Get("Content-Length")
	clOK := cl == itoa(int64(len(sent)))
	emit("resp", path, itoa(int64(i)), hx(ae), "=>", itoa(int64(w.Code)), hx(ce), b2s(bodyOK), b2s(same), b2s(clOK),
		hx(w.Header().Get("X-Status")), subHeader(w.Header(), "Content-Length", "Content-Encoding", "Age", "X-Status"), itoa(int64(calls)), itoa(int64(len(sent))),
		hx(strings.Join(w.Header()["Age"], ",")))
}

var _ = sort.Strings
