package main

import (
	"fmt"
	"os"
	"path/filepath"
	"reflect"
	"strings"
	"sync"
	"time"

	"github.com/vicanso/elton"
	"github.com/vicanso/elton/middleware"
	"github.com/vicanso/pike/cache"
	"github.com/vicanso/pike/compress"
	"github.com/vicanso/pike/config"
	"github.com/vicanso/pike/location"
	"github.com/vicanso/pike/server"
	"github.com/vicanso/pike/upstream"
)

// suite config: generated configurations, valid and with exactly one dangling or malformed
// element; observation: Validate's verdict class, whether every server of an accepted and
// applied configuration resolves its cache/location/upstream, and Write -> Read.

func init() { suites["config"] = suiteConfig }

var trickyNames = []string{"yes", "null", "123", "a: b", "日本", "~", "true", "0x1f", "-", "#x", "[a]", "{b}", "'q'", "\"dq\"", " lead", "trail ", "a\tb", "no", "1e3", "off", "$backend", "$HOME", "a$b"}

func cfgName(r *rng, prefix string, i int) string {
	if r.chance(30) {
		return r.pick(trickyNames)
	}
	return fmt.Sprintf("%s%d", prefix, i)
}

func uniq(names []string) []string {
	seen := map[string]bool{}
	var out []string
	for _, n := range names {
		for seen[n] {
			n += "x"
		}
		seen[n] = true
		out = append(out, n)
	}
	return out
}

func encCfg(c *config.PikeConfig) string {
	var comp, caches, ups, locs, srvs []string
	for _, x := range c.Compresses {
		comp = append(comp, "."+hx(x.Name))
	}
	for _, x := range c.Caches {
		caches = append(caches, "."+hx(x.Name))
	}
	for _, x := range c.Upstreams {
		ups = append(ups, "."+hx(x.Name))
	}
	for _, x := range c.Locations {
		locs = append(locs, hx(x.Name)+"|"+hx(x.Upstream))
	}
	for _, x := range c.Servers {
		srvs = append(srvs, hx(x.Addr)+"|"+encList(x.Locations)+"|"+hx(x.Cache)+"|"+hx(x.Compress))
	}
	j := func(xs []string, sep string) string {
		if len(xs) == 0 {
			return "-"
		}
		return strings.Join(xs, sep)
	}
	return j(comp, ",") + "\t" + j(caches, ",") + "\t" + j(ups, ",") + "\t" + j(locs, ";") + "\t" + j(srvs, ";")
}

func suiteConfig(r *rng, n int) {
	installClock()
	dir := filepath.Join(os.Getenv("VERIF_WORK"), "")
	if dir == "" {
		dir = "/verif/.work"
	}
	_ = os.MkdirAll(dir, 0o755)
	file := filepath.Join(dir, fmt.Sprintf("cfg-%d.yml", os.Getpid()))
	defer os.Remove(file)
	if err := config.InitDefaultClient(file); err != nil {
		fmt.Fprintln(os.Stderr, "config client:", err)
		os.Exit(3)
	}
	defer config.Close()
	chains := map[string]*elton.Elton{}
	chainOf := map[string]interface{}{}
	for i := 0; i < n; i++ {
		cr := r.fork(uint64(i))
		c := &config.PikeConfig{}
		nn := func(k int) int { return 1 + cr.intn(k) }
		var names []string
		for j := 0; j < nn(2); j++ {
			names = append(names, cfgName(cr, "z", j))
		}
		for _, nme := range uniq(names) {
			c.Compresses = append(c.Compresses, config.CompressConfig{Name: nme, Levels: map[string]uint{"gzip": uint(cr.intn(10)), "br": uint(cr.intn(12))}})
		}
		names = nil
		for j := 0; j < nn(2); j++ {
			names = append(names, cfgName(cr, "c", j))
		}
		for _, nme := range uniq(names) {
			cc := config.CacheConfig{Name: nme, Size: 10 + cr.intn(100), HitForPass: cr.pick([]string{"5m", "300s", "1h"})}
			if cr.chance(20) {
				// a well-formed store url that cannot be opened when the configuration is applied (a path below a
				// character device): the cache then works from memory only
				cc.Store = "badger:///dev/null/verif-" + itoa(int64(cr.intn(3)))
				stat("cache-with-unopenable-store")
			}
			c.Caches = append(c.Caches, cc)
		}
		names = nil
		for j := 0; j < nn(3); j++ {
			names = append(names, cfgName(cr, "u", j))
		}
		for _, nme := range uniq(names) {
			c.Upstreams = append(c.Upstreams, config.UpstreamConfig{Name: nme, Policy: cr.pick([]string{"", "first", "random", "roundRobin", "leastconn"}),
				Servers: []config.UpstreamServerConfig{{Addr: "http://127.0.0.1:1"}, {Addr: "http://127.0.0.1:2", Backup: true}}})
		}
		names = nil
		for j := 0; j < nn(3); j++ {
			names = append(names, cfgName(cr, "l", j))
		}
		for _, nme := range uniq(names) {
			l := config.LocationConfig{Name: nme, Upstream: c.Upstreams[cr.intn(len(c.Upstreams))].Name}
			if cr.chance(40) {
				l.Prefixes = []string{"/api"}
			}
			if cr.chance(30) {
				l.Hosts = []string{"aa.test"}
			}
			if cr.chance(30) {
				l.RespHeaders = []string{"X-A:1"}
				l.QueryStrings = []string{"k:v"}
				l.Rewrites = []string{"/api/*:/$1"}
				l.ProxyTimeout = "30s"
			}
			c.Locations = append(c.Locations, l)
		}
		for j := 0; j < nn(2); j++ {
			s := config.ServerConfig{Addr: fmt.Sprintf(":%d", 40000+j), Cache: c.Caches[cr.intn(len(c.Caches))].Name}
			for _, l := range c.Locations {
				if cr.chance(70) {
					s.Locations = append(s.Locations, l.Name)
				}
			}
			if len(s.Locations) == 0 {
				s.Locations = []string{c.Locations[0].Name}
			}
			if cr.chance(60) {
				s.Compress = c.Compresses[cr.intn(len(c.Compresses))].Name
			}
			if cr.chance(30) {
				s.CompressMinLength = cr.pick([]string{"1kb", "512", "1MB"})
				s.CompressContentTypeFilter = "text|json"
			}
			c.Servers = append(c.Servers, s)
		}
		if cr.chance(30) {
			c.Admin = config.AdminConfig{User: "admin", Password: "secret1"}
		}
		// free-text remarks: several lines, line breaks at the end, leading blanks, text YAML would read as something
		// else; also on the LAST element of the document
		remarks := []string{"owner: ops team\nsee the wiki\n", "keep the blank lines\n\n\n", "  indented", "plain", "# not a comment", "a: b", "tab\there", "yes", "line1\nline2", "trailing space \n"}
		if cr.chance(40) {
			c.Servers[len(c.Servers)-1].Remark = cr.pick(remarks)
		}
		if cr.chance(20) {
			c.Caches[0].Remark = cr.pick(remarks)
		}
		if cr.chance(20) {
			c.Locations[len(c.Locations)-1].Remark = cr.pick(remarks)
		}
		if cr.chance(15) {
			c.Upstreams[0].Remark = cr.pick(remarks)
		}
		// one defect, or none
		defect := "none"
		structOK := true
		si := cr.intn(len(c.Servers))
		li := cr.intn(len(c.Locations))
		switch cr.intn(28) {
		case 19:
			// an address needs a scheme the proxy can dial with: http or https, exactly
			defect, structOK = "bad-addr-noscheme", false
			c.Upstreams[0].Servers[0].Addr = cr.pick([]string{"localhost:3015", "//127.0.0.1:3015", "backend.internal/api", "ttp://127.0.0.1:1", "htt://127.0.0.1:1", "p://x"})
		case 20:
			// … and a policy is one of the four names, not a piece of one or several of them
			defect, structOK = "bad-policy-part", false
			c.Upstreams[0].Policy = cr.pick([]string{"round", "Robin", "least", "first,random", "rst", "random,", "o"})
		case 18:
			// the policy names are case sensitive (the upstream library switches on the exact string and falls back to
			// round robin for anything else)
			defect, structOK = "bad-policy-case", false
			c.Upstreams[0].Policy = cr.pick([]string{"First", "RANDOM", "roundrobin", "leastConn", "RoundRobin"})
		case 0:
			defect = "dangling-upstream"
			c.Locations[li].Upstream = "ghost"
		case 1:
			defect = "dangling-location"
			c.Servers[si].Locations = append(c.Servers[si].Locations, "ghost")
		case 2:
			defect = "dangling-cache"
			c.Servers[si].Cache = "ghost"
		case 3:
			defect = "dangling-compress"
			c.Servers[si].Compress = "ghost"
		case 4:
			defect, structOK = "empty-addr", false
			c.Servers[si].Addr = ""
		case 5:
			defect, structOK = "cache-size-0", false
			c.Caches[0].Size = 0
		case 6:
			defect, structOK = "bad-duration", false
			c.Caches[0].HitForPass = "abc"
		case 7:
			defect, structOK = "bad-upstream-addr", false
			c.Upstreams[0].Servers[0].Addr = "ftp://x"
		case 8:
			defect, structOK = "bad-prefix", false
			c.Locations[li].Prefixes = []string{"no-slash"}
		case 9:
			defect, structOK = "bad-rewrite", false
			c.Locations[li].Rewrites = []string{"a:b:c"}
		case 10:
			defect, structOK = "bad-host", false
			c.Locations[li].Hosts = []string{"bad host!"}
		case 11:
			defect, structOK = "bad-size", false
			c.Servers[si].CompressMinLength = "12xb"
		case 12:
			defect, structOK = "bad-filter", false
			c.Servers[si].CompressContentTypeFilter = "("
		case 13:
			defect, structOK = "bad-policy", false
			c.Upstreams[0].Policy = "bogus"
		case 14:
			defect, structOK = "short-admin-user", false
			c.Admin = config.AdminConfig{User: "ab", Password: "secret1"}
		case 15:
			defect, structOK = "long-name", false
			c.Caches[0].Name = strings.Repeat("n", 21)
			for k := range c.Servers {
				c.Servers[k].Cache = c.Caches[0].Name
			}
		case 16:
			defect, structOK = "no-cache-on-server", false
			c.Servers[si].Cache = ""
		case 17:
			defect, structOK = "no-servers-in-upstream", false
			c.Upstreams[0].Servers = nil
		}
		stat("defect-" + defect)
		enc := encCfg(c)
		verr := c.Validate()
		class := "ok"
		switch verr {
		case nil:
		case config.ErrUpstreamNotFound:
			class = "upstream"
		case config.ErrLocationNotFound:
			class = "location"
		case config.ErrCacheNotFound:
			class = "cache"
		case config.ErrCompressNotFound:
			class = "compress"
		default:
			class = "struct"
		}
		probes, rt := "n/a", "n/a"
		if verr != nil {
			// a configuration that is not accepted cannot be saved either: Write refuses it and what is stored stays
			// what it was
			before, berr := config.Read()
			cp := *c
			if werr := config.Write(&cp); werr == nil {
				rt = "saved-although-rejected"
			} else if after, aerr := config.Read(); (berr == nil) != (aerr == nil) || (berr == nil && !reflect.DeepEqual(before, after)) {
				rt = "stored-changed-by-refused-write"
			} else {
				rt = "write-refused"
			}
		}
		if verr == nil {
			// apply like main.update (servers are not started)
			compress.Reset(c.Compresses)
			cache.ResetDispatchers(c.Caches)
			upstream.Reset(c.Upstreams)
			location.Reset(c.Locations)
			server.Reset(c.Servers)
			probes = "ok"
			for _, sc := range c.Servers {
				s := server.Get(sc.Addr)
				// the handler chain of a server is built ONCE, when the server object appears (as server.Start does);
				// a server that is updated in place keeps serving through the chain it was started with
				e := chains[sc.Addr]
				if e == nil || chainOf[sc.Addr] != interface{}(s) {
					e = elton.New()
					e.Use(middleware.NewDefaultError())
					e.Use(server.NewResponder())
					e.Use(server.NewCache(s))
					e.Use(server.NewProxy(s))
					e.ALL("/*", func(c *elton.Context) error { return nil })
					chains[sc.Addr], chainOf[sc.Addr] = e, s
				}
				for _, u := range c.Upstreams {
					if us := upstream.Get(u.Name); us != nil {
						us.Proxy = func(c *elton.Context) error {
							c.StatusCode = 200
							c.BodyBuffer = bytesBuf("ok")
							c.Header()["Cache-Control"] = []string{"no-store"}
							return nil
						}
					}
				}
				p := &pipeline{e: e}
				for _, hostURI := range [][2]string{{"aa.test", "/api/x"}, {"b.test", "/other"}} {
					w := p.do("GET", hostURI[0], hostURI[1], nil, nil)
					body := w.Body.String()
					if strings.Contains(body, "cache dispatcher not found") {
						probes = "missing:cache"
					} else if strings.Contains(body, "upstream not found") {
						probes = "missing:upstream"
					} else if hostURI[1] == "/api/x" && strings.Contains(body, "location not found") {
						// every generated location admits aa.test + /api/x (hosts ⊆ {aa.test} or none, prefixes ⊆ {/api} or
						// none) and every server lists at least one location: some location must take this request
						probes = "missing:location"
					}
				}
			}
			// every other accepted configuration is applied to the servers still RUNNING with the previous one
			// (update in place, as a live reload does); the others start from no servers
			if i%2 == 0 {
				server.Reset(nil)
			}
			// Write -> Read
			cp := *c
			if err := config.Write(&cp); err != nil {
				rt = "write-error"
			} else if back, err := config.Read(); err != nil {
				rt = "read-error"
			} else {
				back.YAML, back.Version = "", ""
				cp.YAML, cp.Version = "", ""
				if reflect.DeepEqual(*back, cp) {
					rt = "same"
				} else {
					rt = "differs"
				}
				// read - modify - write - read: what is saved is the configuration that was accepted, not the text
				// the previous read happened to carry along
				if rt == "same" {
					if again, err := config.Read(); err == nil && len(again.Caches) > 0 {
						again.Caches[0].Size += 7
						want := *again
						if err := config.Write(again); err != nil {
							rt = "write-error:rmw"
						} else if third, err := config.Read(); err != nil {
							rt = "read-error:rmw"
						} else {
							third.YAML, third.Version = "", ""
							want.YAML, want.Version = "", ""
							if !reflect.DeepEqual(*third, want) {
								rt = "differs:read-modify-write"
							}
						}
					}
				}
			}
		}
		emit("config", itoa(int64(i)), hx(defect), b2s(structOK), enc, "=>", class, probes, rt)
		// single-field probes: one field of an otherwise valid minimal configuration takes a value from a pool of
		// well-formed values and near misses; the verdict of Validate is compared with the Lean field rule
		for k := 0; k < 3; k++ {
			kind := cr.pick([]string{"name", "policy", "addr", "prefix", "divide"})
			v := fieldValue(cr, kind)
			emit("config", "field", kind, hx(v), "=>", b2s(fieldAccepted(kind, v)))
			stat("field-" + kind)
		}
	}
	configWatchHistory()
}

// directed history with the REAL file watcher: two configurations saved in quick succession; what the running
// instance ends up with (the last configuration its change callback read) is the one saved last — what a fresh
// start would read
func configWatchHistory() {
	var mu sync.Mutex
	last := -1
	calls := 0
	go config.Watch(func() {
		c, err := config.Read()
		mu.Lock()
		defer mu.Unlock()
		calls++
		if err == nil && len(c.Caches) > 0 {
			last = c.Caches[0].Size
		}
	})
	time.Sleep(200 * time.Millisecond) // the watcher is registered
	mk := func(size int) *config.PikeConfig {
		return &config.PikeConfig{
			Caches:    []config.CacheConfig{{Name: "c1", Size: size, HitForPass: "5m"}},
			Upstreams: []config.UpstreamConfig{{Name: "u1", Servers: []config.UpstreamServerConfig{{Addr: "http://127.0.0.1:1"}}}},
			Locations: []config.LocationConfig{{Name: "l1", Upstream: "u1"}},
			Servers:   []config.ServerConfig{{Addr: ":40000", Cache: "c1", Locations: []string{"l1"}}},
		}
	}
	res := "ok"
	for round := 0; round < 3 && res == "ok"; round++ {
		first, second := 1000+round*10, 1005+round*10
		if err := config.Write(mk(first)); err != nil {
			fmt.Fprintln(os.Stderr, "watch history: write:", err)
			res = "write-error"
			break
		}
		time.Sleep(150 * time.Millisecond)
		if err := config.Write(mk(second)); err != nil {
			res = "write-error"
			break
		}
		deadline := time.Now().Add(4 * time.Second)
		for {
			mu.Lock()
			l, n := last, calls
			mu.Unlock()
			if l == second {
				break
			}
			if time.Now().After(deadline) {
				if n == 0 {
					res = "no-events" // the file system delivers no change events here: nothing to compare
				} else {
					res = fmt.Sprintf("stale:%d", l)
				}
				break
			}
			time.Sleep(50 * time.Millisecond)
		}
		time.Sleep(1200 * time.Millisecond)
	}
	emit("config", "watch", res)
	stat("watch-histories")
}

var fieldPools = map[string][]string{
	"name": {"", "a", "c1", "exactly-twenty-chars", "twenty-one-characters", strings.Repeat("n", 19), strings.Repeat("n", 25),
		strings.Repeat("\u65e5", 20), strings.Repeat("\u65e5", 21), strings.Repeat("\u00e9", 20) + "x", "caf\u00e9", "a b", "$HOME", " lead", "x\ty"},
	"policy": {"", "first", "random", "roundRobin", "leastconn", "First", "RANDOM", "roundrobin", "leastConn", "round", "Robin", "least", "rst",
		"first,random", "first ", " first", "o", "firstrandom", "leastconn\n"},
	"addr": {"http://127.0.0.1:3015", "https://a.test", "HTTP://a.test", "Https://a.test:8443/x", "hTTps://a.test", "ftp://a.test", "localhost:3015",
		"//127.0.0.1:1", "a.test/x", "ttp://a.test", "htt://a.test", "h2c://a.test", "http:/a.test", "http//a.test", ":http://x", "1http://x", "ht+tp://x",
		"httpx://a.test", "xhttp://a.test", "https", "http:", "p://x", "s://a.test", "", "http://a.test:1/p?q=1"},
	"prefix": {"/", "/api", "", "api", " /x", "//", "/\u00fc", "a/", "/a b", "?/"},
	"divide": {"a:b", "a:", ":b", ":", "ab", "a:b:c", "", "a::b", "http://x:y", "X-H:v", "k:v w", "::"},
}

func fieldValue(r *rng, kind string) string {
	pool := fieldPools[kind]
	v := pool[r.intn(len(pool))]
	if r.chance(15) && kind != "addr" {
		// a random printable tail
		for k := 0; k < 1+r.intn(24); k++ {
			v += string(rune('a' + r.intn(26)))
		}
	}
	return v
}

func fieldAccepted(kind, v string) bool {
	c := &config.PikeConfig{
		Caches:    []config.CacheConfig{{Name: "c", Size: 10, HitForPass: "5m"}},
		Upstreams: []config.UpstreamConfig{{Name: "u", Servers: []config.UpstreamServerConfig{{Addr: "http://127.0.0.1:1"}}}},
		Locations: []config.LocationConfig{{Name: "l", Upstream: "u"}},
		Servers:   []config.ServerConfig{{Addr: ":1", Locations: []string{"l"}, Cache: "c"}},
	}
	switch kind {
	case "name":
		c.Caches[0].Name = v
		c.Servers[0].Cache = v
		if v == "" {
			// an empty cache name on the server is the server's own required field: probe the cache's name alone
			c.Servers = nil
		}
	case "policy":
		c.Upstreams[0].Policy = v
	case "addr":
		c.Upstreams[0].Servers[0].Addr = v
	case "prefix":
		c.Locations[0].Prefixes = []string{v}
	case "divide":
		c.Locations[0].Rewrites = []string{v}
	}
	return c.Validate() == nil
}
