package main

import (
	"bytes"
	"fmt"
	"io"
	"net"
	"net/http"
	"net/http/httptest"
	"strings"
	"sync"
	"time"

	"github.com/vicanso/pike/cache"
	"github.com/vicanso/pike/config"
	"github.com/vicanso/pike/location"
	"github.com/vicanso/pike/server"
	"github.com/vicanso/pike/upstream"
)

// suite fault: a REAL listening pike server (server.Start) in front of a loopback origin that misbehaves at the
// transport level, with real clients.  Three kinds of history, each on URIs of its own:
//   drop     - the origin reads the request and closes the connection without a response byte.  Every connection to
//              the origin is a fresh one (keep-alive off), so net/http itself never replays; the origin must have
//              seen the request exactly once and the client gets a 5xx.
//   redirect - the origin answers 302 + Location (no-store).  The client gets that 302, the origin was contacted
//              once (the redirect target was not fetched on the client's behalf), and the 302 is not stored.
//   short    - the origin declares Content-Length N and dies after N/2 body bytes.  The client must not get a
//              complete 200 with fewer bytes, and nothing truncated is served to the next client.
// Locations with and without a proxy timeout are both used.

func init() { suites["fault"] = suiteFault }

type faultOrigin struct {
	mu     sync.Mutex
	seen   map[string]int // path -> requests received
	faulty map[string]bool
	srv    *httptest.Server
}

func faultBody(n int) []byte { return bytes.Repeat([]byte("0123456789abcdef"), n/16+1)[:n] }

func newFaultOrigin() *faultOrigin {
	o := &faultOrigin{seen: map[string]int{}, faulty: map[string]bool{}}
	o.srv = httptest.NewUnstartedServer(http.HandlerFunc(func(w http.ResponseWriter, req *http.Request) {
		io.Copy(io.Discard, req.Body)
		p := req.URL.Path
		o.mu.Lock()
		o.seen[p]++
		faulty := o.faulty[p]
		o.mu.Unlock()
		switch {
		case strings.Contains(p, "/drop/"):
			if hj, ok := w.(http.Hijacker); ok {
				if c, _, err := hj.Hijack(); err == nil {
					c.Close()
				}
			}
		case strings.Contains(p, "/redir/old"):
			w.Header().Set("Cache-Control", "no-store")
			w.Header().Set("Location", strings.Replace(p, "/old", "/new", 1))
			w.WriteHeader(302)
		case strings.Contains(p, "/redir/new"):
			w.Header().Set("Cache-Control", "max-age=60")
			w.Header().Set("Content-Type", "image/png")
			w.WriteHeader(200)
			io.WriteString(w, "the-redirect-target")
		case strings.Contains(p, "/short/"):
			var n int
			fmt.Sscanf(p[strings.LastIndex(p, "/")+1:], "%d", &n)
			full := faultBody(n)
			if !faulty {
				w.Header().Set("Cache-Control", "max-age=60")
				w.Header().Set("Content-Type", "image/png")
				w.Header().Set("Content-Length", fmt.Sprint(n))
				w.WriteHeader(200)
				w.Write(full)
				return
			}
			if hj, ok := w.(http.Hijacker); ok {
				if c, _, err := hj.Hijack(); err == nil {
					fmt.Fprintf(c, "HTTP/1.1 200 OK\r\nContent-Type: image/png\r\nCache-Control: max-age=60\r\nConnection: close\r\nContent-Length: %d\r\n\r\n", n)
					c.Write(full[:n/2])
					c.Close()
				}
			}
		default:
			w.Header().Set("Cache-Control", "no-store")
			w.WriteHeader(200)
		}
	}))
	o.srv.Config.SetKeepAlivesEnabled(false)
	o.srv.Start()
	return o
}

func (o *faultOrigin) count(p string) int { o.mu.Lock(); defer o.mu.Unlock(); return o.seen[p] }

func suiteFault(r *rng, n int) {
	o := newFaultOrigin()
	defer o.srv.Close()
	cache.ResetDispatchers(nil)
	cache.ResetDispatchers(withSibling(config.CacheConfig{Name: "c1", Size: 1000, HitForPass: "300s"}))
	upstream.Reset([]config.UpstreamConfig{{Name: "u1", Servers: []config.UpstreamServerConfig{{Addr: o.srv.URL}}}})
	waitUpstreamHealthy("u1")
	location.Reset([]config.LocationConfig{
		{Name: "lt", Upstream: "u1", Prefixes: []string{"/t"}, ProxyTimeout: "5s"},
		{Name: "l1", Upstream: "u1"},
	})
	s := server.NewServer(server.ServerOption{Addr: "127.0.0.1:0", Locations: []string{"lt", "l1"}, Cache: "c1", CompressMinLength: 1 << 20})
	started := false
	for attempt := 0; attempt < 5 && !started; attempt++ {
		if err := s.Start(true); err == nil {
			started = true
		}
	}
	if !started {
		emit("fault", "nostart")
		return
	}
	front := "http://" + s.GetListenAddr()
	for i := 0; i < 100; i++ {
		if c, err := net.DialTimeout("tcp", s.GetListenAddr(), 100*time.Millisecond); err == nil {
			c.Close()
			break
		}
		time.Sleep(10 * time.Millisecond)
	}
	client := &http.Client{
		Timeout:       15 * time.Second,
		Transport:     &http.Transport{DisableKeepAlives: true},
		CheckRedirect: func(*http.Request, []*http.Request) error { return http.ErrUseLastResponse },
	}
	type out struct {
		code int // -1: the client saw a transport error (aborted connection)
		n    int
		xs   string
		loc  string
	}
	do := func(method, path string, body []byte) out {
		var rd io.Reader
		if body != nil {
			rd = bytes.NewReader(body)
		}
		req, _ := http.NewRequest(method, front+path, rd)
		resp, err := client.Do(req)
		if err != nil {
			return out{code: -1}
		}
		defer resp.Body.Close()
		b, err := io.ReadAll(resp.Body)
		if err != nil {
			return out{code: -1, n: len(b)}
		}
		return out{resp.StatusCode, len(b), resp.Header.Get("X-Status"), resp.Header.Get("Location")}
	}
	for i := 0; i < n; i++ {
		cr := r.fork(uint64(i))
		pre := cr.pick([]string{"", "/t"}) // without / with a proxy timeout on the location
		switch i % 3 {
		case 0:
			method := cr.pick([]string{"GET", "HEAD", "DELETE", "POST", "POST", "PUT", "OPTIONS"})
			var body []byte
			if (method == "POST" || method == "PUT") && cr.chance(50) {
				body = []byte("payload")
			}
			p := fmt.Sprintf("%s/drop/%d", pre, i)
			r1 := do(method, p, body)
			emit("fault", "drop", hx(method), b2s(body != nil), b2s(pre != ""), "=>", itoa(int64(o.count(p))), itoa(int64(r1.code)), hx(r1.xs))
			stat("drop-" + method)
		case 1:
			method := cr.pick([]string{"GET", "GET", "HEAD", "POST", "DELETE"})
			p := fmt.Sprintf("%s/redir/old/%d", pre, i)
			pn := strings.Replace(p, "/old", "/new", 1)
			r1 := do(method, p, nil)
			c1, cn := o.count(p), o.count(pn)
			r2 := do(method, p, nil)
			emit("fault", "redirect", hx(method), b2s(pre != ""), "=>", itoa(int64(c1)), itoa(int64(cn)), itoa(int64(r1.code)), b2s(r1.loc == pn), hx(r1.xs),
				itoa(int64(o.count(p)-c1)), itoa(int64(r2.code)), hx(r2.xs))
			stat("redirect-" + method)
		case 2:
			size := []int{64, 1000, 65536, 300000}[cr.intn(4)]
			p := fmt.Sprintf("%s/short/%d/%d", pre, i, size)
			o.mu.Lock()
			o.faulty[p] = true
			o.mu.Unlock()
			r1 := do("GET", p, nil)
			o.mu.Lock()
			o.faulty[p] = false
			o.mu.Unlock()
			r2 := do("GET", p, nil)
			emit("fault", "short", itoa(int64(size)), b2s(pre != ""), "=>", itoa(int64(r1.code)), itoa(int64(r1.n)), hx(r1.xs), itoa(int64(r2.code)), itoa(int64(r2.n)), hx(r2.xs), itoa(int64(o.count(p))))
			stat(fmt.Sprintf("short-%d", size))
		}
		if i%50 == 49 {
			flush()
		}
	}
}
