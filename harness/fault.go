package main

import (
	"bytes"
	"fmt"
	"io"
	"net"
	"net/http"
	"net/http/httptest"
	"strings"
	"sync"
	"time"

	"github.com/vicanso/pike/cache"
	"github.com/vicanso/pike/compress"
	"github.com/vicanso/pike/config"
	"github.com/vicanso/pike/location"
	"github.com/vicanso/pike/server"
	"github.com/vicanso/pike/upstream"
)

// suite fault: a REAL listening pike server (server.Start) in front of a loopback origin that misbehaves at the
// transport level, with real clients.  Three kinds of history, each on URIs of its own:
//   drop     - the origin reads the request and closes the connection without a response byte.  Every connection to
//              the origin is a fresh one (keep-alive off), so net/http itself never replays; the origin must have
//              seen the request exactly once and the client gets a 5xx.
//   redirect - the origin answers 302 + Location (no-store).  The client gets that 302, the origin was contacted
//              once (the redirect target was not fetched on the client's behalf), and the 302 is not stored.
//   short    - the origin declares Content-Length N and dies after N/2 body bytes.  The client must not get a
//              complete 200 with fewer bytes, and nothing truncated is served to the next client.
// Locations with and without a proxy timeout are both used.

func init() { suites["fault"] = suiteFault }

type faultOrigin struct {
	mu     sync.Mutex
	seen   map[string]int // path -> requests received
	faulty map[string]bool
	srv    *httptest.Server
	// requests inside the /slow/ handler right now, and the most there ever were
	inflight, maxInflight int
}

const condETag = "\"c1\""
const condLastModified = "Mon, 01 Jan 2024 00:00:00 GMT"

func faultBody(n int) []byte { return bytes.Repeat([]byte("0123456789abcdef"), n/16+1)[:n] }

func newFaultOrigin() *faultOrigin {
	o := &faultOrigin{seen: map[string]int{}, faulty: map[string]bool{}}
	o.srv = httptest.NewUnstartedServer(http.HandlerFunc(func(w http.ResponseWriter, req *http.Request) {
		io.Copy(io.Discard, req.Body)
		p := req.URL.Path
		o.mu.Lock()
		o.seen[p]++
		faulty := o.faulty[p]
		o.mu.Unlock()
		switch {
		case strings.Contains(p, "/drop/"):
			if hj, ok := w.(http.Hijacker); ok {
				if c, _, err := hj.Hijack(); err == nil {
					c.Close()
				}
			}
		case strings.Contains(p, "/redir/old"):
			w.Header().Set("Cache-Control", "no-store")
			w.Header().Set("Location", strings.Replace(p, "/old", "/new", 1))
			w.WriteHeader(302)
		case strings.Contains(p, "/redir/new"):
			w.Header().Set("Cache-Control", "max-age=60")
			w.Header().Set("Content-Type", "image/png")
			w.WriteHeader(200)
			io.WriteString(w, "the-redirect-target")
		case strings.Contains(p, "/short/"):
			var n int
			fmt.Sscanf(p[strings.LastIndex(p, "/")+1:], "%d", &n)
			full := faultBody(n)
			if !faulty {
				w.Header().Set("Cache-Control", "max-age=60")
				w.Header().Set("Content-Type", "image/png")
				w.Header().Set("Content-Length", fmt.Sprint(n))
				w.WriteHeader(200)
				w.Write(full)
				return
			}
			if hj, ok := w.(http.Hijacker); ok {
				if c, _, err := hj.Hijack(); err == nil {
					fmt.Fprintf(c, "HTTP/1.1 200 OK\r\nContent-Type: image/png\r\nCache-Control: max-age=60\r\nConnection: close\r\nContent-Length: %d\r\n\r\n", n)
					c.Write(full[:n/2])
					c.Close()
				}
			}
		case strings.Contains(p, "/bigtext/"):
			// an ordinary cacheable, compressible answer above the compress threshold
			w.Header().Set("Cache-Control", "max-age=60")
			w.Header().Set("Content-Type", "text/plain")
			w.WriteHeader(200)
			w.Write(bytes.Repeat([]byte("compressible text, line after line. "), 120))
		case strings.Contains(p, "/bighdr/"):
			// 12 KB of response headers (a long Content-Security-Policy, many Link lines)
			w.Header().Set("Cache-Control", "no-store")
			w.Header().Set("Content-Type", "image/png")
			w.Header().Set("Content-Security-Policy", strings.Repeat("default-src 'self' https://cdn.example.test; ", 180))
			for k := 0; k < 40; k++ {
				w.Header().Add("Link", fmt.Sprintf("</style-%d.css>; rel=preload; as=style", k))
			}
			w.WriteHeader(200)
			io.WriteString(w, "big-headers-body")
		case strings.Contains(p, "/slow/"):
			o.mu.Lock()
			o.inflight++
			if o.inflight > o.maxInflight {
				o.maxInflight = o.inflight
			}
			o.mu.Unlock()
			time.Sleep(400 * time.Millisecond)
			o.mu.Lock()
			o.inflight--
			o.mu.Unlock()
			w.Header().Set("Cache-Control", "no-store")
			w.WriteHeader(200)
			io.WriteString(w, "slow")
		case strings.Contains(p, "/nobody/"):
			// cacheable answers that carry no body at all
			w.Header().Set("Cache-Control", "max-age=60")
			switch {
			case strings.Contains(p, "/204/"):
				w.WriteHeader(204)
			case strings.Contains(p, "/301/"):
				w.Header().Set("Location", "/elsewhere")
				w.WriteHeader(301)
			default: // "/cl0/" and HEAD requests
				w.Header().Set("Content-Type", "image/png")
				w.Header().Set("Content-Length", "0")
				w.WriteHeader(200)
			}
		case strings.Contains(p, "/badenc/"):
			// a cacheable, compressible answer whose body is NOT what its Content-Encoding says
			enc := p[strings.LastIndex(p, "/")+1:]
			w.Header().Set("Cache-Control", "max-age=60")
			w.Header().Set("Content-Type", "text/plain")
			w.Header().Set("Content-Encoding", enc)
			w.WriteHeader(200)
			switch {
			case strings.HasSuffix(p, "/cut/"+enc):
				// a valid stream of that encoding cut in the middle
				var full []byte
				body := bytes.Repeat([]byte("the quick brown fox jumps over the lazy dog. "), 200)
				switch enc {
				case "gzip":
					full = encGzip(body)
				case "br":
					full = encBr(body)
				case "zst":
					full = encZstd(body)
				case "snz":
					full = encSnappy(body)
				case "lz4":
					full, _ = encLZ4(body)
				}
				w.Write(full[:len(full)/2])
			default:
				w.Write(bytes.Repeat([]byte("this is not compressed data at all. "), 100))
			}
		case strings.Contains(p, "/cond/"):
			// an origin that honours validators: ETag and Last-Modified
			w.Header().Set("Cache-Control", "max-age=60")
			w.Header().Set("Content-Type", "image/png")
			w.Header().Set("Etag", condETag)
			w.Header().Set("Last-Modified", condLastModified)
			if req.Header.Get("If-None-Match") == condETag || (req.Header.Get("If-None-Match") == "" && req.Header.Get("If-Modified-Since") == condLastModified) {
				w.WriteHeader(304)
				return
			}
			w.WriteHeader(200)
			io.WriteString(w, "conditional-resource-body")
		default:
			w.Header().Set("Cache-Control", "no-store")
			w.WriteHeader(200)
		}
	}))
	o.srv.Config.SetKeepAlivesEnabled(false)
	o.srv.Start()
	return o
}

func (o *faultOrigin) count(p string) int { o.mu.Lock(); defer o.mu.Unlock(); return o.seen[p] }

func suiteFault(r *rng, n int) {
	o := newFaultOrigin()
	defer o.srv.Close()
	cache.ResetDispatchers(nil)
	cache.ResetDispatchers(withSibling(config.CacheConfig{Name: "c1", Size: 1000, HitForPass: "300s"}))
	// the operator has redefined the profile cached bodies are compressed with, with levels beyond what the codecs know
	// (accepted by the validation): the encoders fall back to their defaults
	compress.Reset([]config.CompressConfig{{Name: compress.BestCompression, Levels: map[string]uint{"gzip": 12, "br": 13}}})
	upstream.Reset([]config.UpstreamConfig{
		{Name: "u1", Servers: []config.UpstreamServerConfig{{Addr: o.srv.URL}}},
		{Name: "ulc", Policy: "leastconn", Servers: []config.UpstreamServerConfig{{Addr: o.srv.URL}}},
	})
	waitUpstreamHealthy("u1")
	waitUpstreamHealthy("ulc")
	location.Reset([]config.LocationConfig{
		{Name: "lt", Upstream: "u1", Prefixes: []string{"/t"}, ProxyTimeout: "5s"},
		{Name: "llc", Upstream: "ulc", Prefixes: []string{"/lc"}},
		{Name: "l1", Upstream: "u1"},
	})
	s := server.NewServer(server.ServerOption{Addr: "127.0.0.1:0", Locations: []string{"lt", "llc", "l1"}, Cache: "c1", CompressMinLength: 1024})
	started := false
	for attempt := 0; attempt < 5 && !started; attempt++ {
		if err := s.Start(true); err == nil {
			started = true
		}
	}
	if !started {
		emit("fault", "nostart")
		return
	}
	front := "http://" + s.GetListenAddr()
	for i := 0; i < 100; i++ {
		if c, err := net.DialTimeout("tcp", s.GetListenAddr(), 100*time.Millisecond); err == nil {
			c.Close()
			break
		}
		time.Sleep(10 * time.Millisecond)
	}
	client := &http.Client{
		Timeout:       15 * time.Second,
		Transport:     &http.Transport{DisableKeepAlives: true, DisableCompression: true},
		CheckRedirect: func(*http.Request, []*http.Request) error { return http.ErrUseLastResponse },
	}
	type out struct {
		ms   int64
		code int // -1: the client saw a transport error (aborted connection); -2: no answer within the client's time-out
		n    int
		xs   string
		loc  string
	}
	var extra http.Header
	do := func(method, path string, body []byte) out {
		var rd io.Reader
		if body != nil {
			rd = bytes.NewReader(body)
		}
		req, _ := http.NewRequest(method, front+path, rd)
		for k, vs := range extra {
			req.Header[k] = vs
		}
		t0 := time.Now()
		resp, err := client.Do(req)
		if err != nil {
			if ne, ok := err.(net.Error); ok && ne.Timeout() {
				return out{ms: time.Since(t0).Milliseconds(), code: -2}
			}
			return out{ms: time.Since(t0).Milliseconds(), code: -1}
		}
		defer resp.Body.Close()
		b, err := io.ReadAll(resp.Body)
		if err != nil {
			return out{ms: time.Since(t0).Milliseconds(), code: -1, n: len(b)}
		}
		return out{time.Since(t0).Milliseconds(), resp.StatusCode, len(b), resp.Header.Get("X-Status"), resp.Header.Get("Location")}
	}
	for i := 0; i < n; i++ {
		cr := r.fork(uint64(i))
		pre := cr.pick([]string{"", "/t"}) // without / with a proxy timeout on the location
		switch i % 9 {
		case 6:
			// a plain cacheable text answer while the best-compression profile carries out-of-range levels
			p := fmt.Sprintf("%s/bigtext/%d", pre, i)
			old := client.Timeout
			client.Timeout = 6 * time.Second
			r1 := do("GET", p, nil)
			r2 := do("GET", p, nil)
			client.Timeout = old
			emit("fault", "bigtext", "=>", itoa(int64(r1.code)), itoa(r1.ms), hx(r1.xs), itoa(int64(r2.code)), itoa(r2.ms), hx(r2.xs), itoa(int64(o.count(p))))
			stat("bigtext")
			if r1.code == -2 || r2.code == -2 {
				flush()
				return
			}
		case 7:
			p := fmt.Sprintf("%s/bighdr/%d", pre, i)
			r1 := do(cr.pick([]string{"GET", "POST"}), p, nil)
			emit("fault", "bighdr", "=>", itoa(int64(r1.code)), itoa(int64(r1.n)))
			stat("bighdr")
		case 8:
			// three passed requests at once through an upstream with the policy of its choice: each is forwarded on its
			// own, none waits for another (the origin holds each for 400 ms and counts how many it holds at a time)
			loc := cr.pick([]string{"/lc", ""})
			o.mu.Lock()
			o.maxInflight = 0
			o.mu.Unlock()
			var wg sync.WaitGroup
			for k := 0; k < 3; k++ {
				wg.Add(1)
				go func(k int) {
					defer wg.Done()
					do("POST", fmt.Sprintf("%s/slow/%d/%d", loc, i, k), nil)
				}(k)
			}
			wg.Wait()
			o.mu.Lock()
			mx := o.maxInflight
			o.mu.Unlock()
			emit("fault", "concurrent", hx(loc), "=>", itoa(int64(mx)))
			stat("concurrent" + loc)
		case 4:
			// cacheable answers without a body: stored like any other (a burst costs one upstream request)
			kind := cr.pick([]string{"head", "cl0", "204", "301"})
			method := "GET"
			if kind == "head" {
				method = "HEAD"
			}
			p := fmt.Sprintf("%s/nobody/%s/%d", pre, kind, i)
			r1 := do(method, p, nil)
			r2 := do(method, p, nil)
			emit("fault", "nobody", hx(kind), b2s(pre != ""), "=>", itoa(int64(r1.code)), hx(r1.xs), itoa(int64(r2.code)), hx(r2.xs), itoa(int64(o.count(p))))
			stat("nobody-" + kind)
		case 5:
			// an origin whose body is not what its Content-Encoding says: whatever the client is told, the fetch ENDS,
			// and so do the requests that follow (the key is not left in the fetching state)
			// (every encoding × {junk, cut} in turn)
			enc := []string{"gzip", "br", "lz4", "zst", "snz"}[(i/9)%5]
			cut := []string{"junk", "cut"}[(i/45)%2]
			extra = http.Header{"Accept-Encoding": []string{cr.pick([]string{"identity", "br", "gzip"})}}
			p := fmt.Sprintf("%s/badenc/%d/%s/%s", pre, i, cut, enc)
			old := client.Timeout
			client.Timeout = 6 * time.Second
			r1 := do("GET", p, nil)
			r2 := do("GET", p, nil)
			r3 := do("GET", p, nil)
			client.Timeout = old
			extra = nil
			emit("fault", "badenc", hx(enc), hx(cut), "=>", itoa(int64(r1.code)), itoa(r1.ms), itoa(int64(r2.code)), itoa(r2.ms), itoa(int64(r3.code)), itoa(r3.ms))
			stat("badenc-" + enc)
			if r1.code == -2 || r2.code == -2 || r3.code == -2 {
				// something inside pike is stuck or spinning: what follows would only measure that
				flush()
				return
			}
		case 3:
			// a client revalidating what it holds, on a COLD key (the proxy withholds the validators from the origin so
			// that a full response is stored) and again on the hit: its validators match, so it gets a 304 — by ETag,
			// by Last-Modified alone, or both
			inm := cr.pick([]string{"", "", condETag, condETag, "W/" + condETag, "\"zz\"", "*", "\"zz\", " + condETag, condETag + " , \"q\"", "  " + condETag, "\"zz\",\"yy\""})
			ims := cr.pick([]string{"", "", condLastModified, condLastModified, "Sun, 31 Dec 2023 00:00:00 GMT", "Tue, 02 Jan 2024 00:00:00 GMT", "yesterday"})
			cc := cr.pick([]string{"", "", "", "no-cache", "max-age=0", "max-age=0, no-cache", "no-cache-please", " no-cache "})
			extra = http.Header{}
			if inm != "" {
				extra["If-None-Match"] = []string{inm}
			}
			if ims != "" {
				extra["If-Modified-Since"] = []string{ims}
			}
			if cc != "" {
				extra["Cache-Control"] = []string{cc}
			}
			unix := func(d string) int64 {
				t, err := time.Parse(time.RFC1123, d)
				if err != nil {
					return 0
				}
				return t.Unix()
			}
			p := fmt.Sprintf("%s/cond/%d", pre, i)
			r1 := do("GET", p, nil)
			r2 := do("GET", p, nil)
			extra = nil
			r3 := do("GET", p, nil) // a plain client afterwards gets the stored full response
			emit("fault", "cond", hx(inm), b2s(ims != ""), itoa(unix(ims)), hx(cc), itoa(unix(condLastModified)), hx(condETag), "=>",
				itoa(int64(r1.code)), hx(r1.xs), itoa(int64(r2.code)), hx(r2.xs), itoa(int64(r3.code)), itoa(int64(r3.n)), hx(r3.xs), itoa(int64(o.count(p))))
			kind := "none"
			if inm != "" && ims != "" {
				kind = "both"
			} else if inm != "" {
				kind = "etag"
			} else if ims != "" {
				kind = "modified"
			}
			stat("cond-" + kind)
		case 0:
			method := cr.pick([]string{"GET", "HEAD", "DELETE", "POST", "POST", "PUT", "OPTIONS"})
			var body []byte
			if (method == "POST" || method == "PUT") && cr.chance(50) {
				body = []byte("payload")
			}
			p := fmt.Sprintf("%s/drop/%d", pre, i)
			r1 := do(method, p, body)
			emit("fault", "drop", hx(method), b2s(body != nil), b2s(pre != ""), "=>", itoa(int64(o.count(p))), itoa(int64(r1.code)), hx(r1.xs))
			stat("drop-" + method)
		case 1:
			method := cr.pick([]string{"GET", "GET", "HEAD", "POST", "DELETE"})
			p := fmt.Sprintf("%s/redir/old/%d", pre, i)
			pn := strings.Replace(p, "/old", "/new", 1)
			r1 := do(method, p, nil)
			c1, cn := o.count(p), o.count(pn)
			r2 := do(method, p, nil)
			emit("fault", "redirect", hx(method), b2s(pre != ""), "=>", itoa(int64(c1)), itoa(int64(cn)), itoa(int64(r1.code)), b2s(r1.loc == pn), hx(r1.xs),
				itoa(int64(o.count(p)-c1)), itoa(int64(r2.code)), hx(r2.xs))
			stat("redirect-" + method)
		case 2:
			size := []int{64, 1000, 65536, 300000}[cr.intn(4)]
			p := fmt.Sprintf("%s/short/%d/%d", pre, i, size)
			o.mu.Lock()
			o.faulty[p] = true
			o.mu.Unlock()
			r1 := do("GET", p, nil)
			o.mu.Lock()
			o.faulty[p] = false
			o.mu.Unlock()
			r2 := do("GET", p, nil)
			emit("fault", "short", itoa(int64(size)), b2s(pre != ""), "=>", itoa(int64(r1.code)), itoa(int64(r1.n)), hx(r1.xs), itoa(int64(r2.code)), itoa(int64(r2.n)), hx(r2.xs), itoa(int64(o.count(p))))
			stat(fmt.Sprintf("short-%d", size))
		}
		if i%50 == 49 {
			flush()
		}
	}
}
