package main

import (
	"fmt"
	"net/http"
	"net/http/httptest"
	"strings"
	"sync"
	"sync/atomic"
	"time"

	"github.com/vicanso/elton"
	"github.com/vicanso/elton/middleware"
	"github.com/vicanso/pike/cache"
	"github.com/vicanso/pike/compress"
	"github.com/vicanso/pike/config"
	"github.com/vicanso/pike/location"
	"github.com/vicanso/pike/server"
	"github.com/vicanso/pike/upstream"
)

// suite race: free-running mixed traffic (hot and cold keys, short lifetimes, different
// Accept-Encoding and conditional headers, purges, reloads of locations/servers) on real
// goroutines; meant to be run from a `-race` build.  Every response is self-identifying, so a
// response served for the wrong key, a malformed one, or a panic is reported as a case line.

func init() { suites["race"] = suiteRace }

func suiteRace(r *rng, n int) {
	// real clock: short lifetimes expire on their own
	cache.VerifClock = nil
	// two locations listed in the configuration file in the "wrong" order (the catch-all first): every /k/ request
	// belongs to the more specific one, also while a reload is being applied; a named compress profile is in use
	raceLocs := func(gen int) []config.LocationConfig {
		return []config.LocationConfig{
			{Name: "l0", Upstream: "u1", RespHeaders: []string{"X-Loc:l0", fmt.Sprintf("X-Gen:%d", gen)}},
			{Name: "l1", Upstream: "u1", Prefixes: []string{"/k"}, RespHeaders: []string{"X-Loc:l1", fmt.Sprintf("X-Gen:%d", gen)}},
		}
	}
	compress.Reset([]config.CompressConfig{{Name: "zip", Levels: map[string]uint{"gzip": 5, "br": 5}}})
	p := newPipeline(64, "1s", true, server.ServerOption{Addr: ":0", CompressMinLength: 16, Compress: "zip", Locations: []string{"l0", "l1"}}, raceLocs(0), nil)
	var seq int64
	p.setScript(func(c *elton.Context) error {
		id := atomic.AddInt64(&seq, 1)
		h := c.Header()
		h["Content-Type"] = []string{"text/plain"}
		switch id % 5 {
		case 0:
			h["Cache-Control"] = []string{"no-store"}
		default:
			h["Cache-Control"] = []string{"max-age=1"}
		}
		h["Etag"] = []string{fmt.Sprintf("\"%s\"", c.Request.RequestURI)}
		c.StatusCode = 200
		c.BodyBuffer = bytesBuf("key=" + c.Request.Method + " " + c.Request.Host + " " + c.Request.RequestURI + ";pad=" + fmt.Sprint(id) + "................................")
		return nil
	})
	workers := 8
	perWorker := n
	var wg sync.WaitGroup
	var bad int64
	var total int64
	stop := make(chan struct{})
	// reloader / purger
	wg.Add(1)
	go func() {
		defer wg.Done()
		i := 0
		for {
			select {
			case <-stop:
				return
			default:
			}
			i++
			switch i % 5 {
			case 0:
				cache.RemoveHTTPCache("", []byte(fmt.Sprintf("GET r.test /k/%d", i%8)))
			case 1:
				location.Reset(raceLocs(i))
			case 2:
				server.Reset([]config.ServerConfig{{Addr: ":0", Locations: []string{"l0", "l1"}, Cache: "c1", Compress: "zip"}})
			case 3:
				compress.Reset([]config.CompressConfig{{Name: "zip", Levels: map[string]uint{"gzip": uint(1 + i%9), "br": uint(1 + i%11)}}})
			case 4:
				cache.ResetDispatchers(withSibling(p.cacheCfg))
			}
			time.Sleep(200 * time.Microsecond)
		}
	}()
	var mu sync.Mutex
	for w := 0; w < workers; w++ {
		wr := r.fork(uint64(w))
		wg.Add(1)
		go func(w int) {
			defer wg.Done()
			for i := 0; i < perWorker; i++ {
				k := wr.intn(8)
				if wr.chance(30) {
					k = 100 + wr.intn(200) // cold keys, evictions (cache size 64)
				}
				uri := fmt.Sprintf("/k/%d", k)
				method := "GET"
				if wr.chance(10) {
					method = "HEAD"
				}
				h := http.Header{}
				if wr.chance(60) {
					h["Accept-Encoding"] = []string{wr.pick([]string{"gzip", "br", "gzip, br", ""})}
				}
				if wr.chance(20) {
					h["If-None-Match"] = []string{fmt.Sprintf("\"%s\"", uri)}
				}
				res := "ok"
				func() {
					defer func() {
						if rec := recover(); rec != nil {
							res = fmt.Sprint("panic:", rec)
						}
					}()
					wre := p.do(method, "r.test", uri, h, nil)
					if wre.Code == 304 {
						return
					}
					dec, ok := decodeBy(wre.Header().Get("Content-Encoding"), wre.Body.Bytes())
					want := "key=" + method + " r.test " + uri + ";"
					if wre.Code != 200 || !ok || len(dec) < len(want) || string(dec[:len(want)]) != want {
						res = fmt.Sprintf("bad:code=%d ce=%s body=%.60q", wre.Code, wre.Header().Get("Content-Encoding"), string(dec))
					} else if loc := wre.Header().Get("X-Loc"); loc != "l1" && wre.Header().Get("X-Status") != "hit" {
						// a response fetched now was routed now: by the location with the matching prefix
						res = fmt.Sprintf("bad:routed-by=%q", loc)
					}
				}()
				atomic.AddInt64(&total, 1)
				if res != "ok" {
					atomic.AddInt64(&bad, 1)
					mu.Lock()
					emit("race", "bad", itoa(int64(w)), itoa(int64(i)), hx(method+" "+uri), "=>", hx(res))
					mu.Unlock()
				}
			}
		}(w)
	}
	done := make(chan struct{})
	go func() {
		for w := 0; w < workers; w++ {
		}
		close(done)
	}()
	// wait for workers (all but the reloader)
	waitWorkers := make(chan struct{})
	go func() {
		wg.Wait()
		close(waitWorkers)
	}()
	// stop the reloader when the request count is reached
	for atomic.LoadInt64(&total) < int64(workers*perWorker) {
		time.Sleep(time.Millisecond)
	}
	close(stop)
	<-waitWorkers
	emit("race", "summary", itoa(total), itoa(bad), itoa(atomic.LoadInt64(&seq)))
	stat("requests")
	raceUpstreamPhase(r, n)
}

// second phase: the request path with the REAL transport to a loopback origin while the reloader re-applies the
// (unchanged) upstream list and updates the running server's option (location list in another order) — what
// main.update does on every change of any section.  Unchanged upstreams and servers keep serving: every answer is a
// 200 for the request's own key, routed by the location with the matching prefix.
func raceUpstreamPhase(r *rng, n int) {
	mkOrigin := func(tag string) *httptest.Server {
		return httptest.NewServer(http.HandlerFunc(func(w http.ResponseWriter, req *http.Request) {
			w.Header().Set("Cache-Control", "no-store")
			w.Header().Set("Content-Type", "text/plain")
			w.Header().Set("X-Origin", tag)
			fmt.Fprintf(w, "key=%s %s %s;%s", req.Method, req.Host, req.RequestURI, strings.Repeat(".", 64))
		}))
	}
	origin := mkOrigin("A")
	defer origin.Close()
	// a second origin of the same kind: every other reload points the upstream at it; once a reload has returned, the
	// requests that START afterwards go where the configuration says
	originB := mkOrigin("B")
	defer originB.Close()
	// the upstream has an Accept-Encoding of its own: the client's header is set aside for the upstream call and put
	// back afterwards — per request
	ups := []config.UpstreamConfig{{Name: "u1", AcceptEncoding: "gzip", Servers: []config.UpstreamServerConfig{{Addr: origin.URL}}}}
	locs := []config.LocationConfig{
		{Name: "l0", Upstream: "u1", RespHeaders: []string{"X-Loc:l0"}},
		// a rewrite rule that maps every path onto itself: the rewriter runs for every request and changes nothing
		{Name: "l1", Upstream: "u1", Prefixes: []string{"/k"}, RespHeaders: []string{"X-Loc:l1"}, Rewrites: []string{"/k/*:/k/$1"}},
		{Name: "l2", Upstream: "u1", Prefixes: []string{"/never"}, RespHeaders: []string{"X-Loc:l2"}},
	}
	cache.ResetDispatchers(nil)
	cache.ResetDispatchers(withSibling(config.CacheConfig{Name: "c1", Size: 64, HitForPass: "1s"}))
	upstream.Reset(ups)
	waitUpstreamHealthy("u1")
	location.Reset(locs)
	lists := [][]string{{"l0", "l1", "l2"}, {"l2", "l1", "l0"}, {"l1", "l2"}, {"l1", "l0", "l2"}}
	s := server.NewServer(server.ServerOption{Addr: ":0", Locations: lists[0], Cache: "c1", CompressMinLength: 16})
	e := elton.New()
	e.Use(middleware.NewDefaultError())
	e.Use(server.NewResponder())
	e.Use(server.NewCache(s))
	e.Use(server.NewProxy(s))
	e.ALL("/*", func(c *elton.Context) error { return nil })
	p := &pipeline{e: e}
	// the environment's part: a health check of the new upstream object that fails on a busy machine is not what is
	// examined; requests that overlap such an episode are not judged
	var unhealthy int64
	healthy := func() bool {
		us := upstream.Get("u1")
		if us == nil {
			return true // the registry's problem, not the health checker's: judged
		}
		for _, hu := range us.HTTPUpstream.GetUpstreamList() {
			if hu.Status() != 2 {
				return false
			}
		}
		return true
	}
	stop := make(chan struct{})
	var wg, rwg sync.WaitGroup
	var bad, total, excused int64
	var mu sync.Mutex
	rwg.Add(1)
	go func() {
		defer rwg.Done()
		for i := 0; ; i++ {
			select {
			case <-stop:
				return
			default:
			}
			// every re-applied upstream list builds a new transport (and leaves the old one's idle connections to time
			// out): bounded, so that a long run does not use up the machine's sockets
			if i < 300 {
				cur, tag := ups, "A"
				if i%2 == 1 {
					cur, tag = []config.UpstreamConfig{{Name: "u1", AcceptEncoding: "gzip", Servers: []config.UpstreamServerConfig{{Addr: originB.URL}}}}, "B"
				}
				upstream.Reset(cur)
				if healthy() {
					wre := p.do("GET", "r.test", fmt.Sprintf("/k/probe-%d", i), http.Header{}, nil)
					if got := wre.Header().Get("X-Origin"); wre.Code == 200 && got != tag && healthy() {
						atomic.AddInt64(&bad, 1)
						mu.Lock()
						emit("race", "bad", "-1", itoa(int64(i)), hx("GET /k/probe"), "=>", hx(fmt.Sprintf("bad:upstream-phase a request started after the reload went to origin %q, configured is %q", got, tag)))
						mu.Unlock()
					}
				}
			}
			if !healthy() {
				atomic.AddInt64(&unhealthy, 1)
				waitUpstreamHealthy("u1")
				atomic.AddInt64(&unhealthy, 1)
			}
			s.Update(server.ServerOption{Addr: ":0", Locations: lists[i%len(lists)], Cache: "c1", CompressMinLength: 16})
			time.Sleep(time.Millisecond)
		}
	}()
	for w := 0; w < 8; w++ {
		wr := r.fork(uint64(1000 + w))
		wg.Add(1)
		go func(w int) {
			defer wg.Done()
			for i := 0; i < n; i++ {
				uri := fmt.Sprintf("/k/%d", wr.intn(50))
				u0 := atomic.LoadInt64(&unhealthy)
				res := "ok"
				func() {
					defer func() {
						if rec := recover(); rec != nil {
							res = fmt.Sprint("panic:", rec)
						}
					}()
					ae := wr.pick([]string{"", "gzip", "br", "gzip, br"})
					h := http.Header{}
					if ae != "" {
						h["Accept-Encoding"] = []string{ae}
					}
					wre := p.do("GET", "r.test", uri, h, nil)
					want := "key=GET r.test " + uri + ";"
					ce := wre.Header().Get("Content-Encoding")
					dec, ok := decodeBy(ce, wre.Body.Bytes())
					if wre.Code != 200 || !ok || !strings.HasPrefix(string(dec), want) {
						res = fmt.Sprintf("bad:upstream-phase code=%d ce=%s body=%.80q", wre.Code, ce, string(dec))
					} else if ce != "" && !strings.Contains(ae, ce) {
						res = fmt.Sprintf("bad:upstream-phase encoding %q for a client accepting %q", ce, ae)
					} else if loc := wre.Header().Get("X-Loc"); loc != "l1" {
						res = fmt.Sprintf("bad:upstream-phase routed-by=%q", loc)
					}
				}()
				atomic.AddInt64(&total, 1)
				if res != "ok" {
					if u1 := atomic.LoadInt64(&unhealthy); u1 != u0 || u1%2 == 1 {
						atomic.AddInt64(&excused, 1)
						continue
					}
					atomic.AddInt64(&bad, 1)
					mu.Lock()
					emit("race", "bad", itoa(int64(w)), itoa(int64(i)), hx("GET "+uri), "=>", hx(res))
					mu.Unlock()
				}
			}
		}(w)
	}
	wg.Wait()
	close(stop)
	rwg.Wait()
	emit("race", "summary", itoa(total), itoa(bad), itoa(excused))
	stat("upstream-phase-requests")
}
