package main

import (
	"context"
	"fmt"
	"net"
	"net/http"
	"net/http/httptest"
	"strconv"
	"strings"
	"sync"
	"syscall"
	"time"

	"github.com/vicanso/elton"
	"github.com/vicanso/elton/middleware"
	"github.com/vicanso/pike/config"
	"github.com/vicanso/pike/upstream"
)

// suite upsel: health vectors x policy x call counts on the real upstream pool behind
// pike's NewUpstreamServer and target picker, with real local servers: "up" servers listen and
// answer with their index, "down" servers have their port closed, so the initial synchronous
// health check sees exactly the vector; later flips close/reopen the listener AND set the status
// the checker would set (the periodic checker itself needs seconds: thorough tier).

func init() { suites["upsel"] = suiteUpsel }

type upSrv struct {
	idx    int
	addr   string
	srv    *httptest.Server
	backup bool
	up     bool
	hold   int // fd of a bound, non-listening socket that keeps the port ours while the server is "down"
}

// reserve the port without listening: connections are refused (the server is down) and no other process on the
// machine can take the port in the meantime — a foreign listener there would look like a healthy server
func (u *upSrv) reserve() {
	u.hold = -1
	host, portStr, err := net.SplitHostPort(u.addr)
	if err != nil {
		return
	}
	port, _ := strconv.Atoi(portStr)
	ip := net.ParseIP(host).To4()
	if ip == nil {
		return
	}
	fd, err := syscall.Socket(syscall.AF_INET, syscall.SOCK_STREAM, 0)
	if err != nil {
		return
	}
	_ = syscall.SetsockoptInt(fd, syscall.SOL_SOCKET, syscall.SO_REUSEADDR, 1)
	sa := &syscall.SockaddrInet4{Port: port}
	copy(sa.Addr[:], ip)
	if err := syscall.Bind(fd, sa); err != nil {
		syscall.Close(fd)
		return
	}
	u.hold = fd
}

func (u *upSrv) release() {
	if u.hold > 0 {
		syscall.Close(u.hold)
	}
	u.hold = -1
}

func (u *upSrv) start() {
	u.release()
	ln, err := net.Listen("tcp", u.addr)
	if err != nil {
		u.reserve()
		return
	}
	s := httptest.NewUnstartedServer(http.HandlerFunc(func(w http.ResponseWriter, r *http.Request) {
		w.Header().Set("Cache-Control", "no-store")
		fmt.Fprintf(w, "srv%d", u.idx)
	}))
	s.Listener.Close()
	s.Listener = ln
	s.Start()
	u.srv = s
	u.up = true
}
func (u *upSrv) stop() {
	if u.srv != nil {
		u.srv.Close()
		u.srv = nil
		u.reserve()
	}
	u.up = false
}

func suiteUpsel(r *rng, n int) {
	for i := 0; i < n; i++ {
		cr := r.fork(uint64(i))
		ns := 1 + cr.intn(4)
		policy := cr.pick([]string{"first", "random", "roundRobin", "leastconn", ""})
		var servers []*upSrv
		var cfgs []config.UpstreamServerConfig
		for j := 0; j < ns; j++ {
			ln, _ := net.Listen("tcp", "127.0.0.1:0")
			addr := ln.Addr().String()
			ln.Close()
			u := &upSrv{idx: j, addr: addr, backup: cr.chance(35), hold: -1}
			if cr.chance(65) {
				u.start()
			} else {
				u.reserve()
			}
			servers = append(servers, u)
			cfgs = append(cfgs, config.UpstreamServerConfig{Addr: "http://" + addr, Backup: u.backup})
		}
		// through the registry, as main.update does, with a second upstream group next to the one under test
		ucfg := []config.UpstreamConfig{{Name: "u", Policy: policy, Servers: cfgs},
			{Name: "zz-other", Servers: []config.UpstreamServerConfig{{Addr: "http://127.0.0.1:1"}}}}
		upstream.Reset(ucfg)
		us := upstream.Get("u")
		e := elton.New()
		e.Use(middleware.NewDefaultError())
		e.ALL("/*", us.Proxy)
		p := &pipeline{e: e}
		rrCount := 0
		flags := func() string {
			var fs []string
			list := us.HTTPUpstream.GetUpstreamList()
			for j, u := range servers {
				f := "s"
				healthy := u.up
				if optFlag != "settle" && j < len(list) {
					// "currently passes its health check" is the pool's own status: the periodic checker runs in the
					// background also here and may have re-classified a server (slow connect on a busy machine)
					healthy = list[j].Status() == 2
				}
				if healthy {
					f = "h"
				}
				if u.backup {
					f += "b"
				} else {
					f += "p"
				}
				fs = append(fs, f)
			}
			return strings.Join(fs, ",")
		}
		for phase := 0; phase < 3; phase++ {
			if phase == 1 && cr.chance(50) {
				// a configuration reload that leaves this upstream as it is: a new object with a running checker
				upstream.Reset(ucfg)
				us = upstream.Get("u")
				e = elton.New()
				e.Use(middleware.NewDefaultError())
				e.ALL("/*", us.Proxy)
				p = &pipeline{e: e}
				rrCount = 0
			}
			if phase > 0 {
				// flip one or two servers; set the status the checker would set
				for k := 0; k < 1+cr.intn(2); k++ {
					j := cr.intn(ns)
					hu := us.HTTPUpstream.GetUpstreamList()[j]
					if servers[j].up {
						servers[j].stop()
						if optFlag != "settle" {
							hu.Sick()
						}
					} else {
						servers[j].start()
						if servers[j].up && optFlag != "settle" {
							hu.Healthy()
						}
					}
				}
				if optFlag == "settle" {
					// let the periodic health checker (5 s interval) notice by itself
					time.Sleep(6500 * time.Millisecond)
				}
			}
			calls := 1 + cr.intn(7)
			for c := 0; c < calls; c++ {
				w := p.do("GET", "x.test", "/", nil, nil)
				chosen := -1
				body := w.Body.String()
				if w.Code == 200 && strings.HasPrefix(body, "srv") {
					fmt.Sscanf(body, "srv%d", &chosen)
				}
				pol := policy
				emit("upsel", itoa(int64(i)), hx(pol), flags(), itoa(int64(rrCount)), "=>", itoa(int64(chosen)), itoa(int64(w.Code)))
				if policy == "roundRobin" || policy == "" {
					rrCount++
				}
				stat("call-" + policy)
			}
		}
		upstream.Reset(nil)
		if i == 0 {
			upselAllDownHistory()
			upselPipelineHistories()
		}
		for _, u := range servers {
			u.stop()
			u.release()
		}
	}
}

// directed history through the whole request path (responder, cache and proxy middlewares): every server of the
// upstream is down; three requests for the SAME cacheable URL, one after the other, each get a 5xx promptly, and
// after the server is back the URL is served again
func upselAllDownHistory() {
	ln, _ := net.Listen("tcp", "127.0.0.1:0")
	addr := ln.Addr().String()
	ln.Close()
	u := &upSrv{idx: 0, addr: addr, hold: -1}
	u.reserve()
	defer func() { u.stop(); u.release() }()
	ucfg := []config.UpstreamConfig{{Name: "u1", Servers: []config.UpstreamServerConfig{{Addr: "http://" + addr}}}}
	p := newPipeline(100, "1s", false, serverOption(), nil, ucfg)
	// newPipeline installs a scripted upstream; this history needs the REAL proxy and target picker
	upstream.Reset(nil)
	upstream.Reset(ucfg)
	type res struct {
		code int
		ms   int64
	}
	one := func() res {
		ch := make(chan res, 1)
		go func() {
			t0 := time.Now()
			w := p.do("GET", "x.test", "/same", nil, nil)
			ch <- res{w.Code, time.Since(t0).Milliseconds()}
		}()
		select {
		case r := <-ch:
			return r
		case <-time.After(3 * time.Second):
			return res{-1, 3000}
		}
	}
	var out []string
	for k := 0; k < 3; k++ {
		r := one()
		out = append(out, itoa(int64(r.code)), itoa(r.ms))
	}
	u.start()
	if us := upstream.Get("u1"); us != nil {
		for _, hu := range us.HTTPUpstream.GetUpstreamList() {
			hu.Healthy()
		}
	}
	r := one()
	out = append(out, itoa(int64(r.code)), itoa(r.ms))
	emit(append([]string{"upsel", "alldown"}, out...)...)
	stat("alldown-histories")
}

// directed histories through the whole request path with the REAL proxy:
//
//	rrpipe   - round robin over 2 and over 4 healthy primaries, twelve first-time GETs of distinct URLs each: the
//	           per-server counts differ by at most one
//	degraded - health-check path "/" and a server that accepts connections but answers 500 to everything: it fails
//	           the HTTP check, so no client request is forwarded to it and the client gets a 5xx from pike
func upselPipelineHistories() {
	for _, ns := range []int{2, 4} {
		var mu sync.Mutex
		counts := make([]int, ns)
		var srvs []*httptest.Server
		var cfgs []config.UpstreamServerConfig
		for j := 0; j < ns; j++ {
			j := j
			s := httptest.NewServer(http.HandlerFunc(func(w http.ResponseWriter, r *http.Request) {
				if strings.HasPrefix(r.URL.Path, "/rr/") {
					mu.Lock()
					counts[j]++
					mu.Unlock()
				}
				w.Header().Set("Cache-Control", "max-age=60")
				fmt.Fprintf(w, "srv%d", j)
			}))
			srvs = append(srvs, s)
			cfgs = append(cfgs, config.UpstreamServerConfig{Addr: s.URL})
		}
		ucfg := []config.UpstreamConfig{{Name: "u1", Policy: "roundRobin", Servers: cfgs}}
		p := newPipeline(100, "1s", false, serverOption(), nil, ucfg)
		upstream.Reset(nil)
		upstream.Reset(ucfg)
		waitUpstreamHealthy("u1")
		for k := 0; k < 12; k++ {
			p.do("GET", "x.test", fmt.Sprintf("/rr/%d-%d", ns, k), nil, nil)
		}
		out := []string{"upsel", "rrpipe"}
		mu.Lock()
		for _, c := range counts {
			out = append(out, itoa(int64(c)))
		}
		mu.Unlock()
		emit(out...)
		upstream.Reset(nil)
		for _, s := range srvs {
			s.Close()
		}
	}
	var mu sync.Mutex
	forwarded := 0
	bad := httptest.NewServer(http.HandlerFunc(func(w http.ResponseWriter, r *http.Request) {
		if r.URL.Path != "/" {
			mu.Lock()
			forwarded++
			mu.Unlock()
		}
		w.WriteHeader(500)
	}))
	defer bad.Close()
	ucfg := []config.UpstreamConfig{{Name: "u1", HealthCheck: "/", Servers: []config.UpstreamServerConfig{{Addr: bad.URL}}}}
	p := newPipeline(100, "1s", false, serverOption(), nil, ucfg)
	upstream.Reset(nil)
	upstream.Reset(ucfg)
	code := 0
	for k := 0; k < 3; k++ {
		w := p.do("GET", "x.test", fmt.Sprintf("/page/%d", k), nil, nil)
		code = w.Code
	}
	mu.Lock()
	f := forwarded
	mu.Unlock()
	emit("upsel", "degraded", itoa(int64(code)), itoa(int64(f)))
	upstream.Reset(nil)
	stat("pipeline-histories")
	upselRecoverHistory()
}

// directed history: a primary and a backup.  The primary goes away between two health checks, so ONE client request
// fails on it; it comes back and passes its next health check: traffic returns to it by itself (the backup is used
// only while no primary is healthy)
func upselRecoverHistory() {
	ln, _ := net.Listen("tcp", "127.0.0.1:0")
	addr := ln.Addr().String()
	ln.Close()
	prim := &upSrv{idx: 0, addr: addr, hold: -1}
	prim.start()
	defer func() { prim.stop(); prim.release() }()
	backup := httptest.NewServer(http.HandlerFunc(func(w http.ResponseWriter, r *http.Request) {
		w.Header().Set("Cache-Control", "no-store")
		fmt.Fprint(w, "backup")
	}))
	defer backup.Close()
	if !prim.up {
		emit("upsel", "recover", "unavailable")
		return
	}
	ucfg := []config.UpstreamConfig{{Name: "u1", Policy: "first", Servers: []config.UpstreamServerConfig{{Addr: "http://" + addr}, {Addr: backup.URL, Backup: true}}}}
	p := newPipeline(100, "1s", false, serverOption(), nil, ucfg)
	upstream.Reset(nil)
	upstream.Reset(ucfg)
	waitUpstreamHealthy("u1")
	k := 0
	one := func() (int, string) {
		k++
		w := p.do("GET", "x.test", fmt.Sprintf("/recover/%d", k), nil, nil)
		return w.Code, w.Body.String()
	}
	c1, b1 := one()
	prim.stop() // no health check has run yet: the pool still believes in it
	c2, _ := one()
	prim.start()
	if us := upstream.Get("u1"); us != nil {
		us.HTTPUpstream.DoHealthCheck()
	}
	c3, b3 := one()
	c4, b4 := one()
	emit("upsel", "recover", b2s(prim.up), itoa(int64(c1)), hx(b1), itoa(int64(c2)), itoa(int64(c3)), hx(b3), itoa(int64(c4)), hx(b4))
	upstream.Reset(nil)
	stat("recover-histories")
	upselSlowRequestHistory()
}

// directed history: a healthy primary and a backup; ONE request is slow (the location's proxy timeout ends it with an
// error) and one client goes away in the middle of its request.  Neither says anything about the server's health: its
// health checks keep passing, so the requests that follow are still served by the primary.
func upselSlowRequestHistory() {
	prim := httptest.NewServer(http.HandlerFunc(func(w http.ResponseWriter, r *http.Request) {
		if strings.HasPrefix(r.URL.Path, "/slow") {
			select {
			case <-r.Context().Done():
			case <-time.After(4 * time.Second):
			}
		}
		w.Header().Set("Cache-Control", "no-store")
		fmt.Fprint(w, "primary")
	}))
	defer prim.Close()
	backup := httptest.NewServer(http.HandlerFunc(func(w http.ResponseWriter, r *http.Request) {
		w.Header().Set("Cache-Control", "no-store")
		fmt.Fprint(w, "backup")
	}))
	defer backup.Close()
	ucfg := []config.UpstreamConfig{{Name: "u1", Policy: "first", Servers: []config.UpstreamServerConfig{{Addr: prim.URL}, {Addr: backup.URL, Backup: true}}}}
	// (the time-out is generous: on a busy machine an ordinary loopback request must not run into it)
	locs := []config.LocationConfig{{Name: "l1", Upstream: "u1", ProxyTimeout: "1500ms"}}
	p := newPipeline(100, "1s", false, serverOption(), locs, ucfg)
	upstream.Reset(nil)
	upstream.Reset(ucfg)
	waitUpstreamHealthy("u1")
	k := 0
	one := func(path string) (int, string) {
		k++
		w := p.do("GET", "x.test", fmt.Sprintf("%s/%d", path, k), nil, nil)
		return w.Code, w.Body.String()
	}
	c1, b1 := one("/fast")
	c2, _ := one("/slow") // ended by the proxy timeout
	c3, b3 := one("/fast")
	// a client that gives up after 60 ms
	{
		k++
		req := buildRequest("GET", "x.test", fmt.Sprintf("/slow/%d", k), nil, nil)
		ctx, cancel := context.WithTimeout(req.Context(), 100*time.Millisecond)
		w := httptest.NewRecorder()
		p.e.ServeHTTP(w, req.WithContext(ctx))
		cancel()
	}
	c4, b4 := one("/fast")
	c5, b5 := one("/fast")
	emit("upsel", "slowreq", itoa(int64(c1)), hx(b1), itoa(int64(c2)), itoa(int64(c3)), hx(b3), itoa(int64(c4)), hx(b4), itoa(int64(c5)), hx(b5))
	upstream.Reset(nil)
	stat("slow-request-histories")
}
