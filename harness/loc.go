package main

import (
	"fmt"
	"net/http"
	"strings"

	"github.com/vicanso/pike/cache"
	"github.com/vicanso/pike/config"
	"github.com/vicanso/pike/server"
)

// suite loc: location sets x (host, uri, server location names) through the real request
// path; every location has its own upstream, so the upstream that was contacted identifies
// the location that was chosen.

func init() { suites["loc"] = suiteLoc }

var locHosts = []string{"a.test", "b.test", "c.test", "CDN.test"}

// hosts of requests: the configured ones and spellings that differ from them by letter case only (a host list is
// compared byte for byte: no location "contains" a host it does not list)
var locReqHosts = []string{"a.test", "b.test", "c.test", "CDN.test", "cdn.test", "A.test"}
var locPrefixes = []string{"/a", "/a/b", "/c", "/", "/a/", "/ab", "/a?q=1"}
var locURIs = []string{"/a", "/a/b/c", "/ab", "/c?x=/a", "/", "/b", "/a/", "/A", "/a?q=1", "/cc/a/b", "/a%2Fb", "/%61/b", "/a?q=1&r=2", "/a%3Fq=1"}

func subset(r *rng, xs []string, pEmpty int) []string {
	if r.chance(pEmpty) {
		return nil
	}
	var res []string
	for _, x := range xs {
		if r.chance(35) {
			res = append(res, x)
		}
	}
	if len(res) == 0 {
		res = []string{xs[r.intn(len(xs))]}
	}
	return res
}

func encList(xs []string) string {
	if len(xs) == 0 {
		return "-"
	}
	ys := make([]string, len(xs))
	for i, x := range xs {
		ys[i] = "." + hx(x)
	}
	return strings.Join(ys, ",")
}

func suiteLoc(r *rng, n int) {
	installClock()
	for i := 0; i < n; i++ {
		cr := r.fork(uint64(i))
		nl := 1 + cr.intn(5)
		var locs []config.LocationConfig
		var ups []config.UpstreamConfig
		var enc []string
		for j := 0; j < nl; j++ {
			l := config.LocationConfig{Name: fmt.Sprintf("l%d", j), Upstream: fmt.Sprintf("u%d", j)}
			if cr.chance(8) && j > 0 {
				l.Name = locs[cr.intn(j)].Name // duplicate name
			}
			l.Hosts = subset(cr, locHosts, 45)
			l.Prefixes = subset(cr, locPrefixes, 45)
			locs = append(locs, l)
			ups = append(ups, config.UpstreamConfig{Name: l.Upstream, Servers: []config.UpstreamServerConfig{{Addr: "http://127.0.0.1:1"}}})
			enc = append(enc, hx(l.Name)+"|"+hx(l.Upstream)+"|"+encList(l.Hosts)+"|"+encList(l.Prefixes))
		}
		var names []string
		for j := 0; j < nl; j++ {
			if cr.chance(75) {
				names = append(names, fmt.Sprintf("l%d", j))
			}
		}
		if cr.chance(20) {
			names = append(names, "nosuch")
		}
		// server lists its locations in any order
		for k := len(names) - 1; k > 0; k-- {
			j := cr.intn(k + 1)
			names[k], names[j] = names[j], names[k]
		}
		opt := server.ServerOption{Addr: ":0", Locations: names}
		if names == nil {
			opt.Locations = []string{}
		}
		p := newPipeline(1000, "300s", false, opt, locs, ups)
		p.setScript(answer(200, http.Header{"Cache-Control": []string{"no-store"}}, []byte("ok")))
		for q := 0; q < 6; q++ {
			host := cr.pick(locReqHosts)
			uri := cr.pick(locURIs)
			before := p.calls()
			p.mu.Lock()
			p.lastUp = ""
			p.mu.Unlock()
			w := p.do("GET", host, uri, nil, nil)
			calls := p.calls() - before
			p.mu.Lock()
			up := p.lastUp
			p.mu.Unlock()
			if up == "" {
				stat("none")
			} else {
				stat("routed")
			}
			emit("loc", itoa(int64(i*6+q)), strings.Join(enc, ";"), encList(names), hx(host), hx(uri), "=>", hx(up), itoa(int64(w.Code)), itoa(int64(calls)))
		}
		if !cr.chance(50) {
			continue
		}
		// live update of the RUNNING server (same handler chain): another location list and another cache; the old
		// cache goes away.  Routing must follow the server's current settings.
		var names2 []string
		for j := 0; j < nl; j++ {
			if cr.chance(60) {
				names2 = append(names2, fmt.Sprintf("l%d", j))
			}
		}
		opt2 := server.ServerOption{Addr: ":0", Locations: names2, Cache: "c2"}
		if names2 == nil {
			opt2.Locations = []string{}
		}
		cache.ResetDispatchers([]config.CacheConfig{{Name: "c2", Size: 100, HitForPass: "300s"}})
		p.srv.Update(opt2)
		for q := 0; q < 3; q++ {
			host := cr.pick(locReqHosts)
			uri := cr.pick(locURIs)
			before := p.calls()
			p.mu.Lock()
			p.lastUp = ""
			p.mu.Unlock()
			w := p.do("GET", host, uri, nil, nil)
			calls := p.calls() - before
			p.mu.Lock()
			up := p.lastUp
			p.mu.Unlock()
			stat("after-update")
			emit("loc", itoa(int64(i*6+q)), strings.Join(enc, ";"), encList(names2), hx(host), hx(uri), "=>", hx(up), itoa(int64(w.Code)), itoa(int64(calls)))
		}
	}
}
