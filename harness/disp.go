package main

import (
	"fmt"
	"reflect"
	"unsafe"

	"github.com/golang/groupcache/lru"
	"github.com/vicanso/pike/cache"
	"github.com/vicanso/pike/config"
	"github.com/vicanso/pike/store"
)

// suite disp: long key/op sequences on real dispatchers of every size class.
// Observation per op: identity of the returned entry (first-seen index per cache), whether it
// is new, the key the entry was first handed out for; resident count (by reflection) at the end.

func init() { suites["disp"] = suiteDisp }

var dispSizes = []int{1, 2, 3, 4, 5, 6, 7, 8, 9, 10, 11, 12, 15, 16, 17, 20, 23, 24, 25, 31, 32, 33, 40, 63, 64, 65, 100, 127, 128, 129, 200, 300, 1000, 1023, 1024, 1025, 1500, 2000, 0, -5}

// residentCount reads the LRU lengths through reflection; ok=false when the layout changed
func residentCount(d interface{}) (n int, ok bool) {
	defer func() {
		if recover() != nil {
			n, ok = 0, false
		}
	}()
	v := reflect.ValueOf(d).Elem().FieldByName("list")
	if !v.IsValid() || v.Kind() != reflect.Slice {
		return 0, false
	}
	for i := 0; i < v.Len(); i++ {
		z := v.Index(i).Elem()
		c := z.FieldByName("cache")
		if !c.IsValid() {
			return 0, false
		}
		p := reflect.NewAt(c.Type(), unsafe.Pointer(c.UnsafeAddr())).Elem().Interface()
		lc, isLRU := p.(*lru.Cache)
		if !isLRU {
			return 0, false
		}
		// entries the shard holds in memory: its recency list and its table must agree (a table that keeps keys
		// the list has dropped still holds their entries)
		ln := lc.Len()
		if tbl := reflect.ValueOf(lc).Elem().FieldByName("cache"); tbl.IsValid() && tbl.Kind() == reflect.Map && tbl.Len() > ln {
			ln = tbl.Len()
		}
		n += ln
	}
	return n, true
}

type dispCache struct {
	name  string
	size  int
	store *memStore
	seen  map[interface{}]int // entry pointer -> first-seen index (keeps entries alive)
	owner map[interface{}]string
}

func suiteDisp(r *rng, n int) {
	installClock()
	for seq := 0; seq < n; seq++ {
		cr := r.fork(uint64(seq))
		var sizes [2]int
		sizes[0] = dispSizes[cr.intn(len(dispSizes))]
		if cr.chance(15) {
			sizes[0] = 1 + cr.intn(300)
		}
		sizes[1] = 1 + cr.intn(40)
		withStore := cr.chance(50)
		caches := make([]*dispCache, 2)
		opts := make([]cache.DispatcherOption, 2)
		for i := range caches {
			c := &dispCache{name: fmt.Sprintf("c%d", i+1), size: sizes[i], seen: map[interface{}]int{}, owner: map[interface{}]string{}}
			opts[i] = cache.DispatcherOption{Name: c.name, Size: c.size, HitForPass: 300}
			if withStore {
				c.store = newMemStore()
				pipeSeq++
				url := fmt.Sprintf("verif://disp/%d", pipeSeq)
				store.VerifRegister(url, c.store)
				opts[i].Store = url
			}
			caches[i] = c
		}
		// through the configuration path, as main.update does: an empty configuration first (every cache of the
		// previous sequence is dropped), then the two caches of this sequence
		var ccfg []config.CacheConfig
		for _, o := range opts {
			ccfg = append(ccfg, config.CacheConfig{Name: o.Name, Size: o.Size, HitForPass: "300s", Store: o.Store})
		}
		cache.ResetDispatchers(nil)
		cache.ResetDispatchers(ccfg)
		ws := "0"
		if withStore {
			ws = "1"
		}
		emit("disp", "begin", itoa(int64(seq)), itoa(int64(sizes[0])), itoa(int64(sizes[1])), ws)
		eff := sizes[0]
		if eff <= 0 {
			eff = 300 // default size is 12800: cannot be filled here, exercise below it
		}
		pop := eff + eff/2 + 3
		nops := 3*eff + 40
		if nops > 5000 {
			nops = 5000
		}
		keyOf := func(i int) string {
			// near-identical keys: same path on two hosts, queries differing by one byte, GET/HEAD
			m := "GET"
			if i%7 == 3 {
				m = "HEAD"
			}
			return fmt.Sprintf("%s h%d.test /p/%d?q=%d", m, i%2, i/2, i%3)
		}
		for op := 0; op < nops; op++ {
			ci := 0
			if cr.chance(12) {
				ci = 1
			}
			c := caches[ci]
			// skewed choice: half of the traffic on a hot set
			ki := cr.intn(pop)
			if cr.chance(40) {
				ki = cr.intn(1 + pop/4)
			}
			key := keyOf(ki)
			kb := []byte(key)
			h := cache.MemHash(kb)
			if cr.chance(1) {
				// a reload that names the same caches with other sizes: a cache that survives keeps its dispatcher,
				// entries and original size (a size change needs the cache to be removed and added again)
				var other []config.CacheConfig
				for _, cc := range ccfg {
					cc.Size = 1 + cc.Size/3
					other = append(other, cc)
				}
				cache.ResetDispatchers(other)
				stat("reload-other-sizes")
			}
			switch x := cr.intn(100); {
			case x < 86:
				d := cache.GetDispatcher(c.name)
				hc := d.GetHTTPCache(kb)
				idx, known := c.seen[hc]
				created := 0
				if !known {
					idx = len(c.seen)
					c.seen[hc] = idx
					c.owner[hc] = key
					created = 1
				}
				// some of the new entries start a fetch that is still in flight when they become the shard's oldest
				// key: eviction treats them like any other entry
				if created == 1 && cr.chance(35) && hc.GetStatus() == cache.StatusUnknown {
					hc.Get()
					stat("get-fetch-started")
				}
				emit("disp", "get", hx(c.name), hx(key), fmt.Sprint(h), "=>", itoa(int64(idx)), itoa(int64(created)), hx(c.owner[hc]))
				stat("get")
				if created == 1 {
					stat("get-created")
				}
			case x < 90 && withStore:
				// a persisted copy appears in the store (as saveToStore would write it)
				_ = c.store.Set(kb, []byte{0, 0, 0, 2, 0, 0, 0, 0, 0, 0, 0, 0, 0, 0, 0, 1, 0, 0, 0, 0, 0x7f, 0, 0, 0}, 0)
				emit("disp", "put", hx(c.name), hx(key))
				stat("put")
			default:
				name := c.name
				switch cr.intn(10) {
				case 0, 1, 2:
					name = "" // every cache
				case 3:
					name = "nosuch"
				}
				cache.RemoveHTTPCache(name, kb)
				has := ""
				for _, cc := range caches {
					if cc.store == nil {
						has += "-"
						continue
					}
					cc.store.mu.Lock()
					_, ok := cc.store.m[key]
					cc.store.mu.Unlock()
					if ok {
						has += "1"
					} else {
						has += "0"
					}
				}
				emit("disp", "purge", hx(name), hx(key), fmt.Sprint(h), "=>", has)
				stat("purge")
			}
		}
		for _, c := range caches {
			cnt, ok := residentCount(cache.GetDispatcher(c.name))
			if !ok {
				cnt = -1
				stat("count-unavailable")
			}
			emit("disp", "count", hx(c.name), "=>", itoa(int64(cnt)))
		}
		emit("disp", "end")
		flush()
	}
}
