package main

import (
	"bytes"
	"errors"
	"io"
	"net"
	"net/http"
	"net/http/httptest"
	"net/url"
	"sync"
	"time"

	"github.com/vicanso/elton"
	"github.com/vicanso/elton/middleware"
	"github.com/vicanso/pike/cache"
	"github.com/vicanso/pike/config"
	"github.com/vicanso/pike/location"
	"github.com/vicanso/pike/log"
	"github.com/vicanso/pike/server"
	"github.com/vicanso/pike/store"
	"github.com/vicanso/pike/upstream"
)

func quietLogs() {
	log.SetOutputPath("/dev/null")
}

// ---- injected clock
var clockMu sync.Mutex
var clockNow int64 = 1_700_000_000

func setClock(t int64) { clockMu.Lock(); clockNow = t; clockMu.Unlock() }
func getClock() int64  { clockMu.Lock(); defer clockMu.Unlock(); return clockNow }
func installClock()    { cache.VerifClock = getClock }

// ---- scripted, recording store
type setCall struct {
	key  string
	data []byte
	ttl  time.Duration
}
type memStore struct {
	mu   sync.Mutex
	m    map[string][]byte
	sets []setCall
	// fault scripts; nil = honest
	onGet func(key string) ([]byte, error, bool)
	onSet func(key string) error
	onDel func(key string) error
	// called at the entry of Delete, before the store's own mutex is taken (a slow delete)
	preDel func(key string)
	// called at the entry of Set, before the mutex and before the data is copied (a slow write)
	preSet func(key string)
	gets   int
	dels   []string
}

func newMemStore() *memStore { return &memStore{m: map[string][]byte{}} }
func (s *memStore) Get(key []byte) ([]byte, error) {
	s.mu.Lock()
	defer s.mu.Unlock()
	s.gets++
	if s.onGet != nil {
		if d, e, ok := s.onGet(string(key)); ok {
			return d, e
		}
	}
	d, ok := s.m[string(key)]
	if !ok {
		return nil, store.ErrNotFound
	}
	return d, nil
}
func (s *memStore) Set(key []byte, data []byte, ttl time.Duration) error {
	if s.preSet != nil {
		s.preSet(string(key))
	}
	s.mu.Lock()
	defer s.mu.Unlock()
	cp := append([]byte(nil), data...)
	s.sets = append(s.sets, setCall{string(key), cp, ttl})
	if s.onSet != nil {
		if e := s.onSet(string(key)); e != nil {
			return e
		}
	}
	s.m[string(key)] = cp
	return nil
}
func (s *memStore) Delete(key []byte) error {
	if s.preDel != nil {
		s.preDel(string(key))
	}
	s.mu.Lock()
	defer s.mu.Unlock()
	s.dels = append(s.dels, string(key))
	if s.onDel != nil {
		if e := s.onDel(string(key)); e != nil {
			return e
		}
	}
	delete(s.m, string(key))
	return nil
}
func (s *memStore) Close() error { return nil }
func (s *memStore) takeSets() []setCall {
	s.mu.Lock()
	defer s.mu.Unlock()
	r := s.sets
	s.sets = nil
	return r
}

// ---- the request path: a replica of server.Start's middleware chain built from the
// exported constructors, with a scripted upstream installed in the exported Proxy field.
type upstreamScript func(c *elton.Context) error

type pipeline struct {
	e        *elton.Elton
	mu       sync.Mutex
	script   upstreamScript
	upCalls  int
	lastUp   string
	store    *memStore
	cacheCfg config.CacheConfig
	srv      interface{ Update(server.ServerOption) } // the running server behind the handler chain
}

var pipeSeq int

func newPipeline(cacheSize int, hitForPass string, withStore bool, srvOpt server.ServerOption, locs []config.LocationConfig, ups []config.UpstreamConfig) *pipeline {
	pipeSeq++
	p := &pipeline{}
	cc := config.CacheConfig{Name: "c1", Size: cacheSize, HitForPass: hitForPass}
	if withStore {
		p.store = newMemStore()
		url := "verif://mem/" + itoa(int64(pipeSeq))
		store.VerifRegister(url, p.store)
		cc.Store = url
	}
	p.cacheCfg = cc
	// a fresh dispatcher every time: remove then add
	cache.ResetDispatchers(nil)
	cache.ResetDispatchers(withSibling(cc))
	if ups == nil {
		ups = []config.UpstreamConfig{{Name: "u1", Servers: []config.UpstreamServerConfig{{Addr: "http://127.0.0.1:1"}}}}
	}
	upstream.Reset(ups)
	for _, u := range ups {
		uname := u.Name
		if us := upstream.Get(u.Name); us != nil {
			us.Proxy = func(c *elton.Context) error {
				p.mu.Lock()
				p.upCalls++
				p.lastUp = uname
				f := p.script
				p.mu.Unlock()
				if f == nil {
					c.StatusCode = 204
					return nil
				}
				return f(c)
			}
		}
	}
	if locs == nil {
		locs = []config.LocationConfig{{Name: "l1", Upstream: "u1"}}
	}
	location.Reset(locs)
	if srvOpt.Locations == nil {
		srvOpt.Locations = []string{"l1"}
	}
	if srvOpt.Cache == "" {
		srvOpt.Cache = "c1"
	}
	s := server.NewServer(srvOpt)
	p.srv = s
	e := elton.New()
	e.Use(middleware.NewDefaultError())
	e.Use(middleware.NewDefaultFresh())
	e.Use(server.NewResponder())
	e.Use(server.NewCache(s))
	e.Use(server.NewProxy(s))
	e.ALL("/*", func(c *elton.Context) error { return nil })
	p.e = e
	return p
}

// withSibling: the cache under test is never the only, nor the last, cache of the configuration: a second cache with
// another size and another hit-for-pass period is listed after it (what is configured for one cache must not leak
// into another, and a reload must keep every cache that is still configured, not only the last one)
func withSibling(cc config.CacheConfig) []config.CacheConfig {
	return []config.CacheConfig{cc, {Name: "zsibling", Size: 9, HitForPass: "1234s"}}
}

func (p *pipeline) setScript(f upstreamScript) { p.mu.Lock(); p.script = f; p.mu.Unlock() }
func (p *pipeline) calls() int                 { p.mu.Lock(); defer p.mu.Unlock(); return p.upCalls }

func buildRequest(method, host, uri string, hdr http.Header, body []byte) *http.Request {
	var rd io.Reader = http.NoBody
	if body != nil {
		rd = bytes.NewReader(body)
	}
	req := httptest.NewRequest(method, "http://placeholder.test/", rd)
	if u, err := url.ParseRequestURI(uri); err == nil {
		req.URL = u
	}
	req.Host = host
	req.RequestURI = uri
	for k, vs := range hdr {
		req.Header[k] = append([]string(nil), vs...)
	}
	return req
}

func (p *pipeline) do(method, host, uri string, hdr http.Header, body []byte) *httptest.ResponseRecorder {
	var rd io.Reader = http.NoBody
	if body != nil {
		rd = bytes.NewReader(body)
	}
	req := httptest.NewRequest(method, "http://placeholder.test/", rd)
	if u, err := url.ParseRequestURI(uri); err == nil {
		req.URL = u
	}
	req.Host = host
	req.RequestURI = uri
	for k, vs := range hdr {
		req.Header[k] = append([]string(nil), vs...)
	}
	w := httptest.NewRecorder()
	p.e.ServeHTTP(w, req)
	return w
}

// upstream answer: status, header (set verbatim), body
func answer(status int, hdr http.Header, body []byte) upstreamScript {
	return func(c *elton.Context) error {
		h := c.Header()
		for k, vs := range hdr {
			h[k] = append([]string(nil), vs...)
		}
		c.StatusCode = status
		c.BodyBuffer = bytes.NewBuffer(append([]byte(nil), body...))
		return nil
	}
}

func serverOption() server.ServerOption { return server.ServerOption{Addr: ":0"} }

func bytesBuf(s string) *bytes.Buffer { return bytes.NewBufferString(s) }

var storeErrNotFound = store.ErrNotFound

// the admin server's purge endpoint (DELETE /cache?key=&cache=), started once per process on a free port
var adminAddr string
var adminOnce sync.Once

func adminPurge(cacheName, key string) (int, error) {
	adminOnce.Do(func() {
		// a free port can be taken by another process between probing and listening: try a few
		for attempt := 0; attempt < 5 && adminAddr == ""; attempt++ {
			ln, err := net.Listen("tcp", "127.0.0.1:0")
			if err != nil {
				continue
			}
			addr := ln.Addr().String()
			ln.Close()
			failed := make(chan struct{})
			go func() {
				_ = server.StartAdminServer(server.AdminServerConfig{Addr: addr})
				close(failed) // ListenAndServe returned: the port was not ours after all
			}()
			for i := 0; i < 100 && adminAddr == ""; i++ {
				select {
				case <-failed:
					i = 100
					continue
				default:
				}
				if c, err := net.DialTimeout("tcp", addr, 100*time.Millisecond); err == nil {
					c.Close()
					// make sure it is OUR admin server that answers there
					if resp, err := http.Get("http://" + addr + "/ping"); err == nil {
						b, _ := io.ReadAll(resp.Body)
						resp.Body.Close()
						if string(b) == "pong" {
							adminAddr = addr
						}
					}
					break
				}
				time.Sleep(20 * time.Millisecond)
			}
		}
	})
	if adminAddr == "" {
		return 0, errors.New("admin server did not start")
	}
	q := url.Values{}
	q.Set("key", key)
	if cacheName != "" {
		q.Set("cache", cacheName)
	}
	req, _ := http.NewRequest("DELETE", "http://"+adminAddr+"/cache?"+q.Encode(), nil)
	resp, err := http.DefaultClient.Do(req)
	if err != nil {
		return 0, err
	}
	io.Copy(io.Discard, resp.Body)
	resp.Body.Close()
	return resp.StatusCode, nil
}

// waitUpstreamHealthy: the suites that talk to a loopback origin they know to be alive need the upstream's initial
// health check to have seen it; on a busy machine (connect time-outs, ephemeral ports used up by earlier cases)
// that check can fail — it is repeated here, bounded, because these suites are not about the health checker
func waitUpstreamHealthy(name string) {
	us := upstream.Get(name)
	if us == nil {
		return
	}
	for attempt := 0; attempt < 20; attempt++ {
		all := true
		for _, hu := range us.HTTPUpstream.GetUpstreamList() {
			if hu.Status() != 2 { // upstream.UpstreamHealthy
				all = false
			}
		}
		if all {
			return
		}
		stat("upstream-health-retry")
		time.Sleep(500 * time.Millisecond)
		us.HTTPUpstream.DoHealthCheck()
	}
}
