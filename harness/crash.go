package main

import (
	"bufio"
	"fmt"
	"net/http"
	"os"
	"os/exec"
	"path/filepath"
	"strconv"
	"strings"
	"sync"
	"sync/atomic"
	"syscall"
	"time"

	"github.com/vicanso/elton"
	"github.com/vicanso/elton/middleware"
	"github.com/vicanso/pike/cache"
	"github.com/vicanso/pike/config"
	"github.com/vicanso/pike/location"
	"github.com/vicanso/pike/server"
	"github.com/vicanso/pike/upstream"
)

// suite crash (thorough): a child process serves a scripted request history through the real
// request path with a REAL badger store on disk and an LRU smaller than the working set; the parent
// SIGKILLs it at PRNG-chosen points (in the middle of fetches, saves, purges) and restarts it on
// the same directory.  Every upstream answer and every client response is reported; the Lean
// monitor checks: never altered, never after the original expiry, Age continues, pike starts.

func init() {
	suites["crash"] = suiteCrash
	suites["crashchild"] = crashChild
}

var crashOffset int64

func crashNow() int64 { return time.Now().Unix() + atomic.LoadInt64(&crashOffset) }

func crashChild(r *rng, n int) {
	// optFlag: dir|from|offset
	parts := strings.Split(optFlag, "|")
	dir := parts[0]
	from, _ := strconv.Atoi(parts[1])
	off, _ := strconv.ParseInt(parts[2], 10, 64)
	atomic.StoreInt64(&crashOffset, off)
	cache.VerifClock = crashNow
	out := bufio.NewWriter(os.Stdout)
	var sayMu sync.Mutex
	say := func(format string, a ...interface{}) {
		sayMu.Lock()
		defer sayMu.Unlock()
		fmt.Fprintf(out, format+"\n", a...)
		out.Flush()
	}
	cc := config.CacheConfig{Name: "c1", Size: 4, HitForPass: "3s", Store: "badger://" + dir}
	cache.ResetDispatchers([]config.CacheConfig{cc})
	if d := cache.GetDispatcher("c1"); d == nil {
		say("startfail dispatcher")
		return
	}
	ups := []config.UpstreamConfig{{Name: "u1", Servers: []config.UpstreamServerConfig{{Addr: "http://127.0.0.1:1"}}}}
	upstream.Reset(ups)
	// response ids are unique across the incarnations of one trial (a child killed during step s is restarted AT
	// step s: numbering by the step alone would hand out the same ids twice)
	incarnation := 0
	if len(parts) > 3 {
		incarnation, _ = strconv.Atoi(parts[3])
	}
	var rid int64 = int64(incarnation*100+from) * 1000
	upstream.Get("u1").Proxy = func(c *elton.Context) error {
		id := atomic.AddInt64(&rid, 1)
		ttl := 2 + int(id%4)
		kind := "cacheable"
		if id%7 == 0 {
			kind = "nostore"
		}
		say("up\t%s\t%d\t%d\t%s\t%d", c.Request.RequestURI, id, ttl, kind, crashNow())
		h := c.Header()
		// compressible type and a 1-byte threshold: entries are stored as gzip+br variants only, so what an
		// identity client is served after a restart is rebuilt from the persisted gzip variant
		h["Content-Type"] = []string{"text/plain"}
		h["X-Rid"] = []string{fmt.Sprint(id)}
		if kind == "cacheable" {
			h["Cache-Control"] = []string{fmt.Sprintf("max-age=%d", ttl)}
		} else {
			h["Cache-Control"] = []string{"no-store"}
		}
		c.StatusCode = 200
		c.BodyBuffer = bytesBuf(fmt.Sprintf("r%d:%s", id, c.Request.RequestURI))
		return nil
	}
	location.Reset([]config.LocationConfig{{Name: "l1", Upstream: "u1"}})
	s := server.NewServer(server.ServerOption{Addr: ":0", Locations: []string{"l1"}, Cache: "c1", CompressMinLength: 1})
	e := elton.New()
	e.Use(middleware.NewDefaultError())
	e.Use(middleware.NewDefaultFresh())
	e.Use(server.NewResponder())
	e.Use(server.NewCache(s))
	e.Use(server.NewProxy(s))
	e.ALL("/*", func(c *elton.Context) error { return nil })
	p := &pipeline{e: e}
	say("started\t%d", crashNow())
	// the script is a function of (seed, step): the parent resumes it after a kill
	for step := from; step < from+n; step++ {
		sr := r.fork(uint64(step))
		switch x := sr.intn(100); {
		case x < 70:
			k := sr.intn(8)
			uri := fmt.Sprintf("/c/%d", k)
			w := p.do("GET", "c.test", uri, http.Header{}, nil)
			say("resp\t%d\t%s\t%s\t%s\t%s\t%s\t%d\t%d", step, uri, w.Header().Get("X-Status"), w.Header().Get("Age"), w.Body.String(), w.Header().Get("X-Rid"), w.Code, crashNow())
		case x < 85:
			d := int64(1 + sr.intn(3))
			atomic.AddInt64(&crashOffset, d)
			say("tick\t%d\t%d\t%d", step, d, atomic.LoadInt64(&crashOffset))
		case x < 92:
			k := sr.intn(8)
			cache.RemoveHTTPCache("c1", []byte(fmt.Sprintf("GET c.test /c/%d", k)))
			say("purge\t%d\t/c/%d", step, k)
		default:
			// concurrent writers of all eight keys, released together (their saves to the store overlap)
			const burst = 8
			done := make(chan string, burst)
			start := make(chan struct{})
			for j := 0; j < burst; j++ {
				go func(j int) {
					<-start
					uri := fmt.Sprintf("/c/%d", (step+j)%8)
					w := p.do("GET", "c.test", uri, http.Header{}, nil)
					done <- fmt.Sprintf("resp\t%d\t%s\t%s\t%s\t%s\t%s\t%d\t%d", step, uri, w.Header().Get("X-Status"), w.Header().Get("Age"), w.Body.String(), w.Header().Get("X-Rid"), w.Code, crashNow())
				}(j)
			}
			close(start)
			for j := 0; j < burst; j++ {
				say("%s", <-done)
			}
		}
		say("step\t%d\t%d", step, atomic.LoadInt64(&crashOffset))
	}
	say("finished")
}

func suiteCrash(r *rng, n int) {
	self, _ := os.Executable()
	base := os.Getenv("VERIF_WORK")
	if base == "" {
		base = "/verif/.work"
	}
	for trial := 0; trial < n; trial++ {
		tr := r.fork(uint64(trial))
		dir := filepath.Join(base, fmt.Sprintf("crash-%d-%d", os.Getpid(), trial))
		_ = os.RemoveAll(dir)
		_ = os.MkdirAll(dir, 0o755)
		emit("crash", "begin", itoa(int64(trial)))
		from := 0
		var offset int64
		total := 60
		kills := 0
		for from < total {
			cmd := exec.Command(self, "crashchild", "-seed", fmt.Sprint(tr.s%1000000), "-n", fmt.Sprint(total-from), "-opt", fmt.Sprintf("%s|%d|%d|%d", dir, from, offset, kills))
			cmd.Stderr = nil
			stdout, _ := cmd.StdoutPipe()
			if err := cmd.Start(); err != nil {
				emit("crash", "startfail", err.Error())
				break
			}
			killAfter := 3 + tr.intn(40)
			if kills >= 4 {
				killAfter = 1 << 30
			}
			lines := 0
			sc := bufio.NewScanner(stdout)
			sc.Buffer(make([]byte, 1<<20), 1<<20)
			started := false
			finished := false
			timer := time.AfterFunc(60*time.Second, func() { _ = cmd.Process.Kill() })
			for sc.Scan() {
				l := sc.Text()
				f := strings.Split(l, "\t")
				switch f[0] {
				case "started":
					started = true
					emit("crash", "started", f[1])
				case "startfail":
					emit("crash", "startfail", hx(l))
				case "up":
					emit("crash", "up", hx(f[1]), f[2], f[3], hx(f[4]), f[5])
				case "resp":
					emit("crash", "resp", f[1], hx(f[2]), hx(f[3]), hx(f[4]), hx(f[5]), hx(f[6]), f[7], f[8])
				case "tick":
					emit("crash", "tick", f[2])
				case "purge":
					emit("crash", "purge", hx(f[2]))
				case "step":
					from, _ = strconv.Atoi(f[1])
					from++
					offset, _ = strconv.ParseInt(f[2], 10, 64)
				case "finished":
					finished = true
				}
				lines++
				if lines == killAfter {
					// a little jitter so the kill lands inside a later operation; keep reading: everything the
					// child managed to report before it died is in the pipe
					go func(d time.Duration) {
						time.Sleep(d)
						_ = cmd.Process.Signal(syscall.SIGKILL)
					}(time.Duration(tr.intn(3000)) * time.Microsecond)
				}
			}
			timer.Stop()
			_ = cmd.Process.Kill()
			_ = cmd.Wait()
			if !started {
				emit("crash", "notstarted")
				stat("not-started")
				break
			}
			if finished {
				break
			}
			kills++
			emit("crash", "kill", itoa(int64(from)))
			stat("kills")
		}
		emit("crash", "end")
		_ = os.RemoveAll(dir)
		stat("trials")
		flush()
	}
}
