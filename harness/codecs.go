package main

import (
	"bytes"
	"compress/gzip"
	"fmt"
	"io"
	"runtime"
	"strings"
	"time"

	"github.com/andybalholm/brotli"
	"github.com/pierrec/lz4"
	"github.com/vicanso/pike/compress"
	"github.com/vicanso/pike/config"
)

// suite codecs: pike's compression glue against reference encoders/decoders.
//   enc   body x level through compress.Get(profile).Gzip/Brotli, decoded by the standard decoders
//         and by pike's own
//   dec   streams from reference encoders (gzip, br, lz4 block, zst, snz) through Decompress
//   lz4   LZ4 blocks (library-made and hand-made) — also judged by the Lean block decoder
//   mut   mutated streams: must fail or succeed, never panic or hang

func init() { suites["codecs"] = suiteCodecs }

func codecBody(r *rng) ([]byte, string) {
	switch r.intn(12) {
	case 9:
		// data that looks like a gzip stream to a sniffing eye: the two magic bytes and anything, or a real .gz file
		if r.chance(50) {
			return append([]byte{0x1f, 0x8b}, r.bytes(r.intn(400))...), "gzip-magic"
		}
		return encGzip(r.bytes(1 + r.intn(2000))), "gzip-file"
	case 10:
		// incompressible and well beyond one internal buffer of any of the codecs
		return r.bytes(150000 + r.intn(250000)), "random-huge"
	case 11:
		return bytes.Repeat([]byte("0123456789abcdef"), 70000), "repetitive-1MB"
	case 0:
		return nil, "empty"
	case 1:
		return []byte{byte(r.intn(256))}, "one"
	case 2:
		return r.bytes(1 + r.intn(300)), "random-small"
	case 3:
		return r.bytes(20000 + r.intn(30000)), "random-large"
	case 4:
		return bytes.Repeat([]byte("abcdefgh"), 1+r.intn(2000)), "repetitive"
	case 5:
		if r.chance(25) {
			// a block whose length prefix looks like the start of another container format (snappy: varint 895 =
			// ff 06, then 00 00 = the chunk header of the framing format)
			return make([]byte, 895), "zeros-895"
		}
		return make([]byte, 1+r.intn(3000)), "zeros"
	case 6:
		return make([]byte, 100000+r.intn(400000)), "zeros-huge"
	case 7:
		return []byte(strings.Repeat("{\"k\":\"v\",\"n\":12345},", 1+r.intn(500))), "structured"
	default:
		return []byte("hello world"), "tiny"
	}
}

func guarded(f func() ([]byte, error)) (out []byte, res string) {
	type ret struct {
		b   []byte
		err error
		p   interface{}
	}
	ch := make(chan ret, 1)
	go func() {
		var rr ret
		defer func() {
			if p := recover(); p != nil {
				rr.p = p
			}
			ch <- rr
		}()
		rr.b, rr.err = f()
	}()
	select {
	case rr := <-ch:
		switch {
		case rr.p != nil:
			return nil, "panic"
		case rr.err != nil:
			return nil, "err"
		}
		return rr.b, "ok"
	case <-time.After(90 * time.Second):
		// the call is still running (a goroutine cannot be stopped): report it and end the suite after this case,
		// a spinning decoder would only slow down everything that follows
		codecsAbort = true
		return nil, "timeout"
	}
}

var codecsAbort bool

// outputs of earlier encoder calls, kept exactly as returned (a cache keeps them for the lifetime of the entry)
type keptStream struct {
	format string
	level  int
	cls    string
	body   []byte
	data   []byte
}

func stdDecode(format string, data []byte) ([]byte, error) {
	if format == "gzip" {
		rd, err := gzip.NewReader(bytes.NewReader(data))
		if err != nil {
			return nil, err
		}
		return io.ReadAll(rd)
	}
	return io.ReadAll(brotli.NewReader(bytes.NewReader(data)))
}

// zstdRawFrame: a valid zstd frame (RFC 8878) made of raw blocks, whose header declares a window of 2^windowLog bytes
// and no content size
func zstdRawFrame(body []byte, windowLog int) []byte {
	out := []byte{0x28, 0xb5, 0x2f, 0xfd, 0x00, byte((windowLog - 10) << 3)}
	const blk = 128 << 10
	if len(body) == 0 {
		return append(out, 0x01, 0x00, 0x00)
	}
	for off := 0; off < len(body); off += blk {
		end := off + blk
		last := 0
		if end >= len(body) {
			end, last = len(body), 1
		}
		h := uint32((end-off)<<3) | uint32(last)
		out = append(out, byte(h), byte(h>>8), byte(h>>16))
		out = append(out, body[off:end]...)
	}
	return out
}

func suiteCodecs(r *rng, n int) {
	var kept, keptDec []keptStream
	for i := 0; i < n && !codecsAbort; i++ {
		cr := r.fork(uint64(i))
		body, cls := codecBody(cr)
		op := cr.intn(4)
		if i%700 == 7 {
			// once in a while (once per quick run) a body beyond every "reasonable" size limit a decoder might have been
			// given: 17 MB of zeros, on the decoders' side only (what an origin may send)
			body, cls, op = make([]byte, 17<<20), "zeros-17MB", 1
		}
		switch op {
		case 0: // encoders at a configured level
			gl, bl := cr.intn(16)-2, cr.intn(16)-2
			levels := map[string]uint{}
			// config levels are unsigned; negative values are exercised through SetLevels below
			if gl >= 0 {
				levels["gzip"] = uint(gl)
			}
			if bl >= 0 {
				levels["br"] = uint(bl)
			}
			compress.Reset([]config.CompressConfig{{Name: "p", Levels: levels}})
			srv := compress.Get("p")
			if gl < 0 || bl < 0 {
				srv.SetLevels(map[string]int{"gzip": gl, "br": bl})
			}
			gz, r1 := guarded(func() ([]byte, error) { return srv.Gzip(body) })
			res := r1
			if r1 == "ok" {
				rd, err := gzip.NewReader(bytes.NewReader(gz))
				var d1 []byte
				if err == nil {
					d1, err = io.ReadAll(rd)
				}
				d2, err2 := srv.Gunzip(gz)
				if err != nil || err2 != nil || !bytes.Equal(d1, body) || !bytes.Equal(d2, body) {
					res = "mismatch"
				}
			}
			emit("codecs", "enc", "gzip", itoa(int64(gl)), hx(cls), itoa(int64(len(body))), "=>", res)
			br, r2 := guarded(func() ([]byte, error) { return srv.Brotli(body) })
			res = r2
			if r2 == "ok" {
				d1, err := io.ReadAll(brotli.NewReader(bytes.NewReader(br)))
				d2, err2 := srv.BrotliDecode(br)
				if len(body) == 0 && len(br) != 0 && d2 == nil {
					d2 = []byte{}
				}
				if err != nil || err2 != nil || !bytes.Equal(d1, body) || !bytes.Equal(d2, body) {
					res = "mismatch"
				}
			}
			emit("codecs", "enc", "br", itoa(int64(bl)), hx(cls), itoa(int64(len(body))), "=>", res)
			// the streams produced by EARLIER calls must still decode to their own input after these calls
			for _, k := range kept {
				kres := "ok"
				if d, err := stdDecode(k.format, k.data); err != nil || !bytes.Equal(d, k.body) {
					kres = "retained"
				}
				emit("codecs", "enc", k.format, itoa(int64(k.level)), hx(k.cls), itoa(int64(len(k.body))), "=>", kres)
			}
			if r1 == "ok" {
				kept = append(kept, keptStream{"gzip", gl, cls, body, gz})
			}
			if r2 == "ok" {
				kept = append(kept, keptStream{"br", bl, cls, body, br})
			}
			if len(kept) > 4 {
				kept = kept[len(kept)-4:]
			}
			stat("enc")
		case 1: // decoders on reference streams
			srv := compress.Get("")
			for _, f := range []string{"gzip", "br", "zst", "snz"} {
				var data []byte
				switch f {
				case "gzip":
					data = encGzip(body)
				case "br":
					data = encBr(body)
				case "zst":
					data = encZstd(body)
				case "snz":
					data = encSnappy(body)
				}
				d, res := guarded(func() ([]byte, error) { return srv.Decompress(f, data) })
				if res == "ok" && !bytes.Equal(d, body) {
					res = "mismatch"
				}
				emit("codecs", "dec", f, "0", hx(cls), itoa(int64(len(body))), "=>", res)
				if f == "gzip" && len(body) > 0 && len(body) <= 1<<20 && cr.chance(40) {
					// a gzip stream that lost its tail is not a gzip stream: the decoder reports it (it does not hand out
					// the part it could decode as if that were the body)
					full := encGzip(body)
					cutAt := 10 + cr.intn(len(full)-10)
					d, res := guarded(func() ([]byte, error) { return srv.Decompress("gzip", full[:cutAt]) })
					if res == "ok" {
						res = "mismatch"
						_ = d
					} else if res == "err" {
						res = "ok"
					}
					emit("codecs", "dec", "gzip", "-2", hx(cls), itoa(int64(len(body))), "=>", res)
					// … and a trailer whose size field was damaged costs an error, not memory in proportion to the field
					bad := append([]byte(nil), full...)
					bad[len(bad)-1] = 0x7f
					var ms0, ms1 runtime.MemStats
					runtime.ReadMemStats(&ms0)
					_, res2 := guarded(func() ([]byte, error) { return srv.Decompress("gzip", bad) })
					runtime.ReadMemStats(&ms1)
					grew := ms1.TotalAlloc - ms0.TotalAlloc
					if res2 == "err" {
						res2 = "ok"
					} else if res2 == "ok" {
						res2 = "mismatch"
					}
					if grew > uint64(64<<20+100*len(body)) {
						res2 = "alloc"
					}
					emit("codecs", "dec", "gzip", "-3", hx(cls), itoa(int64(len(body))), "=>", res2)
					stat("dec-gzip-damaged")
				}
				if f == "gzip" && len(body) <= 1<<20 && cr.chance(50) {
					// a stream of several members (cat a.gz b.gz; pigz; BGZF): a valid gzip stream, restored by every
					// standard reader to the concatenation of its members
					cut := cr.intn(len(body) + 1)
					ms := append(encGzip(body[:cut]), encGzip(body[cut:])...)
					if cr.chance(30) {
						ms = append(ms, encGzip(nil)...) // an empty last member
					}
					d, res := guarded(func() ([]byte, error) { return srv.Decompress("gzip", ms) })
					if res == "ok" && !bytes.Equal(d, body) {
						res = "mismatch"
					}
					emit("codecs", "dec", "gzip", "2", hx(cls), itoa(int64(len(body))), "=>", res)
					stat("dec-gzip-members")
				}
				if f == "zst" && len(body) <= 1<<20 && cr.chance(50) {
					// a skippable frame (RFC 8878 §3.1.2: magic 0x184D2A5?, length, user data) in front of, between or
					// behind the data frames is part of a valid stream and contributes nothing
					skip := []byte{byte(0x50 + cr.intn(16)), 0x2a, 0x4d, 0x18, 5, 0, 0, 0, 'h', 'e', 'l', 'l', 'o'}
					var st []byte
					switch cr.intn(3) {
					case 0:
						st = append(append([]byte(nil), skip...), encZstd(body)...)
					case 1:
						st = append(encZstd(body), skip...)
					default:
						cut := cr.intn(len(body) + 1)
						st = append(append(encZstd(body[:cut]), skip...), encZstd(body[cut:])...)
					}
					d, res := guarded(func() ([]byte, error) { return srv.Decompress("zst", st) })
					if res == "ok" && !bytes.Equal(d, body) {
						res = "mismatch"
					}
					emit("codecs", "dec", "zst", "-1", hx(cls), itoa(int64(len(body))), "=>", res)
					stat("dec-zst-skippable")
				}
				if f == "zst" && len(body) <= 1<<20 {
					// the same body in a frame whose header declares a large window (the ENCODER's choice: streaming
					// encoders at high levels and `--long` declare 8 MB .. 128 MB whatever the payload size)
					wl := 21 + cr.intn(7)
					fr := zstdRawFrame(body, wl)
					d, res := guarded(func() ([]byte, error) { return srv.Decompress("zst", fr) })
					if res == "ok" && !bytes.Equal(d, body) {
						res = "mismatch"
					}
					emit("codecs", "dec", "zst", itoa(int64(wl)), hx(cls), itoa(int64(len(body))), "=>", res)
					stat("dec-zst-window")
				}
				// what EARLIER decoder calls returned is kept by the caller (a cached raw body): still intact?
				for _, k := range keptDec {
					kres := "ok"
					if !bytes.Equal(k.data, k.body) {
						kres = "retained"
					}
					emit("codecs", "dec", k.format, "0", hx(k.cls), itoa(int64(len(k.body))), "=>", kres)
				}
				if res == "ok" && len(body) > 0 {
					keptDec = append(keptDec, keptStream{f, 0, cls, body, d})
					if len(keptDec) > 4 {
						keptDec = keptDec[len(keptDec)-4:]
					}
				}
			}
			stat("dec")
		case 2: // lz4 blocks
			srv := compress.Get("")
			var block []byte
			kind := "lib"
			if cr.chance(70) {
				b, ok := encLZ4(body)
				if !ok {
					b = append([]byte{byte(len(body) << 4)}, body...) // literal-only block for short incompressible input
					if len(body) >= 15 {
						continue
					}
					kind = "literal"
				}
				block = b
			} else {
				// hand-made: one literal, then a long overlapping match (run length)
				ext := cr.intn(600)
				block = []byte{0x1f, 'x', 1, 0}
				for ext >= 255 {
					block = append(block, 255)
					ext -= 255
				}
				block = append(block, byte(ext))
				body = bytes.Repeat([]byte("x"), 0)
				kind = "handmade"
			}
			d, res := guarded(func() ([]byte, error) { return srv.LZ4Decode(block) })
			outHex := "-"
			if res == "ok" {
				if kind != "handmade" && !bytes.Equal(d, body) {
					res = "mismatch"
				}
				if len(d) <= 4096 {
					outHex = hxb(d)
				} else {
					outHex = "len:" + itoa(int64(len(d)))
				}
			}
			blockHex := "-"
			// the Lean block decoder is list based: ship only blocks whose output is small
			if (res == "ok" && len(d) <= 4096 && len(block) <= 2048) || (res != "ok" && len(block) <= 64) {
				blockHex = hxb(block)
				if len(block) == 0 {
					blockHex = "empty"
				}
			}
			emit("codecs", "lz4", hx(kind), itoa(int64(len(block))), hx(cls), itoa(int64(len(body))), blockHex, "=>", res, outHex)
			stat("lz4-" + kind)
			_ = lz4.CompressBlockBound
		default: // mutated streams
			srv := compress.Get("")
			f := cr.pick([]string{"gzip", "br", "zst", "snz", "lz4"})
			var data []byte
			switch f {
			case "gzip":
				data = encGzip(body)
			case "br":
				data = encBr(body)
			case "zst":
				data = encZstd(body)
			case "snz":
				data = encSnappy(body)
			case "lz4":
				data, _ = encLZ4(body)
			}
			if len(data) > 0 {
				switch cr.intn(3) {
				case 0:
					for k := 0; k < 1+cr.intn(4); k++ {
						data[cr.intn(len(data))] ^= 1 << uint(cr.intn(8))
					}
				case 1:
					data = data[:cr.intn(len(data))]
				default:
					data = append(data[:cr.intn(len(data))], cr.bytes(cr.intn(20))...)
				}
			}
			if cr.chance(12) {
				// hand-made headers that DECLARE a huge decoded size in front of little or no data
				switch cr.intn(3) {
				case 0: // zstd frame: magic, descriptor with an 8-byte frame content size, the size, a few bytes
					f = "zst"
					data = append([]byte{0x28, 0xb5, 0x2f, 0xfd, 0xe0}, []byte{0xff, 0xff, 0xff, 0xff, 0xff, 0xff, 0xff, byte(0x7f - cr.intn(2))}...)
					data = append(data, cr.bytes(cr.intn(12))...)
				case 1: // snappy block: uvarint length of 512 MB in front of a dozen bytes (the library itself allocates what the
					// header declares before it looks at the data: close to 2^32 that is 4 GB, which on a machine under
					// memory pressure can take longer than the guard allows — not a hang of pike's)
					f = "snz"
					data = append([]byte{0x80, 0x80, 0x80, 0x80, 0x02}, cr.bytes(cr.intn(12))...)
				default: // zstd with a 4-byte size field
					f = "zst"
					data = append([]byte{0x28, 0xb5, 0x2f, 0xfd, 0xa0, 0xff, 0xff, 0xff, 0xff}, cr.bytes(cr.intn(12))...)
				}
				stat("mut-declared-size")
			}
			_, res := guarded(func() ([]byte, error) { return srv.Decompress(f, data) })
			emit("codecs", "mut", f, "0", hx(cls), itoa(int64(len(data))), "=>", res)
			stat("mut")
		}
	}
	_ = fmt.Sprint
}
