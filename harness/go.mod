module verifharness

go 1.16

replace github.com/vicanso/pike => /repo

replace google.golang.org/grpc => google.golang.org/grpc v1.26.0

replace github.com/coreos/bbolt => go.etcd.io/bbolt v1.3.5

require (
	github.com/andybalholm/brotli v1.0.3
	github.com/dustin/go-humanize v1.0.0
	github.com/golang/groupcache v0.0.0-20210331224755-41bb18bfe9da
	github.com/golang/snappy v0.0.3
	github.com/klauspost/compress v1.13.1
	github.com/pierrec/lz4 v2.6.1+incompatible
	github.com/vicanso/elton v1.4.2
	github.com/vicanso/pike v0.0.0
	go.uber.org/zap v1.18.1
)
