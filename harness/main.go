// harness: correspondence harness.  Calls the real pike code in-process on generated
// inputs and prints one line per case: the input and what the implementation did.
// The Lean driver replays each line through the model and judges it.
package main

import (
	"flag"
	"fmt"
	"os"
	"strconv"
)

type suiteFn func(r *rng, n int)

var suites = map[string]suiteFn{}

func main() {
	if len(os.Args) < 2 {
		fmt.Fprintln(os.Stderr, "usage: harness <suite> [-seed S] [-n N]")
		os.Exit(2)
	}
	suite := os.Args[1]
	fs := flag.NewFlagSet(suite, flag.ExitOnError)
	seedDefault := uint64(1)
	if s := os.Getenv("VERIF_SEED"); s != "" {
		if v, err := strconv.ParseUint(s, 10, 64); err == nil {
			seedDefault = v
		}
	}
	seed := fs.Uint64("seed", seedDefault, "PRNG seed")
	n := fs.Int("n", 1000, "number of cases")
	fs.StringVar(&replayFile, "replay", "", "replay cases from file (suite specific)")
	fs.StringVar(&optFlag, "opt", "", "suite specific option")
	_ = fs.Parse(os.Args[2:])
	fn, ok := suites[suite]
	if !ok {
		fmt.Fprintln(os.Stderr, "unknown suite", suite)
		os.Exit(2)
	}
	quietLogs()
	fn(newRng(*seed), *n)
	flush()
	dumpStats(suite)
}

var replayFile string
var optFlag string
