package main

import (
	"bytes"
	"encoding/binary"
	"errors"
	"fmt"
	"net/http"
	"os"
	"runtime"
	"strconv"
	"strings"
	"sync"
	"time"

	"github.com/vicanso/elton"
	"github.com/vicanso/pike/cache"
	"github.com/vicanso/pike/server"
)

// suite sched: random schedules of concurrent requests executed on real goroutines through the
// real middleware chain, one atomic step at a time.  Every goroutine stops at the protocol
// points (hook gates, the scripted upstream); the controller picks the next event with the
// PRNG, releases exactly one gate, and records where the goroutine stops next.  The Lean driver
// replays the same event sequence through Sys.step and compares positions and answers.
// A goroutine that does not reach its next stop within the watchdog time is reported (BLOCKED).

func init() { suites["sched"] = suiteSched }

type schedThread struct {
	id      int
	key     int
	method  string
	pos     string // last reported gate, "parked", "running", "finished"
	entry   interface{}
	report  chan string
	release chan struct{}
	answer  upAnswer
	result  string // X-Status|Age|body|code after finish
	loadOut string // what the store returned to this thread's load (set by the store script)
}

type upAnswer struct {
	kind string // cacheable | nostore | error | panic
	ttl  int
	rid  int
}

type schedRun struct {
	mu        sync.Mutex
	byGoid    map[int64]*schedThread
	threads   []*schedThread
	p         *pipeline
	nextRid   int
	waiters   map[interface{}][]*schedThread // registration order per entry
	draining  map[interface{}]*schedThread   // entry -> completer while it holds the lock
	queue     map[interface{}][]*schedThread // detached list of the completer
	loadPlan  string                         // what the next store.Get should do
	savePlan  bool
	delPlan   bool
	mutRng    *rng          // PRNG of the record mutations of this schedule
	newGate   bool          // stop threads at "entry.new" (inside the shard's get-or-create)
	setGate   chan struct{} // when set, the store.Set of key setKey announces itself on setAt and waits here
	setAt     chan struct{}
	setKey    string
	delGate   chan struct{} // when set, store.Delete announces itself on delAt and waits here
	delAt     chan struct{}
	blocked   bool
	entryIdx  map[interface{}]int
	lastLoads map[int]string
}

func goid() int64 {
	var buf [64]byte
	n := runtime.Stack(buf[:], false)
	f := strings.Fields(string(buf[:n]))
	id, _ := strconv.ParseInt(f[1], 10, 64)
	return id
}

const schedWatchdog = 5 * time.Second

var curRun *schedRun

func (r *schedRun) self() *schedThread {
	r.mu.Lock()
	defer r.mu.Unlock()
	return r.byGoid[goid()]
}

func (r *schedRun) gate(point string, entry interface{}) {
	t := r.self()
	if t == nil {
		return // not one of ours (controller calls)
	}
	if point == "entry.new" && !r.newGate {
		return // only the arriveRace step stops threads inside the dispatcher's get-or-create
	}
	if entry != nil && t.entry == nil {
		t.entry = entry // written once, at the thread's first stop, while the controller awaits it
	}
	t.report <- point
	<-t.release
}

// let thread t leave its gate; a thread that is not at a gate (the implementation took another path than
// the controller assumed) never receives: that is reported as BLOCKED instead of hanging the harness
func (r *schedRun) rel(t *schedThread) {
	if r.blocked {
		return
	}
	select {
	case t.release <- struct{}{}:
	case <-time.After(schedWatchdog):
		r.blocked = true
		t.pos = "BLOCKED"
	}
}

// a call of the controller itself into pike (purge, restart): must return; a call that does not is BLOCKED
func (r *schedRun) ctl(f func()) {
	done := make(chan struct{})
	go func() {
		defer close(done)
		f()
	}()
	select {
	case <-done:
	case <-time.After(schedWatchdog):
		r.blocked = true
	}
}

// wait for thread t to report its next stop
func (r *schedRun) await(t *schedThread) string {
	if r.blocked {
		t.pos = "BLOCKED"
		return "BLOCKED"
	}
	select {
	case p := <-t.report:
		t.pos = p
		return p
	case <-time.After(schedWatchdog):
		r.blocked = true
		t.pos = "BLOCKED"
		return "BLOCKED"
	}
}

func (r *schedRun) eidx(e interface{}) int {
	if e == nil {
		return -1
	}
	if i, ok := r.entryIdx[e]; ok {
		return i
	}
	i := len(r.entryIdx)
	r.entryIdx[e] = i
	return i
}

// the URIs carry a percent-escape and a plus sign: the cache key is built from the raw request URI, and a purge
// (direct or through the admin endpoint's query parameter) has to name exactly that key
func schedKeyURI(k int) string { return fmt.Sprintf("/s/%d?q=a%%2Fb+c", k) }

func mutateRecord(cr *rng, data []byte) ([]byte, string) {
	d := append([]byte(nil), data...)
	if cr.chance(15) && len(d) > 40 {
		// garble only the HTTP status code of the stored response (the 4 bytes after the header block): a value no
		// HTTP response can carry
		for i := 8; i+4 <= len(d)-16; i++ {
			if binary.BigEndian.Uint32(d[i:i+4]) == 200 {
				binary.BigEndian.PutUint32(d[i:i+4], []uint32{7, 99, 1000, 99999, 4294967295}[cr.intn(5)])
				return d, "http-status-code"
			}
		}
	}
	switch cr.intn(6) {
	case 0:
		v := uint32(cr.intn(8))
		binary.BigEndian.PutUint32(d[0:4], v)
		return d, "status-word"
	case 1:
		for i := len(d) - 8; i < len(d); i++ {
			d[i] = 0
		}
		return d, "no-expiry"
	case 2:
		// drop the response: status | 0 | createdAt | expiredAt
		out := append([]byte(nil), d[0:4]...)
		out = append(out, 0, 0, 0, 0)
		out = append(out, d[len(d)-16:]...)
		return out, "no-response"
	case 3:
		return d[:cr.intn(len(d))], "truncated"
	case 4:
		return cr.bytes(cr.intn(12)), "junk"
	default:
		return d, "intact"
	}
}

func suiteSched(r *rng, n int) {
	installClock()
	cache.VerifHook = func(point string, entry interface{}) {
		if curRun != nil {
			curRun.gate(point, entry)
		}
	}
	defer func() { cache.VerifHook = nil }()
	// directed schedules first (minimised past failures and hand-written corner cases)
	// a schedule that ends with a stranded goroutine costs a watchdog period; a few of them are evidence enough
	blockedRuns := 0
	for i, sc := range directedSchedules {
		if runSchedule(r.fork(uint64(900000+i)), 900000+i, sc) {
			blockedRuns++
		}
		flush()
	}
	for seq := 0; seq < n && blockedRuns < 4; seq++ {
		if runSchedule(r.fork(uint64(seq)), seq, nil) {
			blockedRuns++
		}
		flush()
	}
}

// directed schedules: "event:thread[:args]"; threads are numbered in arrival order
var directedSchedules = [][]string{
	// D1: waiter woken, lifetime passes, third request refetches, waiter resumes
	{"store:0", "arrive:0", "arrive:0", "get:0", "get:1", "park:1", "upEnd:0:cacheable:1", "complete:0", "saved:0:1", "tick:2", "arrive:0", "get:2", "resume:1", "age:1"},
	// completer blocked on a waiter that registered but has not parked
	{"store:0", "arrive:0", "arrive:0", "arrive:0", "get:0", "get:1", "get:2", "park:2", "upEnd:0:nostore:1", "complete:0", "park:1", "saved:0:1", "resume:1", "resume:2"},
	// D10: lookup in the last valid second, tick, Age
	{"store:0", "arrive:0", "get:0", "upEnd:0:cacheable:1", "complete:0", "saved:0:1", "tick:1", "arrive:0", "get:1", "tick:1", "age:1"},
	// purge racing an in-flight fetch with waiters; next request refetches
	{"store:1", "arrive:0", "arrive:0", "get:0", "get:1", "purge:0:1", "arrive:0", "get:2", "park:1", "upEnd:0:cacheable:60", "complete:0", "saved:0:1", "resume:1", "age:1", "upEnd:2:cacheable:60", "complete:2", "saved:2:1"},
	// purge held in its store delete while a request for the key arrives: the request sees neither the entry nor the record
	{"store:1", "arrive:0", "get:0:honest", "upEnd:0:cacheable:60", "complete:0", "saved:0:1", "purgeRace:0", "get:1:honest", "upEnd:1:cacheable:60", "complete:1", "saved:1:1", "arrive:0", "get:2:honest", "age:2"},
	// the same after a restart (entry only in the store)
	{"store:1", "arrive:0", "get:0:honest", "upEnd:0:cacheable:60", "complete:0", "saved:0:1", "crash", "purgeRace:0", "get:1:honest", "upEnd:1:cacheable:60", "complete:1", "saved:1:1"},
	// a purge through the admin endpoint whose store delete is slow: the operator's 204 comes after the delete, not before
	{"store:1", "arrive:0", "get:0:honest", "upEnd:0:cacheable:60", "complete:0", "saved:0:1", "purgeAck:0", "arrive:0", "get:1:honest", "upEnd:1:cacheable:60", "complete:1", "saved:1:1"},
	// a purge that names a cache which does not exist — through the admin endpoint and directly — leaves a resident hit alone
	{"store:0", "arrive:0", "get:0", "upEnd:0:cacheable:60", "complete:0", "saved:0:1", "purgeOther:0:admin", "arrive:0", "get:1", "age:1", "purgeOther:0:direct", "arrive:0", "get:2", "age:2"},
	// two requests racing through the dispatcher's get-or-create for a cold key: one entry, one fetch
	{"store:0", "arriveRace:0", "get:0", "get:1", "park:1", "upEnd:0:cacheable:60", "complete:0", "saved:0:1", "resume:1", "age:1"},
	// the same for a key made cold again by a purge
	{"store:1", "arrive:0", "get:0:honest", "upEnd:0:cacheable:60", "complete:0", "saved:0:1", "purge:0:1", "arriveRace:0", "get:1:honest", "get:2:honest", "park:2", "upEnd:1:cacheable:60", "complete:1", "saved:1:1", "resume:2", "age:2"},
	// reload while a fetch with a waiter is in flight: the next arrival still joins the same entry
	{"store:0", "arrive:0", "get:0", "arrive:0", "get:1", "reload", "arrive:0", "get:2", "park:1", "park:2", "upEnd:0:cacheable:60", "complete:0", "saved:0:1", "resume:1", "age:1", "resume:2", "age:2"},
	// two keys persisted at the same time, restart, both served from their own records
	{"store:1", "arrive:0", "arrive:1", "get:0:honest", "get:1:honest", "upEnd:0:cacheable:60", "upEnd:1:cacheable:60", "complete:0", "complete:1",
		"saveRace:0:1", "crash", "arrive:0", "get:2:honest", "age:2", "arrive:1", "get:3:honest", "age:3"},
	// damaged records of a cached response after a restart: no response part, no expiry — each is a miss
	{"store:1", "arrive:0", "get:0:honest", "upEnd:0:cacheable:60", "complete:0", "saved:0:1", "crash",
		"arrive:0", "get:1:noresp", "upEnd:1:error:1", "complete:1", "saved:1:0", "crash",
		"arrive:0", "get:2:noexp", "upEnd:2:error:1", "complete:2", "saved:2:0", "crash",
		"arrive:0", "get:3:badcode", "upEnd:3:error:1", "complete:3", "saved:3:0"},
	// hit-for-pass lapse: single prober, others wait
	{"store:0", "hfp:2s", "arrive:0", "get:0", "upEnd:0:error:1", "complete:0", "saved:0:1", "tick:1", "arrive:0", "get:1", "tick:2", "arrive:0", "arrive:0", "get:2", "get:3", "park:3", "upEnd:1:nostore:1", "upEnd:2:cacheable:3", "complete:2", "saved:2:1", "resume:3", "age:3"},
	// restart: served from the store with Age continuing, then past the original expiry
	{"store:1", "arrive:0", "get:0:honest", "upEnd:0:cacheable:3", "complete:0", "saved:0:1", "crash", "tick:2", "arrive:0", "get:1:honest", "age:1", "crash", "tick:2", "arrive:0", "get:2:honest", "upEnd:2:nostore:1", "complete:2", "saved:2:1"},
	// bad records
	{"store:1", "arrive:0", "get:0:honest", "upEnd:0:cacheable:60", "complete:0", "saved:0:1", "crash",
		"arrive:0", "get:1:truncate", "upEnd:1:error:1", "complete:1", "saved:1:0", "crash",
		"arrive:0", "get:2:error", "upEnd:2:error:1", "complete:2", "saved:2:0", "crash",
		"arrive:0", "get:3:truncate", "upEnd:3:error:1", "complete:3", "saved:3:0", "crash", "arrive:0", "get:4:honest"},
}

func runSchedule(cr *rng, seq int, script []string) (blocked bool) {
	withStore := cr.chance(60)
	hfp := []string{"300s", "2s", "0s"}[cr.intn(3)]
	for len(script) > 0 && (strings.HasPrefix(script[0], "store:") || strings.HasPrefix(script[0], "hfp:")) {
		if strings.HasPrefix(script[0], "store:") {
			withStore = script[0] == "store:1"
		} else {
			hfp = strings.TrimPrefix(script[0], "hfp:")
		}
		script = script[1:]
	}
	now := int64(1_700_000_000)
	setClock(now)
	run := &schedRun{byGoid: map[int64]*schedThread{}, waiters: map[interface{}][]*schedThread{}, draining: map[interface{}]*schedThread{},
		queue: map[interface{}][]*schedThread{}, entryIdx: map[interface{}]int{}, lastLoads: map[int]string{}}
	p := newPipeline(1000, hfp, withStore, server.ServerOption{Addr: ":0", CompressMinLength: 1 << 20}, nil, nil)
	run.p = p
	run.mutRng = cr.fork(0x6d7574)
	curRun = run
	defer func() { curRun = nil }()
	if p.store != nil {
		p.store.onGet = func(key string) ([]byte, error, bool) {
			t := run.self()
			plan := run.loadPlan
			rec, ok := p.store.m[key]
			out := "notfound"
			var data []byte
			var err error = errNotFound()
			switch {
			case plan == "error":
				out, err = "error", errors.New("store down")
			case plan == "honest" || !ok:
				if ok {
					data, err, out = rec, nil, "bytes:"+hxb(rec)
				}
			case plan == "noresp" && len(rec) >= 24: // scripted: a hit record whose response part is gone (refused)
				d := append([]byte(nil), rec[0:4]...)
				d = append(d, 0, 0, 0, 0)
				d = append(d, rec[len(rec)-16:]...)
				data, err, out = d, nil, "bytes:"+hxb(d)
			case plan == "badcode" && len(rec) >= 40: // scripted: the stored response's status code is not an HTTP status (refused)
				d := append([]byte(nil), rec...)
				for i := 8; i+4 <= len(d)-16; i++ {
					if binary.BigEndian.Uint32(d[i:i+4]) == 200 {
						binary.BigEndian.PutUint32(d[i:i+4], 99999)
						break
					}
				}
				data, err, out = d, nil, "bytes:"+hxb(d)
			case plan == "noexp" && len(rec) >= 24: // scripted: a record without an expiry (refused)
				d := append([]byte(nil), rec...)
				for i := len(d) - 8; i < len(d); i++ {
					d[i] = 0
				}
				data, err, out = d, nil, "bytes:"+hxb(d)
			case plan == "truncate": // scripted: the record cut in half (must be refused, whatever its content)
				d := append([]byte(nil), rec[:len(rec)/2]...)
				data, err, out = d, nil, "bytes:"+hxb(d)
			default: // mutate
				d, kind := mutateRecord(run.mutRng, rec)
				stat("mutated-" + kind)
				data, err, out = d, nil, "bytes:"+hxb(d)
			}
			if t != nil {
				t.loadOut = out
			}
			return data, err, true
		}
		p.store.onSet = func(key string) error {
			if !run.savePlan {
				return errors.New("store write failed")
			}
			return nil
		}
		p.store.preSet = func(key string) {
			if g := run.setGate; g != nil && key == run.setKey {
				run.setAt <- struct{}{}
				<-g
			}
		}
		p.store.preDel = func(key string) {
			if g := run.delGate; g != nil {
				run.delAt <- struct{}{}
				<-g
			}
		}
		p.store.onDel = func(key string) error {
			if !run.delPlan {
				return errors.New("store delete failed")
			}
			return nil
		}
	}
	p.setScript(func(c *elton.Context) error {
		t := run.self()
		if t == nil {
			return errors.New("unexpected upstream call")
		}
		t.report <- "upstream"
		<-t.release
		a := t.answer
		switch a.kind {
		case "error":
			return errors.New("upstream failed")
		case "panic":
			panic("upstream handler panic")
		}
		h := c.Header()
		h["Content-Type"] = []string{"image/png"}
		h["Etag"] = []string{`"same-for-every-answer"`} // a validator says nothing about which fetch a body came from
		if a.kind == "cacheable" {
			h["Cache-Control"] = []string{fmt.Sprintf("max-age=%d", a.ttl)}
		} else {
			h["Cache-Control"] = []string{"no-store"}
		}
		c.StatusCode = 200
		c.BodyBuffer = bytes.NewBufferString(fmt.Sprintf("r%d", a.rid))
		return nil
	})
	hfpSec := map[string]int{"300s": 300, "2s": 2, "0s": 0}[hfp]
	emit("sched", "begin", itoa(int64(seq)), itoa(now), b2s(withStore), itoa(int64(hfpSec)))
	nkeys := 1 + cr.intn(2)
	maxThreads := 2 + cr.intn(5)
	steps := 12 + cr.intn(40)
	if script != nil {
		steps, maxThreads, nkeys = len(script), 100, 2
	}
	idOf := func(t *schedThread) string { return itoa(int64(t.id)) }
	posLine := func(t *schedThread) string {
		if t.pos == "finished" {
			return "finished:" + t.result
		}
		return t.pos
	}
	// after a completer took the lock: deliver to parked heads, then expect "drained"
	pump := func(e interface{}) {
		c := run.draining[e]
		for c != nil {
			q := run.queue[e]
			if len(q) == 0 {
				if c.pos != "drained" {
					run.await(c)
					emit("sched", "drained", idOf(c), "=>", posLine(c))
				}
				return
			}
			u := q[0]
			if u.pos != "parked" {
				return // completer blocked on a waiter that has not parked yet
			}
			run.await(u) // get.woken
			run.queue[e] = q[1:]
			emit("sched", "send", idOf(c), idOf(u), "=>", posLine(u))
		}
	}
	startThread := func(t *schedThread) {
		run.threads = append(run.threads, t)
		started := make(chan struct{})
		go func() {
			run.mu.Lock()
			run.byGoid[goid()] = t
			run.mu.Unlock()
			close(started)
			res := "panic"
			func() {
				defer func() {
					if rec := recover(); rec != nil {
						res = "panic"
					}
				}()
				w := p.do(t.method, "s.test", schedKeyURI(t.key), http.Header{}, nil)
				res = w.Header().Get("X-Status") + "|" + w.Header().Get("Age") + "|" + w.Body.String() + "|" + itoa(int64(w.Code))
			}()
			t.result = res
			t.report <- "finished"
		}()
		<-started
	}
	finish := func(t *schedThread) {
		p := run.await(t)
		if p != "BLOCKED" && !strings.HasPrefix(p, "finished") {
			t.pos = "UNEXPECTED:" + p
		}
	}
	for step := 0; step < steps && !run.blocked; step++ {
		type action struct {
			name string
			t    *schedThread
		}
		var acts []action
		active := 0
		for _, t := range run.threads {
			switch t.pos {
			case "get.enter":
				if run.draining[t.entry] == nil {
					acts = append(acts, action{"get", t})
				}
			case "get.registered":
				acts = append(acts, action{"park", t})
			case "get.woken":
				acts = append(acts, action{"resume", t})
			case "upstream":
				acts = append(acts, action{"upEnd", t}, action{"upEnd", t})
			case "cacheable.enter", "hitForPass.enter":
				if run.draining[t.entry] == nil {
					acts = append(acts, action{"complete", t}, action{"complete", t})
				}
			case "drained":
				acts = append(acts, action{"saved", t}, action{"saved", t})
			case "age.enter":
				if run.draining[t.entry] == nil { // Age() takes the read lock
					acts = append(acts, action{"age", t})
				}
			}
			if t.pos != "finished" {
				active++
			}
		}
		if len(run.threads) < maxThreads {
			acts = append(acts, action{"arrive", nil}, action{"arrive", nil})
		}
		acts = append(acts, action{"tick", nil})
		if cr.chance(25) {
			acts = append(acts, action{"purge", nil})
		}
		if active == 0 && len(run.threads) > 0 && cr.chance(30) {
			acts = append(acts, action{"crash", nil})
		}
		if cr.chance(12) {
			acts = append(acts, action{"reload", nil})
		}
		a := acts[cr.intn(len(acts))]
		// scripted step: override the random choice and its parameters
		var sp []string
		if script != nil {
			sp = strings.Split(script[step], ":")
			a = action{name: sp[0]}
			if sp[0] != "arrive" && sp[0] != "tick" && sp[0] != "purge" && sp[0] != "purgeRace" && sp[0] != "purgeAck" && sp[0] != "purgeOther" && sp[0] != "arriveRace" && sp[0] != "reload" && sp[0] != "crash" {
				ti, _ := strconv.Atoi(sp[1])
				if ti >= len(run.threads) {
					emit("sched", "script-error", script[step])
					break
				}
				a.t = run.threads[ti]
			}
		}
		arg := func(i int, def string) string {
			if sp != nil && len(sp) > i {
				return sp[i]
			}
			return def
		}
		switch a.name {
		case "arrive":
			t := &schedThread{id: len(run.threads), key: cr.intn(nkeys), method: "GET", report: make(chan string, 1), release: make(chan struct{}), pos: "running"}
			if cr.chance(8) {
				t.method = "POST"
			}
			if sp != nil {
				t.key, _ = strconv.Atoi(arg(1, "0"))
				t.method = "GET"
			}
			startThread(t)
			run.await(t)
			emit("sched", "arrive", idOf(t), itoa(int64(t.key)), hx(t.method), "=>", posLine(t), itoa(int64(run.eidx(t.entry))))
		case "get":
			t := a.t
			plans := []string{"honest", "honest", "honest", "error", "mutate", "mutate"}
			if p.store != nil {
				p.store.mu.Lock()
				_, has := p.store.m["GET s.test "+schedKeyURI(t.key)]
				p.store.mu.Unlock()
				if has {
					// a record exists: it is worth returning it damaged more often
					plans = []string{"honest", "honest", "error", "mutate", "mutate", "mutate"}
				}
			}
			run.loadPlan = arg(2, plans[cr.intn(6)])
			t.loadOut = "none"
			run.rel(t)
			run.await(t)
			if t.pos == "get.registered" {
				run.waiters[t.entry] = append(run.waiters[t.entry], t)
			}
			emit("sched", "get", idOf(t), hx(t.loadOut), "=>", posLine(t))
		case "park":
			t := a.t
			run.rel(t)
			t.pos = "parked"
			emit("sched", "park", idOf(t), "=>", posLine(t))
			if run.draining[t.entry] != nil {
				pump(t.entry)
			}
		case "resume":
			t := a.t
			run.rel(t)
			run.await(t)
			emit("sched", "resume", idOf(t), "=>", posLine(t))
		case "upEnd":
			t := a.t
			run.nextRid++
			kinds := []string{"cacheable", "cacheable", "cacheable", "nostore", "error", "panic"}
			t.answer = upAnswer{kind: kinds[cr.intn(len(kinds))], ttl: []int{1, 2, 3, 60}[cr.intn(4)], rid: run.nextRid}
			if sp != nil {
				t.answer.kind = arg(2, "cacheable")
				t.answer.ttl, _ = strconv.Atoi(arg(3, "60"))
			}
			run.rel(t)
			run.await(t)
			emit("sched", "upEnd", idOf(t), hx(t.answer.kind), itoa(int64(t.answer.ttl)), itoa(int64(t.answer.rid)), "=>", posLine(t))
		case "complete":
			t := a.t
			e := t.entry
			run.draining[e] = t
			run.queue[e] = run.waiters[e]
			run.waiters[e] = nil
			run.rel(t)
			// the completion's critical section up to the detaching of the waiter list is one atomic step
			if run.await(t) == "complete.detached" {
				run.rel(t)
				t.pos = "draining"
			}
			emit("sched", "complete", idOf(t), "=>", posLine(t))
			pump(e)
		case "saved":
			t := a.t
			run.savePlan = cr.chance(75)
			if sp != nil {
				run.savePlan = arg(2, "1") == "1"
			}
			run.rel(t)
			finish(t)
			delete(run.draining, t.entry)
			delete(run.queue, t.entry)
			emit("sched", "saved", idOf(t), b2s(run.savePlan), "=>", posLine(t))
		case "saveRace":
			// two completions of DIFFERENT keys persist their records at the same time: the first is held inside
			// the store's Set (it has handed over its bytes), the second runs to the end, then the first continues.
			// Each record must still be its own.
			tA := a.t
			tbi, _ := strconv.Atoi(arg(2, "1"))
			if tbi >= len(run.threads) {
				emit("sched", "script-error", script[step])
				break
			}
			tB := run.threads[tbi]
			run.savePlan = true
			run.setKey = "GET s.test " + schedKeyURI(tA.key)
			run.setGate, run.setAt = make(chan struct{}), make(chan struct{}, 1)
			run.rel(tA)
			held := false
			select {
			case <-run.setAt:
				held = true
			case p := <-tA.report:
				tA.pos = p // no store (or nothing saved): A is already through
			case <-time.After(schedWatchdog):
				run.blocked = true
			}
			run.rel(tB)
			finish(tB)
			if held {
				close(run.setGate)
				finish(tA)
			}
			run.setGate = nil
			for _, t := range []*schedThread{tA, tB} {
				delete(run.draining, t.entry)
				delete(run.queue, t.entry)
				emit("sched", "saved", idOf(t), "1", "=>", posLine(t))
			}
		case "age":
			t := a.t
			run.rel(t)
			finish(t)
			emit("sched", "age", idOf(t), "=>", posLine(t))
		case "tick":
			d := int64(1 + cr.intn(3))
			if cr.chance(10) {
				d = 300
			}
			if sp != nil {
				dd, _ := strconv.Atoi(arg(1, "1"))
				d = int64(dd)
			}
			now += d
			setClock(now)
			emit("sched", "tick", itoa(d))
		case "purge":
			k := cr.intn(nkeys)
			run.delPlan = cr.chance(60)
			if sp != nil {
				k, _ = strconv.Atoi(arg(1, "0"))
				run.delPlan = arg(2, "1") == "1"
			}
			if sp == nil && cr.chance(12) {
				// a purge that names a cache which does not exist touches nothing (model: no event at all)
				// … whether it is called directly or arrives at the admin endpoint with ?cache=no-such-cache
				if cr.chance(50) {
					run.ctl(func() {
						if _, err := adminPurge("no-such-cache", "GET s.test "+schedKeyURI(k)); err != nil {
							stat("admin-unavailable")
						}
					})
				} else {
					run.ctl(func() { cache.RemoveHTTPCache("no-such-cache", []byte("GET s.test "+schedKeyURI(k))) })
				}
				emit("sched", "purge-other", itoa(int64(k)))
				break
			}
			// half of the random purges go through the admin server's endpoint, as an operator's would
			viaAdmin := sp == nil && cr.chance(50)
			run.ctl(func() {
				if viaAdmin {
					code, err := adminPurge("c1", "GET s.test "+schedKeyURI(k))
					if err == nil && code == 204 {
						return
					}
					if err != nil && adminAddr == "" {
						// no admin server on this machine right now (no port to be had): purge directly
						stat("admin-unavailable")
					} else {
						fmt.Fprintf(os.Stderr, "admin purge: code=%d err=%v\n", code, err)
						run.blocked = true
						return
					}
				}
				cache.RemoveHTTPCache("c1", []byte("GET s.test "+schedKeyURI(k)))
			})
			emit("sched", "purge", itoa(int64(k)), b2s(run.delPlan))
		case "arriveRace":
			// two requests for a key that is not resident, the first one held inside the dispatcher's
			// get-or-create (where its entry is built): with the shard mutex held across lookup and insert
			// the second cannot get past the dispatcher before the first has installed its entry
			k, _ := strconv.Atoi(arg(1, "0"))
			run.newGate = true
			t1 := &schedThread{id: len(run.threads), key: k, method: "GET", report: make(chan string, 1), release: make(chan struct{}), pos: "running"}
			startThread(t1)
			run.await(t1)
			t2 := &schedThread{id: len(run.threads), key: k, method: "GET", report: make(chan string, 1), release: make(chan struct{}), pos: "running"}
			raced := t1.pos == "entry.new"
			if raced {
				startThread(t2)
				select {
				case p := <-t2.report:
					t2.pos = p
				case <-time.After(300 * time.Millisecond):
				}
			}
			run.newGate = false
			if raced {
				run.rel(t1)
				run.await(t1)
			}
			emit("sched", "arrive", idOf(t1), itoa(int64(t1.key)), hx(t1.method), "=>", posLine(t1), itoa(int64(run.eidx(t1.entry))))
			if !raced {
				// the key was resident (or the build has no hook inside the dispatcher): plain second arrival
				startThread(t2)
			}
			if t2.pos == "entry.new" {
				run.rel(t2)
			}
			if t2.pos == "entry.new" || t2.pos == "running" {
				run.await(t2)
			}
			emit("sched", "arrive", idOf(t2), itoa(int64(t2.key)), hx(t2.method), "=>", posLine(t2), itoa(int64(run.eidx(t2.entry))))
		case "purgeOther":
			k, _ := strconv.Atoi(arg(1, "0"))
			if arg(2, "admin") == "admin" {
				run.ctl(func() {
					if _, err := adminPurge("no-such-cache", "GET s.test "+schedKeyURI(k)); err != nil {
						stat("admin-unavailable")
					}
				})
			} else {
				run.ctl(func() { cache.RemoveHTTPCache("no-such-cache", []byte("GET s.test "+schedKeyURI(k))) })
			}
			emit("sched", "purge-other", itoa(int64(k)))
		case "purgeAck":
			// a purge through the admin server's endpoint, held inside its store delete: as long as the delete has not
			// been carried out the operator has no answer (an acknowledged purge is a completed purge — after the
			// 204 a kill or a stop must not bring the record back)
			k, _ := strconv.Atoi(arg(1, "0"))
			run.delPlan = true
			run.delGate, run.delAt = make(chan struct{}), make(chan struct{}, 1)
			acked := make(chan int, 1)
			go func() {
				code, err := adminPurge("c1", "GET s.test "+schedKeyURI(k))
				if err != nil {
					code = -1
				}
				acked <- code
			}()
			early, inDelete, code := false, false, 0
			select {
			case <-run.delAt:
				inDelete = true
			case code = <-acked:
				early = true // answered before the delete was even started (or there is no admin server: code -1)
			case <-time.After(schedWatchdog):
				run.blocked = true
			}
			if inDelete {
				// (long enough to see an answer that was only put off: a purge must not be acknowledged after "a while"
				// either, as long as the delete has not been carried out)
				select {
				case code = <-acked:
					early = true
				case <-time.After(2600 * time.Millisecond):
				}
			}
			close(run.delGate)
			if !early && !run.blocked {
				select {
				case code = <-acked:
				case <-time.After(schedWatchdog):
					run.blocked = true
				}
			} else if early {
				// let the belated delete finish before the schedule goes on
				select {
				case <-run.delAt:
				case <-time.After(300 * time.Millisecond):
				}
				time.Sleep(20 * time.Millisecond)
			}
			run.delGate = nil
			if code == -1 {
				// no admin server on this machine right now: purge directly, nothing to judge
				run.ctl(func() { cache.RemoveHTTPCache("c1", []byte("GET s.test "+schedKeyURI(k))) })
				stat("admin-unavailable")
			} else {
				emit("sched", "purgeack", itoa(int64(k)), b2s(early), itoa(int64(code)))
			}
			emit("sched", "purge", itoa(int64(k)), "1")
		case "purgeRace":
			// a purge held inside its store delete while a request for the same key arrives: with the delete
			// under the shard lock the request cannot look the key up before the purge is complete
			k, _ := strconv.Atoi(arg(1, "0"))
			run.delPlan = true
			run.delGate, run.delAt = make(chan struct{}), make(chan struct{}, 1)
			purged := make(chan struct{})
			go func() {
				cache.RemoveHTTPCache("c1", []byte("GET s.test "+schedKeyURI(k)))
				close(purged)
			}()
			inDelete := true
			select {
			case <-run.delAt:
			case <-purged:
				inDelete = false // no store: nothing to hold
			case <-time.After(schedWatchdog):
				run.blocked = true
			}
			t := &schedThread{id: len(run.threads), key: k, method: "GET", report: make(chan string, 1), release: make(chan struct{}), pos: "running"}
			startThread(t)
			early := false
			if inDelete && !run.blocked {
				select {
				case p := <-t.report:
					t.pos, early = p, true
				case <-time.After(300 * time.Millisecond):
				}
			}
			emit("sched", "purge", itoa(int64(k)), "1")
			if early {
				// the request got in while the record is still in the store: let it look the key up now
				emit("sched", "arrive", idOf(t), itoa(int64(t.key)), hx(t.method), "=>", posLine(t), itoa(int64(run.eidx(t.entry))))
				run.loadPlan = "honest"
				t.loadOut = "none"
				run.rel(t)
				run.await(t)
				if t.pos == "get.registered" {
					run.waiters[t.entry] = append(run.waiters[t.entry], t)
				}
				emit("sched", "get", idOf(t), hx(t.loadOut), "=>", posLine(t))
			}
			if inDelete {
				close(run.delGate)
				select {
				case <-purged:
				case <-time.After(schedWatchdog):
					run.blocked = true
				}
			}
			run.delGate = nil
			if !early {
				run.await(t)
				emit("sched", "arrive", idOf(t), itoa(int64(t.key)), hx(t.method), "=>", posLine(t), itoa(int64(run.eidx(t.entry))))
			}
		case "reload":
			// a configuration reload that leaves this cache as it is (main.update calls ResetDispatchers on every
			// change of any section): requests in flight and resident entries are not disturbed
			run.ctl(func() { cache.ResetDispatchers(withSibling(p.cacheCfg)) })
			emit("sched", "reload")
		case "crash":
			// restart with the same store: every entry gone (no request is in flight here)
			run.ctl(func() {
				cache.ResetDispatchers(nil)
				cache.ResetDispatchers(withSibling(p.cacheCfg))
			})
			run.waiters = map[interface{}][]*schedThread{}
			emit("sched", "crash")
		}
	}
	// wind down: let everything finish so no goroutine is left behind
	for guard := 0; guard < 400 && !run.blocked; guard++ {
		progressed := false
		for _, t := range run.threads {
			switch t.pos {
			case "get.enter":
				if run.draining[t.entry] == nil {
					run.loadPlan = "honest"
					t.loadOut = "none"
					run.rel(t)
					run.await(t)
					if t.pos == "get.registered" {
						run.waiters[t.entry] = append(run.waiters[t.entry], t)
					}
					emit("sched", "get", idOf(t), hx(t.loadOut), "=>", posLine(t))
					progressed = true
				}
			case "get.registered":
				run.rel(t)
				t.pos = "parked"
				emit("sched", "park", idOf(t), "=>", posLine(t))
				if run.draining[t.entry] != nil {
					pump(t.entry)
				}
				progressed = true
			case "get.woken":
				run.rel(t)
				run.await(t)
				emit("sched", "resume", idOf(t), "=>", posLine(t))
				progressed = true
			case "upstream":
				run.nextRid++
				t.answer = upAnswer{kind: "nostore", ttl: 1, rid: run.nextRid}
				run.rel(t)
				run.await(t)
				emit("sched", "upEnd", idOf(t), hx(t.answer.kind), "1", itoa(int64(t.answer.rid)), "=>", posLine(t))
				progressed = true
			case "cacheable.enter", "hitForPass.enter":
				if run.draining[t.entry] == nil {
					e := t.entry
					run.draining[e] = t
					run.queue[e] = run.waiters[e]
					run.waiters[e] = nil
					run.rel(t)
					if run.await(t) == "complete.detached" {
						run.rel(t)
						t.pos = "draining"
					}
					emit("sched", "complete", idOf(t), "=>", posLine(t))
					pump(e)
					progressed = true
				}
			case "drained":
				run.savePlan = true
				run.rel(t)
				finish(t)
				delete(run.draining, t.entry)
				delete(run.queue, t.entry)
				emit("sched", "saved", idOf(t), "1", "=>", posLine(t))
				progressed = true
			case "age.enter":
				if run.draining[t.entry] == nil {
					run.rel(t)
					finish(t)
					emit("sched", "age", idOf(t), "=>", posLine(t))
					progressed = true
				}
			}
		}
		if !progressed {
			break
		}
	}
	stuck := 0
	for _, t := range run.threads {
		if t.pos != "finished" {
			stuck++
		}
	}
	stat("schedules")
	if run.blocked {
		stat("blocked")
	}
	emit("sched", "end", itoa(int64(stuck)), b2s(run.blocked))
	if run.blocked {
		// goroutines are stranded in gates; do not reuse this process state for too long
		time.Sleep(10 * time.Millisecond)
	}
	return run.blocked
}

func errNotFound() error { return storeErrNotFound }
