package main

import (
	"fmt"
	"io"
	"net/http"
	"net/http/httptest"
	"net/url"
	"strings"
	"sync"
	"time"

	"github.com/vicanso/elton"
	"github.com/vicanso/elton/middleware"
	"github.com/vicanso/pike/cache"
	"github.com/vicanso/pike/config"
	"github.com/vicanso/pike/location"
	"github.com/vicanso/pike/server"
	"github.com/vicanso/pike/upstream"
)

// suite proxy: client request x location configuration x upstream option through the real request
// path AND the real transport to a loopback origin that behaves like an origin (ETag / 304,
// Range / 206).  Observed: exactly what the origin received, what the client got, whether the
// request object was restored.

func init() { suites["proxy"] = suiteProxy }

const originBody = "0123456789abcdefghijklmnopqrstuvwxyz"
const originETag = "\"v1\""

type seenReq struct {
	method, path, rawQuery, body string
	header                       http.Header
	rawPath                      string // the path exactly as it stood in the request line
}

func suiteProxy(r *rng, n int) {
	installClock()
	var mu sync.Mutex
	var seen []seenReq
	cacheable := true
	originAge := "" // the origin is itself a cache: it states the age of what it hands out
	origin := httptest.NewServer(http.HandlerFunc(func(w http.ResponseWriter, req *http.Request) {
		b, _ := io.ReadAll(req.Body)
		mu.Lock()
		rp := req.RequestURI
		if i := strings.IndexByte(rp, '?'); i >= 0 {
			rp = rp[:i]
		}
		seen = append(seen, seenReq{req.Method, req.URL.Path, req.URL.RawQuery, string(b), req.Header.Clone(), rp})
		cc := cacheable
		age := originAge
		mu.Unlock()
		if age != "" {
			w.Header().Set("Age", age)
		}
		h := w.Header()
		h.Set("Etag", originETag)
		h.Set("Content-Type", "image/png")
		h.Set("X-Origin", "o1")
		h.Add("X-Origin", "o2")
		if cc {
			h.Set("Cache-Control", "max-age=60")
		} else {
			h.Set("Cache-Control", "no-store")
		}
		if inm := req.Header.Get("If-None-Match"); inm == originETag {
			w.WriteHeader(304)
			return
		}
		if rg := req.Header.Get("Range"); strings.HasPrefix(rg, "bytes=") {
			var a, b2 int
			if _, err := fmt.Sscanf(rg, "bytes=%d-%d", &a, &b2); err == nil && a <= b2 && b2 < len(originBody) {
				h.Set("Content-Range", fmt.Sprintf("bytes %d-%d/%d", a, b2, len(originBody)))
				w.WriteHeader(206)
				io.WriteString(w, originBody[a:b2+1])
				return
			}
		}
		w.WriteHeader(200)
		if req.Method != "HEAD" {
			io.WriteString(w, originBody)
		}
	}))
	defer origin.Close()
	for i := 0; i < n; i++ {
		cr := r.fork(uint64(i))
		lc := config.LocationConfig{Name: "l1", Upstream: "u1"}
		var rewrites, reqH, respH, qs []string
		switch cr.intn(6) {
		case 4:
			// the documented two-wildcard form
			rewrites = []string{"/rest/*/user/*:/$1/$2"}
		case 5:
			rewrites = []string{cr.pick([]string{"/rest/*/user/*:/u/$2/of/$1", "/*/user/*:/$2-$1", "/rest/*/x*/*:/$3/$2/$1"}), "/api/*:/v2/$1"}
		case 0:
			rewrites = []string{"/api/*:/$1"}
		case 1:
			rewrites = []string{"/old:/new"}
		case 2:
			rewrites = []string{"/api/*:/v2/$1", "/v2/users:/people"}
		}
		if cr.chance(15) {
			// a value with a dollar sign inside is a literal (only a value that STARTS with $ names an environment variable)
			reqH = append(reqH, "X-Tok:to$ken"+itoa(int64(cr.intn(9))))
			respH = append(respH, "X-Price:5$USD")
		}
		if cr.chance(50) {
			reqH = append(reqH, "X-Via:pike")
			if cr.chance(40) {
				reqH = append(reqH, "X-Own:added")
			}
		}
		if cr.chance(50) {
			respH = append(respH, "X-Resp:r1")
			if cr.chance(30) {
				respH = append(respH, "X-Origin:o3")
			}
		}
		if cr.chance(40) {
			qs = append(qs, "k:v")
			if cr.chance(40) {
				qs = append(qs, "a:9")
			}
			if cr.chance(35) {
				// values and names that the encoding must keep apart from the syntax of a query string, a second value
				// for a name, names that sort before the others
				qs = append(qs, cr.pick([]string{"k:v w", "a&b:c=d", "pct:100%", "B:caf\xc3\xa9", "k:x+y", "sl:a/b?c#d", "~t.i-l_d:ok"}))
			}
		}
		lc.Rewrites, lc.ReqHeaders, lc.RespHeaders, lc.QueryStrings = rewrites, reqH, respH, qs
		upAE := cr.pick([]string{"", "", "gzip", "br"})
		mu.Lock()
		cacheable = cr.chance(70)
		cc := cacheable
		originAge = cr.pick([]string{"", "", "7", "31", "60", "3600"})
		oAge := originAge
		mu.Unlock()
		cache.ResetDispatchers(nil)
		cache.ResetDispatchers([]config.CacheConfig{{Name: "c1", Size: 100, HitForPass: "300s"}})
		// (the upstream under test is not the first of the configuration either: what is configured for its neighbour
		// — an Accept-Encoding, a policy — is the neighbour's)
		upstream.Reset([]config.UpstreamConfig{
			{Name: "u0", AcceptEncoding: "deflate", Policy: "first", Servers: []config.UpstreamServerConfig{{Addr: origin.URL}}},
			{Name: "u1", AcceptEncoding: upAE, Servers: []config.UpstreamServerConfig{{Addr: origin.URL}}},
		})
		waitUpstreamHealthy("u1")
		// the location under test is neither the only nor the first location of the configuration: what is configured
		// for the others (headers, query parameters, rewrites) must not show on its requests
		location.Reset([]config.LocationConfig{
			{Name: "l0", Upstream: "u1", Prefixes: []string{"/never-requested"}, QueryStrings: []string{"tok:secret0"}, ReqHeaders: []string{"X-L0:zero"}, RespHeaders: []string{"X-L0-Resp:zero"}, Rewrites: []string{"/api/*:/l0/$1"}},
			lc,
			{Name: "l2", Upstream: "u1", Prefixes: []string{"/never-requested-either"}, QueryStrings: []string{"tok:secret2", "k:other"}, ReqHeaders: []string{"X-L2:two"}},
		})
		s := server.NewServer(server.ServerOption{Addr: ":0", Locations: []string{"l1"}, Cache: "c1", CompressMinLength: 1 << 20})
		e := elton.New()
		e.Use(middleware.NewDefaultError())
		e.Use(middleware.NewDefaultFresh())
		e.Use(server.NewResponder())
		e.Use(server.NewCache(s))
		e.Use(server.NewProxy(s))
		e.ALL("/*", func(c *elton.Context) error { return nil })
		p := &pipeline{e: e}
		// the configured name:value pairs go to the judge as they are: what the location's query must look like on the
		// wire (url.Values.Encode: names sorted, everything escaped) is computed by the Lean model (Model/Query.lean)
		emit("proxy", "case", itoa(int64(i)), encList(rewrites), encList(reqH), encList(respH), encList(qs), hx(upAE), b2s(cc), hx(oAge))
		path := cr.pick([]string{"/api/users/1", "/old", "/plain/x", "/api/a b", "/api/", "/rest/v1/user/42", "/rest/a/user/b/user/c",
			"/rest//user/", "/rest/v1/xy/z", "/rest/v 1/user/4 2", "/api/rest/q/user/7", "/files/a%2Fb", "/plain/x%3By/c%2fd", "/plain/50%25"})
		rawQ := cr.pick([]string{"", "", "b=2&a=1", "flag", "q=a%20b&q=c", "z=&y", "x=1&x=2&k=old"})
		for reqNo := 0; reqNo < 2; reqNo++ {
			method := "GET"
			var body []byte
			h := http.Header{}
			if reqNo == 0 {
				method = cr.pick([]string{"GET", "GET", "GET", "HEAD", "POST", "PUT", "DELETE"})
				if method == "POST" || method == "PUT" {
					body = []byte(fmt.Sprintf("payload-%d", cr.intn(1000)))
				}
				if cr.chance(35) {
					h["If-None-Match"] = []string{cr.pick([]string{originETag, "\"other\""})}
				}
				if cr.chance(20) {
					h["If-Modified-Since"] = []string{"Mon, 01 Jan 2024 00:00:00 GMT"}
				}
				if cr.chance(30) {
					h["Range"] = []string{cr.pick([]string{"bytes=0-9", "bytes=5-7"})}
					if cr.chance(40) {
						h["If-Range"] = []string{originETag}
					}
				}
				if cr.chance(50) {
					h["X-Own"] = []string{"1", "2"}
				}
				if cr.chance(40) {
					h["Cookie"] = []string{"sid=abc"}
					h["Authorization"] = []string{"Bearer t"}
				}
				if cr.chance(60) {
					h["Accept-Encoding"] = []string{cr.pick([]string{"gzip", "br", "gzip, br", "identity"})}
				}
				h["User-Agent"] = []string{"verif/1"}
			}
			uri := path
			uriEsc := strings.ReplaceAll(path, " ", "%20")
			if rawQ != "" {
				uriEsc += "?" + rawQ
			}
			_ = uri
			orig := h.Clone()
			mu.Lock()
			seen = nil
			mu.Unlock()
			req := buildRequest(method, "p.test", uriEsc, h, body)
			w := httptest.NewRecorder()
			p.e.ServeHTTP(w, req)
			mu.Lock()
			sn := append([]seenReq(nil), seen...)
			mu.Unlock()
			up := "-"
			if len(sn) == 1 {
				up = hx(sn[0].method) + "|" + hx(sn[0].path) + "|" + hx(sn[0].rawQuery) + "|" + hx(sn[0].body) + "|" + hxHeader(sn[0].header) + "|" + hx(sn[0].rawPath)
			} else if len(sn) > 1 {
				up = "multiple"
			}
			decPath, _ := url.PathUnescape(strings.ReplaceAll(path, " ", "%20"))
			emit("proxy", "req", itoa(int64(reqNo)), hx(method), hx(decPath), hx(rawQ), hxHeader(orig), hxb(body), "=>",
				up, itoa(int64(w.Code)), hx(w.Header().Get("X-Status")), hxHeader(w.Header()), hxb(w.Body.Bytes()), hxHeader(req.Header),
				hx(req.URL.Path), hx(req.URL.RawQuery), hx(strings.ReplaceAll(path, " ", "%20")))
			stat("req-" + method)
		}
	}
	proxyTimeoutHistory()
	proxyHfpConditionalHistory()
}

// directed history on a hit-for-pass key: the first answer is uncacheable, later ones would be cacheable; a client
// with a matching validator (or a Range) gets its 304 (206) — and the next client, without such headers, must get
// the full 200 response, not a replay of that answer
func proxyHfpConditionalHistory() {
	var mu sync.Mutex
	n := 0
	origin := httptest.NewServer(http.HandlerFunc(func(w http.ResponseWriter, req *http.Request) {
		mu.Lock()
		n++
		first := n == 1
		mu.Unlock()
		h := w.Header()
		h.Set("Etag", originETag)
		h.Set("Content-Type", "image/png")
		if first {
			h.Set("Cache-Control", "no-store")
		} else {
			h.Set("Cache-Control", "max-age=60")
		}
		if req.Header.Get("If-None-Match") == originETag {
			w.WriteHeader(304)
			return
		}
		if req.Header.Get("Range") == "bytes=0-4" {
			h.Set("Content-Range", fmt.Sprintf("bytes 0-4/%d", len(originBody)))
			w.WriteHeader(206)
			io.WriteString(w, originBody[:5])
			return
		}
		w.WriteHeader(200)
		io.WriteString(w, originBody)
	}))
	defer origin.Close()
	var out []string
	for _, hdr := range []http.Header{{"If-None-Match": []string{originETag}}, {"Range": []string{"bytes=0-4"}}} {
		mu.Lock()
		n = 0
		mu.Unlock()
		cache.ResetDispatchers(nil)
		cache.ResetDispatchers([]config.CacheConfig{{Name: "c1", Size: 100, HitForPass: "300s"}})
		upstream.Reset([]config.UpstreamConfig{{Name: "u1", Servers: []config.UpstreamServerConfig{{Addr: origin.URL}}}})
		waitUpstreamHealthy("u1")
		location.Reset([]config.LocationConfig{{Name: "l1", Upstream: "u1"}})
		s := server.NewServer(server.ServerOption{Addr: ":0", Locations: []string{"l1"}, Cache: "c1", CompressMinLength: 1 << 20})
		e := elton.New()
		e.Use(middleware.NewDefaultError())
		e.Use(middleware.NewDefaultFresh())
		e.Use(server.NewResponder())
		e.Use(server.NewCache(s))
		e.Use(server.NewProxy(s))
		e.ALL("/*", func(c *elton.Context) error { return nil })
		do := func(h http.Header) *httptest.ResponseRecorder {
			w := httptest.NewRecorder()
			e.ServeHTTP(w, buildRequest("GET", "p.test", "/hfp", h, nil))
			return w
		}
		do(http.Header{})       // 1: uncacheable -> the key becomes hit-for-pass
		w2 := do(hdr)           // 2: conditional / range client
		w3 := do(http.Header{}) // 3: plain client
		// the range client's 206 keeps the upstream's Content-Range
		if hdr.Get("Range") != "" && w2.Code == 206 && w2.Header().Get("Content-Range") != fmt.Sprintf("bytes 0-4/%d", len(originBody)) {
			w2.Code = 2060 // reported as a changed answer
		}
		out = append(out, itoa(int64(w2.Code)), itoa(int64(w3.Code)), b2s(w3.Body.String() == originBody), hx(w3.Header().Get("X-Status")))
	}
	emit(append([]string{"proxy", "hfpseq"}, out...)...)
	stat("hfp-conditional-histories")
}

// directed history: an upstream that does not answer.  The location's proxy timeout (300 ms) must end the fetch
// with an error, and a second request for the same URL that was coalesced behind it must be released too.
func proxyTimeoutHistory() {
	release := make(chan struct{})
	hung := httptest.NewServer(http.HandlerFunc(func(w http.ResponseWriter, req *http.Request) {
		select {
		case <-release:
		case <-time.After(4 * time.Second):
		}
		w.Header().Set("Cache-Control", "max-age=60")
		w.WriteHeader(200)
		io.WriteString(w, "late")
	}))
	defer hung.Close()
	defer close(release)
	cache.ResetDispatchers(nil)
	cache.ResetDispatchers([]config.CacheConfig{{Name: "c1", Size: 100, HitForPass: "300s"}})
	upstream.Reset([]config.UpstreamConfig{{Name: "u1", Servers: []config.UpstreamServerConfig{{Addr: hung.URL}}}})
	waitUpstreamHealthy("u1")
	location.Reset([]config.LocationConfig{{Name: "l1", Upstream: "u1", ProxyTimeout: "300ms"}})
	s := server.NewServer(server.ServerOption{Addr: ":0", Locations: []string{"l1"}, Cache: "c1", CompressMinLength: 1 << 20})
	e := elton.New()
	e.Use(middleware.NewDefaultError())
	e.Use(server.NewResponder())
	e.Use(server.NewCache(s))
	e.Use(server.NewProxy(s))
	e.ALL("/*", func(c *elton.Context) error { return nil })
	type res struct {
		code int
		ms   int64
	}
	out := make(chan res, 2)
	one := func() {
		t0 := time.Now()
		w := httptest.NewRecorder()
		e.ServeHTTP(w, buildRequest("GET", "p.test", "/hang", http.Header{}, nil))
		out <- res{w.Code, time.Since(t0).Milliseconds()}
	}
	go one()
	time.Sleep(50 * time.Millisecond)
	go one() // coalesced behind the first
	var rs []res
	deadline := time.After(3 * time.Second)
	for len(rs) < 2 {
		select {
		case r := <-out:
			rs = append(rs, r)
		case <-deadline:
			rs = append(rs, res{-1, 3000})
		}
	}
	emit("proxy", "hang", "300", itoa(int64(rs[0].code)), itoa(rs[0].ms), itoa(int64(rs[1].code)), itoa(rs[1].ms))
	stat("hang-histories")
}

func headerEqIgnoringEmptyAE(got, orig http.Header) bool {
	g := got.Clone()
	if v, ok := g["Accept-Encoding"]; ok && len(v) == 1 && v[0] == "" {
		if _, had := orig["Accept-Encoding"]; !had {
			delete(g, "Accept-Encoding")
		}
	}
	return headerEq(g, orig)
}
