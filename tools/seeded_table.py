#!/usr/bin/env python3
"""seeded_table.py: markdown table of /verif/seeded/*/meta.json (which checks catch which seeded changes)."""
import json, os, re, sys, glob

rows = []
for d in sorted(glob.glob("/verif/seeded/*/meta.json")):
    m = json.load(open(d))
    name = os.path.basename(os.path.dirname(d))
    first = (m.get("readme") or "").strip().split("\n")[0][:110]
    files = sorted(set(re.findall(r"^\+\+\+ b/(\S+)", open(os.path.join(os.path.dirname(d), "patch.diff")).read(), re.M)))
    cells = []
    for c, info in (m.get("checks") or {}).items():
        if not isinstance(info, dict):
            continue
        if info.get("exit") == 1 and info.get("violation_line"):
            how = info.get("clause") or ""
            obl = [o for o in (info.get("obligations_failed") or []) if o and not o.startswith("(")]
            if obl:
                how = (how + " + " if how else "") + ", ".join(sorted(set(o.replace("Pike.", "") for o in obl)))[:90]
            if not how:
                how = "model/implementation differ"
            if info.get("no_failing_input_found"):
                how += " (no-failing-input-found)"
            cells.append("**%s**: %s" % (c, how))
        else:
            cells.append("%s: not caught" % c)
    rows.append((name, m.get("confirmed"), ", ".join(files), first, "; ".join(cells)))
print("| seeded change | files | what it is (first line of the author's note) | verdicts of the checks run against it |")
print("|---|---|---|---|")
for name, conf, files, first, cells in rows:
    print("| `%s`%s | %s | %s | %s |" % (name, "" if conf else " (unconfirmed)", files, first.replace("|", "/"), cells))
