#!/usr/bin/env python3
"""eval_mutant.py <prop> <n> [checks...]
Confirms a sub-agent's mutant in its scratch worktree (/tmp/wt/<prop>): builds, existing tests pass, the
demonstration fails with the change and passes without it; then applies it to /repo, runs the given checks
(default: the property's own), undoes it, and files everything under /verif/seeded/<prop>-<n>/."""
import sys, os, re, subprocess, json, shutil, glob

import fcntl
_lock = open("/tmp/eval_mutant.lock", "w")
fcntl.flock(_lock, fcntl.LOCK_EX)  # one evaluation at a time: /repo and the build products are shared
prop, n = sys.argv[1], sys.argv[2]
checks = sys.argv[3:] or [prop]
wtbase = os.environ.get("WT", "/tmp/wt")
tag = os.environ.get("WTAG", "")   # e.g. "w2": second wave, kept as seeded/<prop>-w2-<n>
wt = "%s/%s" % (wtbase, prop)
mdir = os.path.join(wt, ".mutant")
env = dict(os.environ, GOFLAGS="-mod=mod", GOPROXY="off", GOSUMDB="off", GOTOOLCHAIN="local")


def sh(cmd, cwd=None, timeout=1800):
    import signal
    p = subprocess.Popen(cmd, shell=True, cwd=cwd, env=env, stdout=subprocess.PIPE, stderr=subprocess.STDOUT, start_new_session=True)
    try:
        out, _ = p.communicate(timeout=timeout)
    except subprocess.TimeoutExpired:
        os.killpg(p.pid, signal.SIGKILL)
        out, _ = p.communicate()
        return 124, out.decode("utf-8", "replace") + "\nTIMEOUT after %ds" % timeout
    return p.returncode, out.decode("utf-8", "replace")


seeded_dir = "/verif/seeded/%s-%s%s" % (prop, (tag + "-") if tag else "", n)
if not os.path.isdir(mdir) and os.path.exists(os.path.join(seeded_dir, "meta.json")):
    # the scratch worktree is gone: re-run the checks from what was kept under seeded/ (needs SKIP_CONFIRM)
    os.environ["SKIP_CONFIRM"] = "1"
    mdir = "/tmp/eval_mutant_%s_%s_%s" % (prop, tag, n)
    os.makedirs(mdir, exist_ok=True)
    shutil.copy(os.path.join(seeded_dir, "patch.diff"), os.path.join(mdir, "patch%s.diff" % n))
    _m = json.load(open(os.path.join(seeded_dir, "meta.json")))
    open(os.path.join(mdir, "README%s.txt" % n), "w").write(_m.get("readme") or "")
    for f in os.listdir(seeded_dir):
        if f.endswith(".go"):
            shutil.copy(os.path.join(seeded_dir, f), os.path.join(mdir, f))
patch = os.path.join(mdir, "patch%s.diff" % n)
rebased = os.path.join(mdir, "patch%s.rebased.diff" % n)  # hand-rebased on a later hook commit
readme = open(os.path.join(mdir, "README%s.txt" % n)).read() if os.path.exists(os.path.join(mdir, "README%s.txt" % n)) else ""
meta = {"property": prop, "mutant": n, "patch": open(patch).read()}
# locate demo copy / run commands in the README
cpl = re.search(r"^\s*(cp\s+\.mutant/[^\n]*)$", readme, re.M)
run = re.search(r"(go test [^\n]*?-run[^\n]*)", readme)
if not cpl or not run:
    print("cannot parse README; cp=%s run=%s" % (cpl, run)); print(readme[:1500]); sys.exit(2)
toks = re.split(r"\s*(?:&&|;)\s*", cpl.group(1).strip())[0].split()[1:]
srcs = [t[len(".mutant/"):] for t in toks if t.startswith(".mutant/")]
dest = toks[-1]
demos = [(sname, dest + sname if dest.endswith("/") else dest) for sname in srcs]
run_cmd = run.group(1).strip().rstrip("`")
run_cmd = re.split(r"\s+2>&1|\s+\||;|\s+#", run_cmd)[0].strip()
demo_src, demo_dst = demos[0]
outdir0 = "/verif/seeded/%s-%s%s" % (prop, (tag + "-") if tag else "", n)
prev = None
if os.environ.get("SKIP_CONFIRM") and os.path.exists(os.path.join(outdir0, "meta.json")):
    prev = json.load(open(os.path.join(outdir0, "meta.json")))
if prev and prev.get("confirmed"):
    # confirmed in an earlier run of this script (kept in meta.json): only the checks are run again
    for k in ("builds", "existing_tests_pass", "demo_with_change", "demo_without_change", "demo_cmd", "demo_output_with_change_tail", "confirmed"):
        meta[k] = prev.get(k)
    print("confirmed=True (from the earlier evaluation)")
else:
    sh("git checkout -- . && git clean -fdq -e .mutant", cwd=wt)
    rc, o = sh("git apply %s" % patch, cwd=wt)
    assert rc == 0, "patch does not apply in worktree: " + o
    rc1, o1 = sh("go build ./... && go build -tags verif ./...", cwd=wt)
    rc2, o2 = sh("go test -vet=off -count=1 ./cache ./server ./location ./compress ./util ./app && go test -vet=off -count=1 -skip TestEtcdClient ./config", cwd=wt)
    meta["builds"] = rc1 == 0
    meta["existing_tests_pass"] = rc2 == 0
    for a, b in demos:
        shutil.copy(os.path.join(mdir, a), os.path.join(wt, b))
    rc3, o3 = sh(run_cmd, cwd=wt, timeout=600)
    meta["demo_with_change"] = "FAIL" if rc3 != 0 else "pass"
    sh("git checkout -- .", cwd=wt)
    rc4, o4 = sh(run_cmd, cwd=wt, timeout=600)
    meta["demo_without_change"] = "pass" if rc4 == 0 else "FAIL"
    for a, b in demos:
        os.remove(os.path.join(wt, b))
    meta["demo_cmd"] = "cp .mutant/%s %s && %s" % (demo_src, demo_dst, run_cmd)
    meta["demo_output_with_change_tail"] = o3[-800:]
    ok = meta["builds"] and meta["existing_tests_pass"] and rc3 != 0 and rc4 == 0
    meta["confirmed"] = ok
    print("confirmed=%s builds=%s tests=%s demo_with=%s demo_without=%s" % (ok, meta["builds"], meta["existing_tests_pass"], meta["demo_with_change"], meta["demo_without_change"]))
    if not meta["existing_tests_pass"]:
        print(o2[-1500:])
# run the checks against /repo with the change applied
results = {}
rc, o = sh("git -C /repo status --short | grep -v '^??' | head -3")
assert o.strip() == "", "/repo is dirty: " + o
rc, o = sh("git -C /repo apply %s" % (rebased if os.path.exists(rebased) else patch))
if rc != 0:
    rc, o = sh("git -C /repo apply -3 %s && git -C /repo reset -q" % patch)
    if rc != 0:
        sh("git -C /repo reset -q --hard HEAD")
if rc != 0:
    print("patch does not apply to /repo:", o); results["apply"] = o
else:
    try:
        for c in checks:
            rc, o = sh("./check %s" % c, cwd="/verif", timeout=3600)
            viol = [l for l in o.split("\n") if l.startswith("VIOLATION")]
            summary = [l for l in o.split("\n") if l.startswith(c + " tier")]
            info = {"exit": rc, "violation_line": viol[0] if viol else None, "summary": summary[0] if summary else o[-300:]}
            if viol:
                m = re.search(r"replay=(\S+)", viol[0])
                if m and os.path.exists(m.group(1)):
                    rp = json.load(open(m.group(1)))
                    fi = rp.get("failing_input") or {}
                    info["clause"] = fi.get("clause")
                    info["case_decoded"] = (fi.get("case_decoded") or "")[:600]
                    info["obligations_failed"] = [f.get("theorem") for f in rp.get("obligations_failed", [])][:6]
                    info["no_failing_input_found"] = rp.get("no_failing_input_found", False)
            results[c] = info
            print(c, "->", "DETECTED" if rc == 1 and viol else "MISSED", info.get("clause"), info.get("obligations_failed"))
    finally:
        sh("git -C /repo checkout -- .")
        # the evidence files just written describe the MUTATED tree: put the committed ones back
        sh("git -C /verif checkout -- " + " ".join("evidence/%s.json" % c for c in checks))
meta["checks"] = results
meta["readme"] = readme
out = "/verif/seeded/%s-%s%s" % (prop, (tag + "-") if tag else "", n)
os.makedirs(out, exist_ok=True)
shutil.copy(rebased if os.path.exists(rebased) else patch, os.path.join(out, "patch.diff"))
for a, b in demos:
    shutil.copy(os.path.join(mdir, a), os.path.join(out, a))
m2 = dict(meta); m2.pop("patch")
json.dump(m2, open(os.path.join(out, "meta.json"), "w"), indent=1)
