# per-property configuration of ./check: Lean obligations live in lean/Pike/Props/<id>.lean;
# suites are run by the Go harness and judged by the Lean driver.
PROPS = {
    "C03": {
        "suites": [{"name": "fresh", "quick": 20000, "thorough": 300000, "thorough_seeds": 4}],
        "rule": "fresh: upstream header sets from a Cache-Control directive grammar (names in random case, "
                "values incl. 0/overflow/junk, 1-3 header lines, Set-Cookie lists incl. empty values, Age valid/"
                "negative/junk/huge, any status, all methods) sent through the real middleware chain; "
                "non-trivial = a Cache-Control field is present or the model stores; distinct = distinct "
                "(method, status, header set).",
        "assumptions": ["header strings are byte strings; the two non-ASCII runes that Go's (?i) folds to s/k are not generated",
                        "net/http delivers canonical header keys"],
        "trusted_base": ["regexp (beyond the literal/alternation/digits subset interpreted in Lean), strconv.Atoi modelled from its documentation",
                         "elton middleware glue"],
    },
}
