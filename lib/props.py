# per-property configuration of ./check: Lean obligations live in lean/Pike/Props/<id>.lean;
# suites are run by the Go harness and judged by the Lean driver.
PROPS = {
    "C03": {
        "suites": [{"name": "fresh", "quick": 20000, "thorough": 300000, "thorough_seeds": 4},
                   {"name": "sched", "stateful": True, "quick": 400, "thorough": 8000, "thorough_seeds": 2},
                   {"name": "fault", "quick": 90, "thorough": 3000, "thorough_seeds": 2}],
        "trip_re": "stored_unshareable|pass_not_forwarded_once|label_lies|unqualified_shared|stored_not_served|wrong_body_for_key|upstream_contacts_ne_one",
        "rule": "fresh: upstream header sets from a Cache-Control directive grammar (names in random case, "
                "values incl. 0/overflow/junk, 1-3 header lines, Set-Cookie lists incl. empty values, Age valid/"
                "negative/junk/huge, any status, all methods) sent through the real middleware chain, each followed by "
                "the same request again (label truthfulness: a hit costs 0 upstream calls, anything else exactly 1; an "
                "unqualified response is not shared; a stored one is served); the clauses 'label truthful / forwarded exactly "
                "once' are decided by this correspondence and the sched suite (X-Status vs. model pc), not by a Lean theorem; "
                "non-trivial = a Cache-Control field is present or the model stores; distinct = distinct "
                "(method, status, header set)." + ' fault: a real listening server (server.Start) in front of a loopback origin that misbehaves at the transport level, real clients: drop (request read, connection closed without a response byte; every origin connection is fresh so net/http never replays), redirect (302 no-store + Location), short (Content-Length N, connection dies after N/2 bytes), with and without a proxy timeout on the location; observed: origin contacts per path, client status/bytes/label.',
        "assumptions": ["header strings are byte strings; the two non-ASCII runes that Go's (?i) folds to s/k are not generated",
                        "net/http delivers canonical header keys"],
        "trusted_base": ["regexp (beyond the literal/alternation/digits subset interpreted in Lean), strconv.Atoi modelled from its documentation",
                         "elton middleware glue"],
    },
    "C06": {
        "suites": [{"name": "key", "quick": 6000, "thorough": 100000, "thorough_seeds": 3},
                   {"name": "disp", "stateful": True, "quick": 60, "thorough": 600, "thorough_seeds": 3},
                   {"name": "proxy", "stateful": True, "seq_marker": "case", "quick": 300, "thorough": 3000, "thorough_seeds": 2},
                   {"name": "store", "stateful": True, "seq_marker": "open", "quick": 1500, "thorough": 40000, "thorough_seeds": 2}],
        "rule": " store: random get/set/delete sequences on TWO REAL badger stores obtained through store.NewStore, with keys that differ only far from their beginning (1.5 KB keys sharing 1.4 KB, 66 000-byte keys sharing 65 500 bytes — beyond badger's key limit, so writes are refused —, 64 000-byte keys differing in the last byte), replayed on the Lean map StoreMap (the map Sys.store assumes); monitors: a value read was written for that key of that store, a deleted record is gone, one instance per url and different urls are different stores. proxy (real transport): what the origin sees for a path with escaped reserved characters is byte for byte what the client wrote. " + "key: pairs of (method, host, uri) triples (equal, or differing in exactly one component: GET/HEAD, host/port/"
                "case, one byte of the query, trailing ?/&, extra slash) through the real middleware chain with a self-identifying "
                "upstream; the key bytes are observed at the recording store. disp: op sequences (get/purge/put) on two real "
                "dispatchers with near-identical keys and real MemHash values. non-trivial = every pair / every get or purge; "
                "distinct = distinct input fields.",
        "assumptions": ["methods and hosts contain no space (net/http rejects them)",
                        "the zero-copy map key is safe because the key buffer is freshly allocated and never written again (extracted fact keyFreshBuffer; aliasing itself is outside a value-semantic model)"],
        "trusted_base": ["groupcache lru modelled from its source and compared in the disp suite", "runtime.memhash as an arbitrary function"],
    },
    "C11": {
        "suites": [{"name": "disp", "stateful": True, "quick": 120, "thorough": 1500, "thorough_seeds": 3},
                   {"name": "store", "stateful": True, "seq_marker": "open", "quick": 1500, "thorough": 40000, "thorough_seeds": 2}],
        "rule": "store: see C06 (the key handed to a store is the shard's map key: a store must not write into it). " + "disp: for sizes 1..12,15..17,…,1023..1025,2000,0,-5 and random 1..300: sequences of 3*S+40 lookups/purges over a "
                "key population of 1.5*S (40% on a hot quarter), judged op by op against the LRU model (entry identity = first-seen "
                "index), resident count (recency list and table of every shard) read by reflection at the end; the two caches of a sequence are "
                "built through cache.ResetDispatchers (empty configuration first), 35% of the new entries start a fetch, 1% of the ops are a "
                "reload naming the same caches with other sizes. non-trivial = get/purge/count lines; distinct = distinct lines.",
        "assumptions": ["lookups and purges of one shard are serialised by the shard mutex (extracted lock facts, C20)"],
        "trusted_base": ["groupcache lru modelled from its source and compared in the disp suite"],
    },
}

PROPS["C14"] = {
    "suites": [{"name": "loc", "quick": 1500, "thorough": 40000, "thorough_seeds": 3},
               {"name": "reconf", "args": ["-opt", "nolisten"], "stateful": True, "quick": 150, "thorough": 3000, "thorough_seeds": 2},
               {"name": "config", "quick": 600, "thorough": 10000, "thorough_seeds": 2}],
    "trip_re": "routing|differs_from_fresh:S|accepted_unresolvable:missing:location",
    "rule": "config: a request that every generated location admits (aa.test, /api/x) is taken by some location of every server of an accepted, applied configuration (location names with blanks and other YAML-hostile spellings included). reconf: the location list each running server ends up with after configuration updates applied through servers.Reset (incl. updates that only shorten a list), read back per server. loc: 1-5 locations (hosts ⊆ 4 hosts, one with upper-case letters, or none; request hosts also in other letter case; prefixes ⊆ 6 overlapping prefixes or none, occasional duplicate names), a server "
            "listing a shuffled subset of them (plus an unknown name), 6 requests (host × uri) each through the real middleware chain; each "
            "location has its own upstream so the contacted upstream identifies the choice; judged by membership in the model's allowed set "
            "(the sort is unstable). non-trivial = every request; distinct = distinct (locations, names, host, uri).",
    "assumptions": ["sort.Slice yields some permutation sorted by the comparator (any order within a class)"],
    "trusted_base": ["sort.Slice", "strings.HasPrefix"],
}

_STORE_RULE = " store: random get/set/delete sequences on TWO REAL badger stores obtained through store.NewStore, with keys that differ only far from their beginning (1.5 KB keys sharing 1.4 KB, 66 000-byte keys sharing 65 500 bytes — beyond badger's key limit, so writes are refused —, 64 000-byte keys differing in the last byte), replayed on the Lean map StoreMap (the map Sys.store assumes); monitors: a value read was written for that key of that store, a deleted record is gone, one instance per url and different urls are different stores."
PROPS["C09"] = {
    "trip_re": "alloc_exceeds|decode_crash.*|roundtrip_differs.*|truncated_accepted|behaviour.*|wrong_body_for_key.*|record_survives|not_started.*|roundtrip_fails:gzip:.*|roundtrip_fails:br:.*|decoder_crash:(gzip|br):.*",
    "suites": [{"name": "codec", "quick": 4000, "thorough": 60000, "thorough_seeds": 3},
               {"name": "codecs", "quick": 500, "thorough": 10000, "thorough_seeds": 2},
               {"name": "resp", "args": ["-opt", "c13"], "stateful": True, "seq_marker": "case", "quick": 400, "thorough": 6000, "thorough_seeds": 2},
               {"name": "store", "stateful": True, "seq_marker": "open", "quick": 1500, "thorough": 40000, "thorough_seeds": 2}],
    "rule": 'codecs: what serving a restored entry runs its stored gzip/br variants through — multi-member and damaged streams, see C12. ' + _STORE_RULE + " codec: reachable entries built through the public API (Get/Cacheable/HitForPass with a recording store): hit, empty "
            "hit-for-pass, hit-for-pass keeping an old response; header sets incl. multi-valued, empty, nil, non-ASCII, quoting; bodies "
            "empty/1 byte/repetitive/random up to 600 B in any subset of raw/gzip/br; min-length up to 2^31, ttl up to 2^62; a separate "
            "obs-text stream (invalid UTF-8 header values). Every record is decoded by the real FromBytes under recover/watchdog/"
            "allocation meter and re-encoded; every strict prefix of ~n/20 records; n mutated records (bit flips, lying length words, "
            "status word, garbage, spliced bad filter/JSON, trailing bytes, cut+extend). non-trivial = all but 'opaque' mutations (JSON/"
            "regex validity of a shifted segment is library behaviour the model does not decide); distinct = distinct lines.",
    "assumptions": ["json.Marshal/Unmarshal round trip on map[string][]string with valid-UTF-8 values (hypothesis RespWF.hdrRT; D12 is the excluded point)",
                    "regexp.Compile(r.String()) succeeds for a compiled filter (RespWF.filterOK)",
                    "field sizes < 2^32 (forced by the format; theorem size_wraps shows the excluded point)"],
    "trusted_base": ["encoding/json, regexp, bytes.Buffer, encoding/binary"],
}

_RESP_RULE = ("resp: per case one upstream answer (status 200/201/301/404/500; body empty/tiny/min-length-1/at/+1/large/random/zeros >10x/"
              "zeros >255x/json; content type matching the filter or not or absent; encoding identity/gzip/br/lz4/zst/snz; cacheable or not) and "
              "server settings (min-length default/1/100/5000, filter nil/'text|json'/'image'), then four requests with Accept-Encoding drawn "
              "from 15 values (plain lists, x-gzip, *, upper case, near-misses 'abr'/'brotli'): cold fetch, second request (hit or hit-for-pass), "
              "request after all entries were dropped and the entry restored from the store, POST pass-through; all through the real middleware "
              "chain. Observed: status, Content-Encoding, body decoded by reference decoders == upstream plain body, bytes identical to the "
              "upstream's, Content-Length, X-Status, end-to-end headers, upstream calls. non-trivial = every request line; distinct = distinct lines.")
_FAULT_RULE = ' fault: a real listening server (server.Start) in front of a loopback origin that misbehaves at the transport level, real clients: drop (request read, connection closed without a response byte; every origin connection is fresh so net/http never replays), redirect (302 no-store + Location), short (Content-Length N, connection dies after N/2 bytes), with and without a proxy timeout on the location; observed: origin contacts per path, client status/bytes/label.'
PROPS["C05"] = {
    "suites": [{"name": "resp", "stateful": True, "seq_marker": "case", "quick": 1500, "thorough": 30000, "thorough_seeds": 3},
               {"name": "fault", "quick": 90, "thorough": 3000, "thorough_seeds": 2},
               {"name": "codecs", "quick": 500, "thorough": 10000, "thorough_seeds": 2}],
    "trip_re": "body_differs|encoding_not_accepted|content_length|status_or_header_changed|roundtrip_fails.*|decoder_crash.*",
    "rule": _RESP_RULE + _FAULT_RULE + " codecs: the decoders the request path applies to upstream bodies, on reference streams of every format (see C12).",
    "assumptions": ["codec libraries: decode(encode x) = x, compressed output non-empty (CodecsOK); the upstream body is valid for its declared encoding",
                    "client codings from the documented alphabet, no q-values (the property says plain list)",
                    "Content-Length is set by elton from the body buffer (trusted glue, compared in the suite)"],
    "trusted_base": ["compress/gzip, andybalholm/brotli, pierrec/lz4, klauspost zstd, golang/snappy", "elton context and response writing"],
}
PROPS["C13"] = {
    "suites": [{"name": "resp", "args": ["-opt", "c13"], "stateful": True, "seq_marker": "case", "quick": 1500, "thorough": 30000, "thorough_seeds": 3},
               {"name": "reconf", "args": ["-opt", "nolisten"], "stateful": True, "quick": 150, "thorough": 3000, "thorough_seeds": 2}],
    "trip_re": "cell_differs|stored_variant_not_best_profile.*|differs_from_fresh:S",
    "rule": _RESP_RULE + " reconf: the content-type filter and threshold each server ends up with after config conversion and updates, read back per server (several servers per configuration, with and without a filter)."
            " The table cells {accepts none/gzip/br/both/other} x {stored variants} x {below/at/above threshold} x {type matches or not} x "
            "{cacheable or not} are all produced by this generator (case_classes in the evidence lists the outcome classes hit).",
    "assumptions": ["'at threshold' is not compressed (pinned from the unchanged code and docs)"],
    "trusted_base": ["strings.Contains", "regexp on the content type for filters outside the literal-alternation subset (the generator stays inside it)"],
}

_SCHED_RULE = ("sched: random schedules executed on REAL goroutines through the real middleware chain, one atomic step at a time: the "
               "controller releases exactly one gate (hook points before each lock acquisition, after the waiter list is detached, after "
               "the drain, around the channel receive; the scripted upstream) per event and records where the goroutine stops next. 2-6 "
               "requests on 1-2 keys (8% POST), clock ticks of 1-3 s or 300 s between any two steps, upstream outcomes cacheable(ttl 1/2/3/60)/"
               "no-store/error/panic, hit-for-pass period 300s/2s/unset, with or without a store whose loads are honest/error/mutated records "
               "(status word, no expiry, no response, truncated, junk), failing saves and deletes, purges, restarts. The Lean driver replays "
               "each event through Sys.step and compares positions, entry identities, store consultation and final answers (X-Status, Age, "
               "body, code). non-trivial = every event line except ticks; distinct = distinct lines.")
_SYS_TRUSTED = ["Go runtime: sync.Mutex/RWMutex and unbuffered channel semantics, the scheduler (the model's atomic steps are the lock-protected blocks; tied by the sched suite and the extracted lock table)",
                "elton middleware chain and context", "the wall clock is monotone (whole seconds)",
                "the hand transcription of the entry state machine into Entry/Sys, tied to the source by the regenerated statement skeletons (C01.skeleton_transcribed) and the lock-scope facts (lockSections, storeCalls, accessTable); groupcache lru.Cache is modelled (every method call on it counts as a write of the shard)"]
PROPS["C01"] = {
    "suites": [{"name": "sched", "stateful": True, "quick": 1500, "thorough": 30000, "thorough_seeds": 4},
               {"name": "fault", "quick": 90, "thorough": 3000, "thorough_seeds": 2}],
    "trip_re": "overlap|waiter_not_served|second_entry_for_key|upstream_contacts_ne_one|blocked",
    "rule": _SCHED_RULE + _FAULT_RULE, "assumptions": ["Sys abstracts from int64 wrap-around of createdAt+ttl (covered at entry level, C04.overflow_never_served)"],
    "trusted_base": _SYS_TRUSTED,
}
PROPS["C02"] = {
    "suites": [{"name": "sched", "stateful": True, "quick": 1500, "thorough": 30000, "thorough_seeds": 4},
               {"name": "proxy", "stateful": True, "seq_marker": "case", "quick": 30, "thorough": 300, "thorough_seeds": 1},
               {"name": "fault", "quick": 180, "thorough": 3000, "thorough_seeds": 2}],
    "trip_re": "blocked|upstream_hang_not_ended",
    "rule": "fault: an origin whose body is not what its Content-Encoding says (junk or a stream cut in the middle, for gzip/br/lz4/zst/snz): three requests for the URL, each ends within the client's time-out (`blocked` otherwise). " + _SCHED_RULE + " A goroutine that does not reach its next stop within 5 s, or is not finished when the schedule has been wound down, trips 'blocked'.",
    "assumptions": ["every upstream request ends (the property conditions on it; the proxy timeout converts a silent upstream into 504)",
                    "store calls made under a mutex return",
                    "proxy: one directed history with an upstream that never answers (proxy timeout 300 ms) and a second request coalesced behind the first"],
    "trusted_base": _SYS_TRUSTED,
}
PROPS["C04"] = {
    "suites": [{"name": "sched", "stateful": True, "quick": 1500, "thorough": 30000, "thorough_seeds": 4},
               {"name": "fresh", "quick": 8000, "thorough": 100000, "thorough_seeds": 2},
               {"name": "proxy", "stateful": True, "seq_marker": "case", "quick": 300, "thorough": 3000, "thorough_seeds": 2}],
    "trip_re": "served_stale|age_gt_T.*|lifetime_gt_declared",
    "rule": 'proxy (real transport): an origin that states an Age equal to or beyond its max-age leaves nothing to store. ' + _SCHED_RULE, "assumptions": ["'obtained' = the instant the entry became a hit (createdAt)", "the store never returns data that was not written to it (Honest) for the provenance theorem"],
    "trusted_base": _SYS_TRUSTED,
}
PROPS["C07"] = {
    "suites": [{"name": "sched", "stateful": True, "quick": 1500, "thorough": 30000, "thorough_seeds": 4},
               {"name": "fault", "quick": 180, "thorough": 3000, "thorough_seeds": 2}],
    "trip_re": "queued_during_hfp|hfp_period_wrong",
    "rule": _SCHED_RULE, "assumptions": [], "trusted_base": _SYS_TRUSTED + ["time.ParseDuration for the configured period"],
}
PROPS["C10"] = {
    "suites": [{"name": "sched", "stateful": True, "quick": 1500, "thorough": 30000, "thorough_seeds": 4},
               {"name": "config", "quick": 600, "thorough": 10000, "thorough_seeds": 2},
               {"name": "reconf", "args": ["-opt", "nolisten"], "stateful": True, "quick": 150, "thorough": 3000, "thorough_seeds": 2}],
    "trip_re": "blocked|immortal|client_error_from_store_fault|accepted_unresolvable.*|surviving_cache_replaced",
    "rule": _SCHED_RULE + " config / reconf: configurations with a cache whose store url is well-formed but cannot be opened (a path below /dev/null): "
            "every server still resolves its cache and serves, and the memory-only cache survives later updates like any other.",
    "assumptions": ["a structurally valid record whose body bytes were altered is undetectable without a checksum: outside the property as decided here",
                                          "store calls return (a hanging store is outside the model)"],
    "trusted_base": _SYS_TRUSTED,
}
PROPS["C18"] = {
    "suites": [{"name": "sched", "stateful": True, "quick": 1000, "thorough": 20000, "thorough_seeds": 3},
               {"name": "disp", "stateful": True, "quick": 60, "thorough": 600, "thorough_seeds": 3},
               {"name": "store", "stateful": True, "seq_marker": "open", "quick": 1500, "thorough": 40000, "thorough_seeds": 2}],
    "trip_re": "served_from_purged|record_survives|blocked|purge_touched_other|purge_acked_before_done",
    "rule": _SCHED_RULE + " disp: named / unnamed / unknown-cache purges on two real dispatchers with stores." + _STORE_RULE,
    "assumptions": ["a fetch in flight at purge time may persist its result afterwards (the property only requires non-blocking there)"],
    "trusted_base": _SYS_TRUSTED,
}

PROPS["C20"] = {
    "suites": [{"name": "sched", "stateful": True, "quick": 600, "thorough": 10000, "thorough_seeds": 3},
               {"name": "sched", "race": True, "stateful": True, "quick": 100, "thorough": 3000, "thorough_seeds": 3},
               {"name": "race", "race": True, "quick": 300, "thorough": 6000, "thorough_seeds": 5}],
    "trip_re": "race_report|wrong_body_for_key|blocked",
    "rule": _SCHED_RULE + " race: the harness built with -race; 8 workers x n requests on 8 hot and 200 cold keys (cache size 64, lifetime 1 s real "
            "clock, every 5th upstream answer uncacheable), GET/HEAD, Accept-Encoding and If-None-Match variety, with a concurrent loop of purges and "
            "location/server reloads; every body names the key it was produced for; any report of the Go race detector, wrong body, malformed "
            "response or panic trips. non-trivial = schedule events / the summary line.",
    "assumptions": ["the syntactic lock scopes extracted from the source are the dynamic ones (trusted part of the extractor)",
                    "mutex and channel semantics of the Go runtime (Race.WF, happens-before edges)"],
    "trusted_base": _SYS_TRUSTED + ["go race detector (thorough search for a failing schedule, not a proof)", "elton, net/http, sync.Map, go.uber.org/atomic"],
}

PROPS["C12"] = {
    "suites": [{"name": "codecs", "quick": 1500, "thorough": 30000, "thorough_seeds": 3}],
    "trip_re": "roundtrip_fails.*|decoder_crash.*",
    "rule": "codecs: bodies empty/1 byte/random small/random 20-50 KB/repetitive/zeros up to 3000/zeros 100-500 KB/structured JSON/tiny; "
            "enc: gzip and brotli through pike's services at levels -2..13 (configured through compress.Reset and SetLevels), decoded by the "
            "standard decoders AND pike's own; dec: gzip/br/zst/snz streams from reference encoders through Decompress; lz4: blocks from "
            "lz4.CompressBlock at every ratio plus hand-made run-length blocks (extended lengths up to 600), judged ALSO by the Lean "
            "block-format decoder and the Lean model of pike's growing-buffer wrapper; mut: bit flips/truncation/splices on streams of "
            "all five formats and hand-made zstd/snappy headers declaring huge sizes, under recover + 20 s watchdog; the last four encoder "
            "and decoder outputs are checked again after later calls (retained). non-trivial = every line; distinct = distinct lines.",
    "assumptions": ["PARTIAL BY NATURE: the round trips of gzip/br/zstd/snappy and no-panic on malformed input are library behaviour: assumed (Resp.CodecsOK) and exercised, not proved",
                    "LZ4: the library decodes a block iff the destination holds the output (modelled from its documentation, compared in the suite)"],
    "trusted_base": ["compress/gzip, andybalholm/brotli, pierrec/lz4, klauspost/compress/zstd, golang/snappy"],
}

PROPS["C17"] = {
    "suites": [{"name": "config", "quick": 3000, "thorough": 60000, "thorough_seeds": 3}],
    "trip_re": "accepted_dangling|accepted_unresolvable.*|accepted_malformed.*|roundtrip_differs.*|differs_from_fresh:watch.*",
    "rule": "config field probes: three per case — one field (name, policy, upstream address, prefix, rewrite pair) of an otherwise valid minimal configuration takes a value from a pool of well-formed values and near misses (other letter case, fragments, lists, missing or foreign schemes, 19/20/21 runes in one- and three-byte characters); Validate's verdict is compared with the Lean field rule (Model/Fields.lean). " + "config: configurations with 1-2 compress profiles and caches, 1-3 upstreams and locations, 1-2 servers, 30% of the names from a "
            "list needing YAML quoting (yes, null, 123, 'a: b', ~, true, 0x1f, -, #x, [a], {b}, quotes, leading/trailing blank, tab, 1e3, off, "
            "non-ASCII), optional fields set or unset; then exactly one of 18 defects (4 dangling references, 14 malformed fields) or none. "
            "Observed: Validate's verdict class; for accepted ones, applied to the real registries, one probe request per server on two "
            "(host, uri) pairs (never 'cache dispatcher not found' / 'upstream not found') — every other accepted configuration is applied "
            "to the servers still running with the previous one —, Write -> Read equality and Read -> modify -> Write -> Read; one directed "
            "history with the real file watcher (two saves 150 ms apart, three rounds). non-trivial = every case; distinct = distinct "
            "(defect, configuration).",
    "assumptions": ["PARTIAL: the struct-tag validators (go-playground/validator) and yaml.v2 are library code: they enter the theorems as structOK / the Yaml round-trip hypothesis and are compared in the suite",
                    "servers name a cache (struct tag 'required')"],
    "trusted_base": ["go-playground/validator", "gopkg.in/yaml.v2", "time.ParseDuration, humanize.ParseBytes, regexp.Compile, url.Parse in the custom validators"],
}

PROPS["C19"] = {
    "suites": [{"name": "upsel", "quick": 400, "thorough": 6000, "thorough_seeds": 3},
               {"name": "upsel", "args": ["-opt", "settle"], "quick": 2, "thorough": 8, "thorough_seeds": 1}],
    "trip_re": "sent_to_unhealthy|backup_while_primary|no_server_while_healthy|no_5xx|rr_unbalanced",
    "rule": "upsel: 1-4 real local servers (65% up, 35% backup) behind pike's NewUpstreamServer + target picker + elton proxy, every policy "
            "(first/random/roundRobin/leastconn/unset); three phases of 1-7 sequential requests, between phases one or two servers are "
            "stopped/restarted (listener closed/reopened) and given the status the checker would set; thorough adds a mode that only flips "
            "the listeners and waits 6.5 s for the periodic checker (two such sequences also in the quick tier). The group is built through the "
            "registry next to a second group and reloaded mid-sequence in half of the cases; 'healthy' is the pool's own status. Directed "
            "histories through the whole request path with the real proxy: all servers down (three requests for one URL, then recovery), "
            "round robin over 2 and 4 primaries with first-time GETs, a server that listens but fails the HTTP check on path '/'. "
            "Observed: which server answered, status code. non-trivial = every request; distinct = distinct (policy, vector, counter).",
    "assumptions": ["PARTIAL: the health vector is an input of the model; the checker's timing (5 s interval, 5 probes, 2 failures) is library runtime behaviour exercised only by the settle mode",
                    "round-robin window not crossing the 2^32 counter wrap"],
    "trusted_base": ["github.com/vicanso/upstream health checking", "elton proxy middleware, httputil.ReverseProxy"],
}

PROPS["C08"] = {
    "suites": [{"name": "sched", "stateful": True, "quick": 1000, "thorough": 20000, "thorough_seeds": 3},
               {"name": "crash", "stateful": True, "quick": 25, "thorough": 600, "thorough_seeds": 3},
               {"name": "store", "stateful": True, "seq_marker": "open", "quick": 1500, "thorough": 40000, "thorough_seeds": 2}],
    "trip_re": "served_altered.*|served_after_original_expiry|age_reset.*|not_started|client_error|served_stale|wrong_body_for_key|purge_acked_before_done",
    "rule": _SCHED_RULE + _STORE_RULE + " crash: a CHILD PROCESS serves a 60-step history (GETs on 8 keys with an LRU of 4, ticks, purges, bursts of 8 simultaneous "
            "concurrent writers; lifetimes 2-5 s, every 7th answer uncacheable) through the real request path with a REAL badger "
            "directory; the parent SIGKILLs it at PRNG-chosen output lines plus 0-3 ms jitter (so kills land inside fetches, drains, "
            "saves and purges), restarts it on the same directory, up to 4 kills per trial. Every upstream answer is reported before it "
            "is returned, every client response after; the Lean monitor checks each hit after a kill: body and key are those of a "
            "reported cacheable upstream answer, not past its original expiry, Age continuing, status 200, and that pike starts. "
            "non-trivial = responses, kills, restarts; distinct = distinct histories.",
    "assumptions": ["the store is an atomic map that never returns bytes that were not written to it (Sys.Honest); badger's own durability and recovery are trusted and exercised, not proved",
                    "1 s tolerance between the reported upstream time and createdAt (wall-clock granularity)"],
    "trusted_base": _SYS_TRUSTED + ["dgraph-io/badger v3"],
}

PROPS["C16"] = {
    "suites": [{"name": "reconf", "stateful": True, "quick": 400, "thorough": 8000, "thorough_seeds": 3},
               {"name": "loc", "quick": 400, "thorough": 8000, "thorough_seeds": 1},
               {"name": "config", "quick": 40, "thorough": 400, "thorough_seeds": 1}],
    "trip_re": "differs_from_fresh.*|surviving_cache_replaced|removed_still_listening|not_listening_as_configured|routing",
    "rule": "reconf: sequences of 2-6 valid configurations over 3 compress profiles (incl. one named bestCompression), 3 caches, 3 upstreams, "
            "3 locations, 3 server addresses — each present or absent, options changing (levels, sizes, policy, Accept-Encoding, added "
            "headers, cache/compress binding, min length set or unset, filter set or unset) — applied to the REAL registries in main.update's "
            "order; after every update the whole observable state is read through the exported getters (levels, dispatcher identity, "
            "upstream options, location.Get, server.GetCache/GetLocations/GetCompress) and compared with the model's state AND with a "
            "freshly started model instance; 35% of the updates change exactly one field of one server; one directed history with REAL "
            "listeners (4 servers started, an update removes 3 and adds 1, the removed ones refuse connections after the graceful-close "
            "period). loc: the running server behind the handler chain is updated to another location list and another cache. config: the "
            "file-watcher history. non-trivial = every update; distinct = distinct histories.",
    "assumptions": ["each name / address occurs once per configuration",
                    "graceful close under traffic is outside the model (servers are started only in the directed listener history)",
                    "retained cached entries legitimately carry headers added by the old location configuration"],
    "trusted_base": ["sync.Map", "net.Listen / elton GracefulClose"],
}

PROPS["C15"] = {
    "suites": [{"name": "proxy", "stateful": True, "seq_marker": "case", "quick": 1200, "thorough": 6000, "thorough_seeds": 3},
               {"name": "fault", "quick": 90, "thorough": 3000, "thorough_seeds": 2}],
    "trip_re": "upstream_saw_diff.*|conditional_leaked|partial_replayed|no_304|response_header_missing|status_or_header_changed|upstream_not_contacted",
    "rule": 'fault: through a REAL listening server (server.Start): revalidation by ETag, by Last-Modified alone and by both, on a cold key and on the hit. ' + "proxy: location configuration (rewrites none / '/api/*:/$1' / '/old:/new' / two chained rules; 0-2 added request headers incl. one "
            "colliding with a client header; 0-2 added response headers incl. one colliding with an upstream header; 0-2 added query "
            "parameters) x upstream Accept-Encoding unset/gzip/br x cacheable or not; a first request (GET/HEAD/POST/PUT/DELETE, body for "
            "POST/PUT, 5 paths incl. an escaped blank, 7 raw queries incl. bare flags, duplicates, empty values, a key that the location "
            "also adds; If-None-Match matching/not, If-Modified-Since, Range, If-Range, multi-valued custom header, Cookie, Authorization, "
            "Accept-Encoding variants) and a second plain GET, through the real middleware chain AND the real transport to a loopback "
            "origin that honours ETag (304) and Range (206). Observed: exactly what the origin received, the client's response, the "
            "request header after the proxy. non-trivial = every request; distinct = distinct histories.",
    "assumptions": ["PARTIAL: net/http and httputil.ReverseProxy (X-Forwarded-For, hop-by-hop headers, default User-Agent, transparent gzip) are outside: the monitor ignores exactly those headers",
                    "rewrite rules of the documented wildcard form (literal text with at most a trailing *)",
                    "an origin answers 206/304 only to requests carrying Range / validators"],
    "trusted_base": ["net/http, httputil.ReverseProxy, elton proxy and fresh middlewares", "regexp for rewrite patterns outside the modelled forms", "url.Values.Encode for the location's own parameters is modelled (Model/Query.lean) and compared on every proxy case; sort.Strings on the parameter names is modelled as a merge sort by byte order"],
}

NOT_APPLICABLE = {}
HOOK_COMMITS = ["ca43a57", "6332ff2", "5dd13bc", "f3d1cc5", "18bdadf"]
