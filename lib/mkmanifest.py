#!/usr/bin/env python3
"""regenerates /verif/MANIFEST.json from lib/props.py (claimed properties) and properties.jsonl"""
import json, os, sys
sys.path.insert(0, os.path.dirname(os.path.abspath(__file__)))
from props import PROPS, NOT_APPLICABLE, HOOK_COMMITS
ROOT = os.path.dirname(os.path.dirname(os.path.abspath(__file__)))
props = [json.loads(l) for l in open(os.path.join(ROOT, "properties.jsonl"))]
m = {
    "version": 1,
    "setup_cmd": "./setup.sh",
    "hooks": {"guard": "verif",
              "enable": "go build -tags verif (the harness module /verif/harness replaces github.com/vicanso/pike with /repo)",
              "baseline_off_cmd": "cd /repo && go test -mod=mod -json -vet=off -count=1 -timeout 25m ./...",
              "source_commits": HOOK_COMMITS, "add_only": True},
    "engines": [{"name": "lean-proof+correspondence", "path": "/verif/check", "serves_properties": sorted(PROPS),
                 "kind_free_text": "Lean 4 theorems (lean/Pike/Props) over a hand-written executable model (lean/Pike/Model); facts and small "
                                   "integer functions regenerated from the Go AST on every run (extract -> lean/Pike/Facts.lean); Go harness "
                                   "calling the real code in-process + compiled Lean driver as differential judge and property monitor"}],
    "checks": [], "not_applicable": [],
    "notes": "Every check: ./check <id> [--tier quick|thorough]; honours VERIF_SEED; see DESIGN.md.",
}
for p in props:
    pid = p["id"]
    if pid in PROPS:
        s = PROPS[pid]
        m["checks"].append({
            "property_id": pid,
            "quick_cmd": "./check %s --tier quick" % pid,
            "thorough_cmd": "./check %s --tier thorough" % pid,
            "evidence_file": "/verif/evidence/%s.json" % pid,
            "replay_cmd_template": "./check %s --replay {path}" % pid,
            "engine": "lean-proof+correspondence",
            "level_claimed": {"category": "proof", "text": s.get("level_text", "Lean theorems over the model for all inputs/histories; tie to the code by regenerated facts and sampled correspondence."),
                              "design_ref": "DESIGN.md §6 " + pid},
            "level_note": s.get("level_note", "; ".join(s.get("assumptions", []) + s.get("trusted_base", []))),
            "technique": s.get("technique", "Lean 4 machine-checked proof over an executable model + facts regenerated from the Go AST + differential correspondence with the real code"),
        })
    else:
        m["not_applicable"].append({"property_id": pid, "reason": NOT_APPLICABLE.get(pid, "not claimed yet: check under construction (DESIGN.md §10)")})
json.dump(m, open(os.path.join(ROOT, "MANIFEST.json"), "w"), indent=1)
print("claimed:", sorted(PROPS), "not claimed:", [x["property_id"] for x in m["not_applicable"]])
