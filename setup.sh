#!/bin/bash
# Builds the framework from files on disk only (offline): Lean project (model, theorems, driver),
# fact extractor, correspondence harness.
set -e
cd "$(dirname "$0")"
export GOFLAGS=-mod=mod GOPROXY=off GOSUMDB=off GOTOOLCHAIN=local CGO_ENABLED=0
mkdir -p bin .work replays evidence
(cd extract && go build -o ../bin/extract .)
./bin/extract /repo lean/Pike/Facts.lean
(cd lean && lake build driver Pike 2>&1 | tail -5) || true
cp /repo/go.sum harness/go.sum
(cd harness && go build -tags verif -o ../bin/harness .)
echo setup done
