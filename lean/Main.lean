import Pike.Driver.Fresh
open Pike.Driver

def judgeLine (line : String) : String :=
  match line.splitOn "\t" with
  | "fresh" :: rest => judgeFresh rest
  | s :: _ => s!"BADLINE unknown suite {s}"
  | [] => "BADLINE empty"

partial def loop (h : IO.FS.Stream) (out : IO.FS.Stream) : IO Unit := do
  let line ← h.getLine
  if line.isEmpty then return ()
  let l := if line.endsWith "\n" then (line.dropEnd 1).toString else line
  out.putStrLn (judgeLine l)
  loop h out

def main (_args : List String) : IO Unit := do
  let stdin ← IO.getStdin
  let stdout ← IO.getStdout
  loop stdin stdout
