import Pike.Driver.Fresh
import Pike.Driver.Disp
import Pike.Driver.Key
import Pike.Driver.Loc
import Pike.Driver.Codec
import Pike.Driver.Resp
import Pike.Driver.Sched
import Pike.Driver.Codecs
import Pike.Driver.Config
import Pike.Driver.Upsel
import Pike.Driver.Crash
import Pike.Driver.Reconf
import Pike.Driver.Proxy
import Pike.Driver.Fault
import Pike.Driver.Store
open Pike.Driver

structure St where
  disp : DispSt := {}
  resp : RespSt := {}
  sched : SchedSt := {}
  crash : CrashSt := {}
  reconf : ReconfSt := {}
  proxy : ProxySt := {}
  store : StoreSt := {}

def judgeLine (st : St) (line : String) : St × String :=
  match line.splitOn "\t" with
  | "fresh" :: rest => (st, judgeFresh rest)
  | "race" :: "summary" :: _ => (st, "ok race-summary 1")
  | "race" :: "bad" :: _ => (st, "ok race-bad 1 TRIP wrong_body_for_key")
  | "sched" :: rest => let (d, v) := judgeSched st.sched rest; ({ st with sched := d }, v)
  | "resp" :: rest => let (d, v) := judgeResp st.resp rest; ({ st with resp := d }, v)
  | "proxy" :: rest => let (d, v) := judgeProxy st.proxy rest; ({ st with proxy := d }, v)
  | "reconf" :: rest => let (d, v) := judgeReconf st.reconf rest; ({ st with reconf := d }, v)
  | "crash" :: rest => let (d, v) := judgeCrash st.crash rest; ({ st with crash := d }, v)
  | "store" :: rest => let (d, v) := judgeStore st.store rest; ({ st with store := d }, v)
  | "fault" :: rest => (st, judgeFault rest)
  | "upsel" :: rest => (st, judgeUpsel rest)
  | "config" :: rest => (st, judgeConfig rest)
  | "codecs" :: rest => (st, judgeCodecs rest)
  | "codec" :: rest => (st, judgeCodec rest)
  | "loc" :: rest => (st, judgeLoc rest)
  | "key" :: rest => (st, judgeKey rest)
  | "disp" :: rest => let (d, v) := judgeDisp st.disp rest; ({ st with disp := d }, v)
  | s :: _ => (st, s!"BADLINE unknown suite {s}")
  | [] => (st, "BADLINE empty")

partial def loop (h : IO.FS.Stream) (out : IO.FS.Stream) (st : St) : IO Unit := do
  let line ← h.getLine
  if line.isEmpty then return ()
  let l := if line.endsWith "\n" then (line.dropEnd 1).toString else line
  let (st', v) := judgeLine st l
  out.putStrLn (v.replace "\n" " ")   -- one verdict per input line, whatever a rendering contains
  loop h out st'

def main (_args : List String) : IO Unit := do
  let stdin ← IO.getStdin
  let stdout ← IO.getStdout
  loop stdin stdout {}
