import Pike.Model.Proxy
import Pike.Base.Str
/- helper lemmas about the general wildcard matcher of the URL rewriter -/
namespace Pike
namespace Proxy
open Str

/-- the text a match of `l₀(\S*)l₁…lₖ` with captures `c₁…cₖ` covers -/
def interleave : List Str → List Str → Str
  | [], _ => []
  | [l], _ => l
  | l :: ls, [] => l ++ interleave ls []
  | l :: ls, c :: cs => l ++ c ++ interleave ls cs

theorem takeNonSpace_prefix (s : Str) : takeNonSpace s <+: s := by
  induction s with
  | nil => simp [takeNonSpace]
  | cons c cs ih =>
    unfold takeNonSpace
    split
    · exact List.nil_prefix
    · exact (List.prefix_cons_inj c).mpr ih

theorem takeNonSpace_idem_of_prefix {a s : Str} (h : a <+: takeNonSpace s) : takeNonSpace a = a := by
  induction s generalizing a with
  | nil => simp [takeNonSpace] at h; subst h; simp [takeNonSpace]
  | cons c cs ih =>
    unfold takeNonSpace at h
    split at h
    · simp at h; subst h; simp [takeNonSpace]
    · rename_i hc
      cases a with
      | nil => simp [takeNonSpace]
      | cons x xs =>
        obtain ⟨hx, hxs⟩ := List.cons_prefix_cons.mp h
        subst hx
        unfold takeNonSpace
        simp only [hc, if_false]
        rw [ih hxs]

theorem take_prefix_of_le {s : Str} {n : Nat} (h : n ≤ (takeNonSpace s).length) : s.take n <+: takeNonSpace s := by
  obtain ⟨t, ht⟩ := takeNonSpace_prefix s
  have : s.take n = (takeNonSpace s).take n := by
    conv => lhs; rw [← ht]
    rw [List.take_append_of_le_length h]
  rw [this]
  exact List.take_prefix _ _

/-- SOUNDNESS of the wildcard matcher: a reported match is a real one — the path, from the match
position on, starts with the literals and captures interleaved, there is one capture per star,
and no capture contains a blank. -/
theorem matchHere_sound : ∀ (lits : List Str) (s : Str) (caps : List Str), lits ≠ [] →
    matchHere lits s = some caps →
    caps.length + 1 = lits.length ∧ interleave lits caps <+: s ∧ ∀ c ∈ caps, takeNonSpace c = c := by
  intro lits
  induction lits with
  | nil => intro s caps h; exact absurd rfl h
  | cons l rest ih =>
    intro s caps _ hm
    cases rest with
    | nil =>
      simp only [matchHere] at hm
      split at hm
      · rename_i hp
        simp only [Option.some.injEq] at hm; subst hm
        exact ⟨rfl, by simpa [interleave] using hasPrefix_iff.mp hp, by simp⟩
      · simp at hm
    | cons l2 rest' =>
      simp only [matchHere] at hm
      split at hm
      · rename_i hp
        obtain ⟨n, hn, hsome⟩ := List.exists_of_findSome?_eq_some hm
        cases hrec : matchHere (l2 :: rest') (List.drop n (List.drop l.length s)) with
        | none => rw [hrec] at hsome; simp at hsome
        | some caps' =>
          rw [hrec] at hsome
          simp only [Option.map_some, Option.some.injEq] at hsome
          subst hsome
          obtain ⟨h1, h2, h3⟩ := ih _ caps' (by simp) hrec
          have hnle : n ≤ (takeNonSpace (List.drop l.length s)).length := by
            have := List.mem_reverse.mp hn
            have := List.mem_range.mp this
            omega
          refine ⟨by simp [h1], ?_, ?_⟩
          · -- s = l ++ (take n s') ++ (drop n s'), and the rest matches the drop
            obtain ⟨t, ht⟩ := hasPrefix_iff.mp hp
            have hs' : List.drop l.length s = t := by rw [← ht]; simp
            obtain ⟨u, hu⟩ := h2
            refine ⟨u, ?_⟩
            simp only [interleave]
            rw [← ht, hs'] at *
            simp only [List.append_assoc]
            rw [hu, List.take_append_drop]
          · intro c hc
            rcases List.mem_cons.mp hc with e | e
            · subst e; exact takeNonSpace_idem_of_prefix (take_prefix_of_le hnle)
            · exact h3 c e
      · simp at hm


/-- scanning candidates from the largest down: everything above `k` fails, `k` succeeds -/
theorem findSome_rev_range {β : Type} (f : Nat → Option β) (m k : Nat) (v : β) (hk : k ≤ m)
    (hfail : ∀ n, k < n → n ≤ m → f n = none) (hok : f k = some v) :
    ((List.range (m + 1)).reverse).findSome? f = some v := by
  induction m with
  | zero =>
    have : k = 0 := by omega
    subst this
    simp [List.range_succ, hok]
  | succ m ih =>
    rw [List.range_succ, List.reverse_append, List.reverse_singleton, List.singleton_append, List.findSome?_cons]
    by_cases hkm : k = m + 1
    · subst hkm; rw [hok]
    · have hnone : f (m + 1) = none := hfail (m + 1) (by omega) (Nat.le_refl _)
      rw [hnone]
      exact ih (by omega) (fun n h1 h2 => hfail n h1 (by omega))

theorem take_takeNonSpace_length (s : Str) : s.take (takeNonSpace s).length = takeNonSpace s := by
  obtain ⟨t, ht⟩ := takeNonSpace_prefix s
  have : s.take (takeNonSpace s).length = (takeNonSpace s ++ t).take (takeNonSpace s).length := by rw [ht]
  rw [this, List.take_left']
  rfl

/-- the last star of a pattern takes the whole run of non-blank characters -/
theorem matchHere_last_star (l s : Str) :
    matchHere [l, []] s = if hasPrefix l s then some [takeNonSpace (s.drop l.length)] else none := by
  simp only [matchHere]
  split
  · apply findSome_rev_range _ _ (takeNonSpace (s.drop l.length)).length _ (Nat.le_refl _)
    · intro n h1 h2; omega
    · simp [hasPrefix, take_takeNonSpace_length]
  · rfl

theorem takeNonSpace_append_left {u v : Str} (h : takeNonSpace (u ++ v) = u ++ v) : takeNonSpace v = v := by
  induction u with
  | nil => simpa using h
  | cons c u ih =>
    rw [List.cons_append] at h
    unfold takeNonSpace at h
    split at h
    · simp at h
    · simp only [List.cons.injEq, true_and] at h
      exact ih h

theorem splitStars_ne_nil (s : Str) : splitStars s ≠ [] := by
  induction s with
  | nil => simp [splitStars]
  | cons c cs ih =>
    unfold splitStars
    split
    · simp
    · split <;> simp

theorem splitStars_no_star (a : Str) (ha : '*' ∉ a) : splitStars a = [a] := by
  induction a with
  | nil => rfl
  | cons c cs ih =>
    have hc : c ≠ '*' := fun e => ha (e ▸ List.mem_cons_self)
    have := ih (fun h => ha (List.mem_cons_of_mem _ h))
    unfold splitStars
    rw [this]
    simp [hc]

theorem splitStars_cons (c : Char) (cs : Str) :
    splitStars (c :: cs) = match splitStars cs with
      | [] => [[c]]
      | h :: t => if c = '*' then [] :: h :: t else (c :: h) :: t := by
  conv => lhs; unfold splitStars
  rfl

theorem splitStars_append_star (a r : Str) (ha : '*' ∉ a) : splitStars (a ++ '*' :: r) = a :: splitStars r := by
  induction a with
  | nil =>
    rw [List.nil_append, splitStars_cons]
    cases h : splitStars r with
    | nil => exact absurd h (splitStars_ne_nil r)
    | cons x xs => simp
  | cons c cs ih =>
    have hc : c ≠ '*' := fun e => ha (e ▸ List.mem_cons_self)
    have := ih (fun h => ha (List.mem_cons_of_mem _ h))
    rw [List.cons_append, splitStars_cons, this]
    simp [hc]

theorem splitStars_two (a b : Str) (ha : '*' ∉ a) (hb : '*' ∉ b) : splitStars (a ++ '*' :: b ++ ['*']) = [a, b, []] := by
  have e : a ++ '*' :: b ++ ['*'] = a ++ '*' :: (b ++ '*' :: []) := by simp [List.append_assoc]
  rw [e, splitStars_append_star a _ ha, splitStars_append_star b [] hb]
  rfl

end Proxy
end Pike
