import Pike.Model.Proxy
import Pike.Base.Str
/- helper lemmas about the general wildcard matcher of the URL rewriter -/
namespace Pike
namespace Proxy
open Str

/-- the text a match of `l₀(\S*)l₁…lₖ` with captures `c₁…cₖ` covers -/
def interleave : List Str → List Str → Str
  | [], _ => []
  | [l], _ => l
  | l :: ls, [] => l ++ interleave ls []
  | l :: ls, c :: cs => l ++ c ++ interleave ls cs

theorem takeNonSpace_prefix (s : Str) : takeNonSpace s <+: s := by
  induction s with
  | nil => simp [takeNonSpace]
  | cons c cs ih =>
    unfold takeNonSpace
    split
    · exact List.nil_prefix
    · exact (List.prefix_cons_inj c).mpr ih

theorem takeNonSpace_idem_of_prefix {a s : Str} (h : a <+: takeNonSpace s) : takeNonSpace a = a := by
  induction s generalizing a with
  | nil => simp [takeNonSpace] at h; subst h; simp [takeNonSpace]
  | cons c cs ih =>
    unfold takeNonSpace at h
    split at h
    · simp at h; subst h; simp [takeNonSpace]
    · rename_i hc
      cases a with
      | nil => simp [takeNonSpace]
      | cons x xs =>
        obtain ⟨hx, hxs⟩ := List.cons_prefix_cons.mp h
        subst hx
        unfold takeNonSpace
        simp only [hc, if_false]
        rw [ih hxs]

theorem take_prefix_of_le {s : Str} {n : Nat} (h : n ≤ (takeNonSpace s).length) : s.take n <+: takeNonSpace s := by
  obtain ⟨t, ht⟩ := takeNonSpace_prefix s
  have : s.take n = (takeNonSpace s).take n := by
    conv => lhs; rw [← ht]
    rw [List.take_append_of_le_length h]
  rw [this]
  exact List.take_prefix _ _

/-- SOUNDNESS of the wildcard matcher: a reported match is a real one — the path, from the match
position on, starts with the literals and captures interleaved, there is one capture per star,
and no capture contains a blank. -/
theorem matchHere_sound : ∀ (lits : List Str) (s : Str) (caps : List Str), lits ≠ [] →
    matchHere lits s = some caps →
    caps.length + 1 = lits.length ∧ interleave lits caps <+: s ∧ ∀ c ∈ caps, takeNonSpace c = c := by
  intro lits
  induction lits with
  | nil => intro s caps h; exact absurd rfl h
  | cons l rest ih =>
    intro s caps _ hm
    cases rest with
    | nil =>
      simp only [matchHere] at hm
      split at hm
      · rename_i hp
        simp only [Option.some.injEq] at hm; subst hm
        exact ⟨rfl, by simpa [interleave] using hasPrefix_iff.mp hp, by simp⟩
      · simp at hm
    | cons l2 rest' =>
      simp only [matchHere] at hm
      split at hm
      · rename_i hp
        obtain ⟨n, hn, hsome⟩ := List.exists_of_findSome?_eq_some hm
        cases hrec : matchHere (l2 :: rest') (List.drop n (List.drop l.length s)) with
        | none => rw [hrec] at hsome; simp at hsome
        | some caps' =>
          rw [hrec] at hsome
          simp only [Option.map_some, Option.some.injEq] at hsome
          subst hsome
          obtain ⟨h1, h2, h3⟩ := ih _ caps' (by simp) hrec
          have hnle : n ≤ (takeNonSpace (List.drop l.length s)).length := by
            have := List.mem_reverse.mp hn
            have := List.mem_range.mp this
            omega
          refine ⟨by simp [h1], ?_, ?_⟩
          · -- s = l ++ (take n s') ++ (drop n s'), and the rest matches the drop
            obtain ⟨t, ht⟩ := hasPrefix_iff.mp hp
            have hs' : List.drop l.length s = t := by rw [← ht]; simp
            obtain ⟨u, hu⟩ := h2
            refine ⟨u, ?_⟩
            simp only [interleave]
            rw [← ht, hs'] at *
            simp only [List.append_assoc]
            rw [hu, List.take_append_drop]
          · intro c hc
            rcases List.mem_cons.mp hc with e | e
            · subst e; exact takeNonSpace_idem_of_prefix (take_prefix_of_le hnle)
            · exact h3 c e
      · simp at hm


end Proxy
end Pike
