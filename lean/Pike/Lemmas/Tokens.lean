import Pike.Base.Str
/- substring search vs. token membership in comma separated lists -/
namespace Pike
namespace Str

theorem prefix_nosep_head {sep : Char} {p cs f0 : Str} {fs : List Str}
    (hp : p <+: cs) (hs : sep ∉ p) (hsplit : splitOn sep cs = f0 :: fs) : p <+: f0 := by
  induction p generalizing cs f0 fs with
  | nil => exact List.nil_prefix
  | cons a q ih =>
    cases cs with
    | nil => simp at hp
    | cons d ds =>
      obtain ⟨rfl, hq⟩ := List.cons_prefix_cons.mp hp
      have hne : a ≠ sep := fun h => hs (h ▸ List.mem_cons_self)
      simp only [splitOn, hne, if_false] at hsplit
      split at hsplit
      · rename_i h2; exact absurd h2 (splitOn_ne_nil _ _)
      · rename_i g gs h2
        simp only [List.cons.injEq] at hsplit
        rw [← hsplit.1]
        exact List.cons_prefix_cons.mpr ⟨rfl, ih hq (fun hm => hs (List.mem_cons_of_mem _ hm)) h2⟩

/-- a non-empty pattern free of the separator that occurs in `s` occurs inside one field -/
theorem infix_in_field {sep : Char} {p s : Str} (hne : p ≠ []) (hs : sep ∉ p) (h : p <:+: s) :
    ∃ f ∈ splitOn sep s, p <:+: f := by
  induction s with
  | nil =>
    have := List.eq_nil_of_infix_nil h
    exact absurd this hne
  | cons c cs ih =>
    rcases List.infix_cons_iff.mp h with hpre | hin
    · -- p is a prefix of c :: cs
      cases p with
      | nil => exact absurd rfl hne
      | cons a q =>
        obtain ⟨rfl, hq⟩ := List.cons_prefix_cons.mp hpre
        have hane : a ≠ sep := fun h => hs (h ▸ List.mem_cons_self)
        simp only [splitOn, hane, if_false]
        split
        · rename_i h2; exact absurd h2 (splitOn_ne_nil _ _)
        · rename_i g gs h2
          refine ⟨a :: g, List.mem_cons_self, ?_⟩
          exact (List.cons_prefix_cons.mpr ⟨rfl, prefix_nosep_head hq (fun hm => hs (List.mem_cons_of_mem _ hm)) h2⟩).isInfix
    · obtain ⟨f, hf, hpf⟩ := ih hin
      simp only [splitOn]
      split
      · exact ⟨f, List.mem_cons_of_mem _ hf, hpf⟩
      · split
        · rename_i h2; exact absurd h2 (splitOn_ne_nil _ _)
        · rename_i g gs h2
          rw [h2] at hf
          rcases List.mem_cons.mp hf with rfl | hf
          · exact ⟨c :: f, List.mem_cons_self, hpf.trans (List.suffix_cons c f).isInfix⟩
          · exact ⟨f, List.mem_cons_of_mem _ hf, hpf⟩

theorem infix_trimLeft {p f : Str} (hne : p ≠ []) (hsp : ∀ c ∈ p, isSpace c = false) (h : p <:+: f) :
    p <:+: trimLeft f := by
  induction f with
  | nil => exact absurd (List.eq_nil_of_infix_nil h) hne
  | cons c cs ih =>
    simp only [trimLeft]
    split
    · rename_i hc
      rcases List.infix_cons_iff.mp h with hpre | hin
      · cases p with
        | nil => exact absurd rfl hne
        | cons a q =>
          obtain ⟨rfl, _⟩ := List.cons_prefix_cons.mp hpre
          have := hsp a List.mem_cons_self
          rw [this] at hc; simp at hc
      · exact ih hin
    · exact h

theorem infix_trim {p f : Str} (hne : p ≠ []) (hsp : ∀ c ∈ p, isSpace c = false) (h : p <:+: f) :
    p <:+: trim f := by
  unfold trim trimRight
  have h1 := infix_trimLeft hne hsp h
  have h2 : p.reverse <:+: (trimLeft f).reverse := List.reverse_infix.mpr h1
  have h3 := infix_trimLeft (p := p.reverse) (by simpa using hne) (fun c hc => hsp c (by simpa using hc)) h2
  have := List.reverse_infix.mpr h3
  simpa using this

/-- comma separated, space-trimmed tokens -/
def tokens (s : Str) : List Str := (splitOn ',' s).map trim

/-- a pattern without comma or blank that occurs in a comma separated list occurs in one token -/
theorem contains_token {p s : Str} (hne : p ≠ []) (hc : ',' ∉ p) (hsp : ∀ c ∈ p, isSpace c = false)
    (h : contains p s = true) : ∃ t ∈ tokens s, p <:+: t := by
  obtain ⟨f, hf, hpf⟩ := infix_in_field hne hc (contains_iff.mp h)
  exact ⟨trim f, List.mem_map.mpr ⟨f, hf, rfl⟩, infix_trim hne hsp hpf⟩

end Str
end Pike
