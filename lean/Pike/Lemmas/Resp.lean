import Pike.Model.Resp
namespace Pike
namespace Resp
open Str MiniRe

/-- what is assumed of the compression libraries -/
structure CodecsOK (k : Codecs) : Prop where
  gz_rt : ∀ s b, k.gunzip (k.gzip s b) = some b
  br_rt : ∀ s b, k.unbr (k.brotli s b) = some b
  gz_ne : ∀ s b, (k.gzip s b).isEmpty = false
  br_ne : ∀ s b, (k.brotli s b).isEmpty = false

/-- the response object represents the (decoded) body `body` -/
structure Rep (k : Codecs) (r : R) (body : Str) : Prop where
  raw : r.raw.isEmpty = false → r.raw = body
  gz : r.gz.isEmpty = false → k.gunzip r.gz = some body
  br : r.br.isEmpty = false → k.unbr r.br = some body
  none : r.raw.isEmpty = true → r.gz.isEmpty = true → r.br.isEmpty = true → body = []

theorem getRawBody_rep {k : Codecs} {r : R} {body : Str} (h : Rep k r body) : getRawBody k r = some body := by
  unfold getRawBody
  cases hr : r.raw.isEmpty with
  | false => simp [h.raw hr]
  | true =>
    cases hg : r.gz.isEmpty with
    | false => simp [h.gz hg]
    | true =>
      cases hb : r.br.isEmpty with
      | false => simp [h.br hb]
      | true => simp [h.none hr hg hb]

theorem compress_rep {k : Codecs} (ok : CodecsOK k) {r : R} {body : Str} (h : Rep k r body) :
    Rep k (compress k r) body := by
  unfold compress
  split
  · exact h
  · split
    · exact h
    · rw [getRawBody_rep h]
      simp only
      split
      · exact h
      · rename_i hbody
        refine ⟨fun hr => by simp at hr, fun _ => ?_, fun _ => ?_, fun _ hg _ => ?_⟩
        · simp only
          split
          · exact ok.gz_rt _ _
          · rename_i hg; exact h.gz (by simpa using hg)
        · simp only
          split
          · exact ok.br_rt _ _
          · rename_i hb; exact h.br (by simpa using hb)
        · simp only at hg
          split at hg
          · rw [ok.gz_ne] at hg; simp at hg
          · rename_i hg'; simp [hg] at hg'

theorem shouldCompress_srv (r : R) (s : Str) : shouldCompress { r with srv := s } = shouldCompress r := rfl

theorem forCache_rep {k : Codecs} (ok : CodecsOK k) {r : R} {body : Str} (h : Rep k r body) :
    Rep k (forCache k r) body := by
  unfold forCache
  exact compress_rep ok ⟨h.raw, h.gz, h.br, h.none⟩

theorem negotiate_sound {k : Codecs} (ok : CodecsOK k) {r : R} {body ae e out : Str} {src : Src}
    (h : Rep k r body) (hn : negotiate k r ae = some (e, out, src)) :
    decodeFor k e out = some body
    ∧ (e = [] ∨ (e = encBr ∧ contains encBr ae = true) ∨ (e = encGzip ∧ contains encGzip ae = true)) := by
  unfold negotiate at hn
  simp only at hn
  split at hn
  · rename_i hc
    simp only [Option.some.injEq, Prod.mk.injEq] at hn
    obtain ⟨rfl, rfl, _⟩ := hn
    refine ⟨?_, Or.inr (Or.inl ⟨rfl, hc.1⟩)⟩
    simp only [decodeFor, if_true]
    exact h.br (by simpa using hc.2)
  · split at hn
    · rename_i hc
      simp only [Option.some.injEq, Prod.mk.injEq] at hn
      obtain ⟨rfl, rfl, _⟩ := hn
      refine ⟨?_, Or.inr (Or.inr ⟨rfl, hc.1⟩)⟩
      have : (encGzip = encBr) = False := by simp [(by decide : encGzip ≠ encBr)]
      simp only [decodeFor, this, if_false, if_true]
      exact h.gz (by simpa using hc.2)
    · rw [getRawBody_rep h] at hn
      simp only at hn
      split at hn
      · simp only [Option.some.injEq, Prod.mk.injEq] at hn
        obtain ⟨rfl, rfl, _⟩ := hn
        exact ⟨by simp [decodeFor, (by decide : ([] : Str) ≠ encBr), (by decide : ([] : Str) ≠ encGzip)], Or.inl rfl⟩
      · split at hn
        · rename_i hb
          simp only [Option.some.injEq, Prod.mk.injEq] at hn
          obtain ⟨rfl, rfl, _⟩ := hn
          exact ⟨by simp only [decodeFor, if_true]; exact ok.br_rt _ _, Or.inr (Or.inl ⟨rfl, hb⟩)⟩
        · split at hn
          · rename_i hg
            simp only [Option.some.injEq, Prod.mk.injEq] at hn
            obtain ⟨rfl, rfl, _⟩ := hn
            have : (encGzip = encBr) = False := by simp [(by decide : encGzip ≠ encBr)]
            exact ⟨by simp only [decodeFor, this, if_false, if_true]; exact ok.gz_rt _ _, Or.inr (Or.inr ⟨rfl, hg⟩)⟩
          · simp only [Option.some.injEq, Prod.mk.injEq] at hn
            obtain ⟨rfl, rfl, _⟩ := hn
            exact ⟨by simp [decodeFor, (by decide : ([] : Str) ≠ encBr), (by decide : ([] : Str) ≠ encGzip)], Or.inl rfl⟩

theorem negotiate_total {k : Codecs} {r : R} {body : Str} (h : Rep k r body) (ae : Str) :
    (negotiate k r ae).isSome = true := by
  unfold negotiate
  simp only
  split
  · rfl
  · split
    · rfl
    · rw [getRawBody_rep h]
      simp only
      split
      · rfl
      · split
        · rfl
        · split <;> rfl

end Resp
end Pike
