import Pike.Model.Entry
namespace Pike
namespace Entry

/-- per-entry well-formedness that does not mention threads -/
structure OK (en : Entry) : Prop where
  exp_zero : en.status = .fetching ∨ en.status = .unknown → en.expiredAt = 0
  exp_nonzero : en.status = .hit ∨ en.status = .hitForPass → en.expiredAt ≠ 0
  hit_resp : en.status = .hit → en.resp ≠ none
  waiters_fetching : en.waiters ≠ [] → en.status = .fetching

theorem ok_fresh (k : Key) : OK { key := k } := ⟨by simp, by simp, by simp, by simp⟩

theorem load_ok {e : Entry} (h : OK e) (so : Load) : OK (load e so) := by
  obtain ⟨a, b, c, d⟩ := h
  unfold load
  split
  · split
    · split
      · rename_i r hv
        simp only [Rec.valid, Bool.and_eq_true, Bool.or_eq_true, decide_eq_true_eq, ne_eq, Bool.decide_and] at hv
        constructor <;> simp only <;> grind
      · exact ⟨a, b, c, d⟩
    · exact ⟨a, b, c, d⟩
  · exact ⟨a, b, c, d⟩

theorem load_keeps {e : Entry} (so : Load) (h : e.status ≠ .unknown) : load e so = e := by
  unfold load; simp [h]

theorem load_fields (e : Entry) (so : Load) :
    (load e so).key = e.key ∧ (load e so).waiters = e.waiters
    ∧ ((load e so).status = .fetching ↔ e.status = .fetching) := by
  unfold load
  split
  · split
    · split
      · rename_i r hv
        simp only [Rec.valid, Bool.and_eq_true, Bool.or_eq_true, decide_eq_true_eq, ne_eq, Bool.decide_and] at hv
        grind
      · simp
    · simp
  · simp

theorem expireIf_ok {e : Entry} (now : Int) (h : OK e) : OK (expireIf now e) := by
  obtain ⟨a, b, c, d⟩ := h
  unfold expireIf
  split
  · rename_i hc
    constructor <;> simp only <;> grind
  · exact ⟨a, b, c, d⟩

theorem expireIf_fields {e : Entry} (now : Int) (h : OK e) :
    (expireIf now e).key = e.key ∧ (expireIf now e).waiters = e.waiters
    ∧ ((expireIf now e).status = .fetching ↔ e.status = .fetching)
    ∧ (e.status = .fetching → expireIf now e = e) := by
  obtain ⟨a, b, c, d⟩ := h
  unfold expireIf
  split
  · grind
  · simp

theorem getCore_cases (t : Tid) (x : Entry) (h : OK x) :
    OK (getCore t x).1 ∧ (getCore t x).1.key = x.key ∧
    ((x.status = .fetching ∧ (getCore t x).2 = .wait ∧ (getCore t x).1 = { x with waiters := x.waiters ++ [t] })
    ∨ (x.status ≠ .fetching ∧ x.waiters = [] ∧ (getCore t x).1.waiters = [] ∧
        (((getCore t x).2 = .fetch ∧ (getCore t x).1.status = .fetching)
        ∨ ((getCore t x).2 = .pass ∧ (getCore t x).1.status = .hitForPass)
        ∨ (∃ r, (getCore t x).2 = .hit r ∧ (getCore t x).1.status = .hit ∧ (getCore t x).1.resp = r)))) := by
  obtain ⟨a, b, c, d⟩ := h
  have hw : x.status ≠ .fetching → x.waiters = [] := by grind
  unfold getCore
  cases hs : x.status
  · exact ⟨⟨fun _ => a (Or.inr hs), by simp, by simp, by simp⟩, rfl,
      Or.inr ⟨by simp, hw (by simp [hs]), rfl, Or.inl ⟨rfl, rfl⟩⟩⟩
  · refine ⟨⟨fun _ => a (Or.inl hs), ?_, ?_, fun _ => rfl⟩, rfl, Or.inl ⟨rfl, rfl, ?_⟩⟩
    · intro h'; simp [hs] at h'
    · intro h'; simp [hs] at h'
    · cases x; simp_all
  · exact ⟨⟨a, b, c, d⟩, rfl, Or.inr ⟨by simp, hw (by simp [hs]), hw (by simp [hs]), Or.inr (Or.inl ⟨rfl, hs⟩)⟩⟩
  · exact ⟨⟨a, b, c, d⟩, rfl, Or.inr ⟨by simp, hw (by simp [hs]), hw (by simp [hs]), Or.inr (Or.inr ⟨x.resp, rfl, hs, rfl⟩)⟩⟩

/-- the four ways `get()` can come out -/
theorem get_cases (t : Tid) (now : Int) (so : Load) (e : Entry) (h : OK e) :
    OK (get t now so e).1 ∧ (get t now so e).1.key = e.key ∧
    ((e.status = .fetching ∧ (get t now so e).2 = .wait ∧ (get t now so e).1 = { e with waiters := e.waiters ++ [t] })
    ∨ (e.status ≠ .fetching ∧ e.waiters = [] ∧ (get t now so e).1.waiters = [] ∧
        (((get t now so e).2 = .fetch ∧ (get t now so e).1.status = .fetching)
        ∨ ((get t now so e).2 = .pass ∧ (get t now so e).1.status = .hitForPass)
        ∨ (∃ x, (get t now so e).2 = .hit x ∧ (get t now so e).1.status = .hit ∧ (get t now so e).1.resp = x)))) := by
  have h1 := load_ok h so
  have f1 := load_fields e so
  have h2 := expireIf_ok now h1
  have f2 := expireIf_fields now h1
  have hc := getCore_cases t (expireIf now (load e so)) h2
  have hw0 : e.status ≠ .fetching → e.waiters = [] := by have := h.waiters_fetching; grind
  unfold get
  refine ⟨hc.1, by rw [hc.2.1, f2.1, f1.1], ?_⟩
  rcases hc.2.2 with ⟨hs, hg, he⟩ | ⟨hs, hw, hw', hrest⟩
  · have hes : e.status = .fetching := f1.2.2.mp (f2.2.2.1.mp hs)
    have hx : expireIf now (load e so) = e := by
      rw [f2.2.2.2 (f1.2.2.mpr hes), load_keeps so (by simp [hes])]
    exact Or.inl ⟨hes, hg, by rw [he, hx]⟩
  · have hes : e.status ≠ .fetching := fun hh => hs (f2.2.2.1.mpr (f1.2.2.mpr hh))
    exact Or.inr ⟨hes, hw0 hes, hw', hrest⟩

end Entry
end Pike

namespace Pike
namespace Entry

/-- where a hit comes from: the entry already held it, or a valid record was just loaded; and it
is not past its expiry second -/
theorem get_hit_prov (t : Tid) (now : Int) (so : Load) (e : Entry) (h : OK e)
    (hh : (get t now so e).1.status = .hit) :
    ((e.status = .hit ∧ (get t now so e).1.resp = e.resp ∧ (get t now so e).1.createdAt = e.createdAt
        ∧ (get t now so e).1.expiredAt = e.expiredAt)
     ∨ (e.status = .unknown ∧ ∃ rec, so = .record rec ∧ rec.status = .hit ∧ (get t now so e).1.resp = rec.resp
        ∧ (get t now so e).1.createdAt = rec.createdAt ∧ (get t now so e).1.expiredAt = rec.expiredAt))
    ∧ now ≤ (get t now so e).1.expiredAt ∧ (get t now so e).2 = .hit (get t now so e).1.resp := by
  obtain ⟨a, b, c, d⟩ := h
  unfold get getCore expireIf load at *
  cases hs : e.status <;> cases so <;> simp_all <;> grind [Rec.valid]

end Entry
end Pike
