import Pike.Lemmas.SysInv
/- While a completer drains its waiters the entry keeps what the completion wrote (whatever the store does). -/
namespace Pike
namespace Sys
open Entry

structure InvD (s : State) : Prop where
  drain_hit : ∀ t e ttl r, s.pc t = .draining e (.cacheable ttl r) →
    (s.entries e).status = .hit ∧ (s.entries e).resp = some r
  drain_fail : ∀ t e, s.pc t = .draining e .fail → (s.entries e).status = .hitForPass

theorem invD_init (now : Int) (hs : Bool) : InvD (init now hs) := ⟨by simp [init], by simp [init]⟩

theorem invD_step {s s' : State} (h : Inv s) (hd : InvD s) (ev : Event) (hs : step false s ev = some s') : InvD s' := by
  -- entries change only in lookup (fresh id), get (lock free), complete (the completer itself), crash
  have key : ∀ t e o, s'.pc t = .draining e o →
      (s.pc t = .draining e o ∧ s'.entries e = s.entries e) ∨
      (∃ hfp, s'.entries e = completeEntry o s.now hfp (s.entries e)) := by
    intro t' e' o' hp
    cases ev with
    | arrive t k =>
      simp only [step] at hs; split at hs
      · simp only [Option.some.injEq] at hs; subst hs; simp only at hp ⊢; left; grind
      · simp at hs
    | arrivePass t =>
      simp only [step] at hs; split at hs
      · simp only [Option.some.injEq] at hs; subst hs; simp only at hp ⊢; left; grind
      · simp at hs
    | lookup t =>
      simp only [step] at hs; split at hs
      · split at hs
        · simp only [Option.some.injEq] at hs; subst hs; simp only at hp ⊢; left; grind
        · simp only [Option.some.injEq] at hs; subst hs; simp only at hp ⊢; left
          have := h.ref_alloc t' e'
          grind
      · simp at hs
    | drop k => simp only [step, Option.some.injEq] at hs; subst hs; left; exact ⟨hp, rfl⟩
    | purge k d => simp only [step, Option.some.injEq] at hs; subst hs; left; exact ⟨hp, rfl⟩
    | get t so =>
      simp only [step] at hs; split at hs
      · rename_i e hpc
        split at hs
        · rename_i hlock
          generalize Entry.get t s.now so (s.entries e) = g at hs
          obtain ⟨en, got⟩ := g
          simp only [Option.some.injEq] at hs; subst hs; simp only at hp ⊢; left
          have := h.drain_lock t' e'
          cases got <;> grind
        · simp at hs
      · simp at hs
    | park t =>
      simp only [step] at hs; split at hs
      · simp only [Option.some.injEq] at hs; subst hs; simp only at hp ⊢; left; grind
      · simp at hs
    | upEnd t o =>
      simp only [step] at hs; split at hs
      · split at hs
        · split at hs
          · simp only [Option.some.injEq] at hs; subst hs; simp only at hp ⊢; left; grind
          · simp at hs
        · simp only [Option.some.injEq] at hs; subst hs; simp only at hp ⊢; left; grind
      · simp only [Option.some.injEq] at hs; subst hs; simp only at hp ⊢; left; grind
      · simp at hs
    | complete t hfp =>
      simp only [step] at hs; split at hs
      · rename_i e o hpc
        split at hs
        · rename_i hlock
          simp only [Option.some.injEq] at hs; subst hs; simp only at hp ⊢
          by_cases htt : t' = t
          · subst htt
            simp only [upd_same, Pc.draining.injEq] at hp
            obtain ⟨rfl, rfl⟩ := hp
            right; exact ⟨hfp, by simp⟩
          · rw [upd_other _ _ _ _ htt] at hp
            left
            have := h.drain_lock t' e' (by simp [hp])
            have : e' ≠ e := by intro heq; subst heq; simp [hlock] at this
            exact ⟨hp, by rw [upd_other _ _ _ _ this]⟩
        · simp at hs
      · simp at hs
    | send t =>
      simp only [step] at hs; split at hs
      · split at hs
        · split at hs
          · simp only [Option.some.injEq] at hs; subst hs; simp only at hp ⊢; left; grind
          · simp at hs
        · simp at hs
      · simp at hs
    | saved t ok =>
      simp only [step] at hs; split at hs
      · split at hs
        · simp at hs
        · simp only [Option.some.injEq] at hs; subst hs; simp only at hp ⊢; left; grind
      · simp at hs
    | resume t =>
      simp only [step] at hs; split at hs
      · rename_i e st r hpc
        simp only [Bool.false_eq_true, if_false, Option.some.injEq] at hs; subst hs; simp only at hp ⊢; left
        cases st <;> grind
      · simp at hs
    | age t =>
      simp only [step] at hs; split at hs
      · split at hs
        · simp only [Option.some.injEq] at hs; subst hs; simp only at hp ⊢; left; grind
        · simp at hs
      · simp at hs
    | tick d =>
      simp only [step] at hs; split at hs
      · simp only [Option.some.injEq] at hs; subst hs; left; exact ⟨hp, rfl⟩
      · simp at hs
    | crash => simp only [step, Option.some.injEq] at hs; subst hs; simp at hp
  constructor
  · intro t e ttl r hp
    rcases key t e _ hp with ⟨hp0, he⟩ | ⟨hfp, he⟩
    · rw [he]; exact hd.drain_hit t e ttl r hp0
    · rw [he]; simp [completeEntry, Entry.cacheable]
  · intro t e hp
    rcases key t e _ hp with ⟨hp0, he⟩ | ⟨hfp, he⟩
    · rw [he]; exact hd.drain_fail t e hp0
    · rw [he]; simp [completeEntry, Entry.hitForPass]

theorem invD_run {s s' : State} (h : Inv s) (hd : InvD s) (evs : List Event) (hs : run false s evs = some s') : InvD s' := by
  induction evs generalizing s with
  | nil => simp only [run, Option.some.injEq] at hs; subst hs; exact hd
  | cons ev evs ih =>
    simp only [run] at hs
    split at hs
    · rename_i s1 h1; exact ih (inv_step h ev h1) (invD_step h hd ev h1) hs
    · simp at hs

theorem invD_reachable {s : State} (h : Reachable false s) : InvD s := by
  obtain ⟨now, hs, evs, hn, hr⟩ := h
  exact invD_run (inv_init now hs hn) (invD_init now hs) evs hr

end Sys
end Pike
