import Pike.Lemmas.LRU
namespace Pike
namespace LRU

/-- the key ↦ entry map a dispatcher denotes (what `Sys.State.shard` abstracts) -/
def absMap (hash : Str → Nat) (d : Disp) : Str → Option Nat :=
  fun k => (find (d.shards (hash k % d.zones)) k).map (·.eid)

def updM (m : Str → Option Nat) (k : Str) (v : Option Nat) : Str → Option Nat := fun x => if x = k then v else m x

/-- every resident item sits in the shard its key hashes to -/
def Placed (hash : Str → Nat) (d : Disp) : Prop := ∀ i, ∀ it ∈ d.shards i, hash it.key % d.zones = i

theorem find_erase_ne (s : Shard) (k k' : Str) (h : k' ≠ k) : find (erase s k) k' = find s k' := by
  unfold find erase
  rw [List.find?_filter]
  induction s with
  | nil => rfl
  | cons x s ih =>
    by_cases hx : x.key = k'
    · have : x.key ≠ k := fun e => h (hx ▸ e)
      simp [List.find?_cons, hx, h]
    · simpa [List.find?_cons, hx] using ih

theorem find_erase_self (s : Shard) (k : Str) : find (erase s k) k = none := by
  unfold find erase
  rw [List.find?_eq_none]
  intro x hx
  have := (List.mem_filter.mp hx).2
  simpa using this

theorem find_dropLast {s : Shard} (hn : (s.map (·.key)).Nodup) (v : Item) (hv : s.getLast? = some v) (k' : Str) :
    find s.dropLast k' = if k' = v.key then none else find s k' := by
  induction s with
  | nil => simp at hv
  | cons a s ih =>
    cases s with
    | nil =>
      simp only [List.getLast?_singleton, Option.some.injEq] at hv
      subst hv
      by_cases hk : k' = a.key
      · simp [find, hk]
      · have : ¬ a.key = k' := fun e => hk e.symm
        simp [find, hk, this]
    | cons b s =>
      have hv' : (b :: s).getLast? = some v := by simpa [List.getLast?_cons_cons] using hv
      rw [List.map_cons] at hn
      have hn' : ((b :: s).map (·.key)).Nodup := (List.nodup_cons.mp hn).2
      have hvmem : v ∈ b :: s := List.mem_of_getLast? hv'
      have hav : a.key ≠ v.key := by
        intro e
        have h1 := (List.nodup_cons.mp hn).1
        exact h1 (e ▸ List.mem_map.mpr ⟨v, hvmem, rfl⟩)
      have ih' := ih hn' hv'
      rw [List.dropLast_cons_cons]
      unfold find at ih' ⊢
      by_cases hk : a.key = k'
      · have : k' ≠ v.key := fun e => hav (hk.trans e)
        simp [hk, this]
      · simp only [List.find?_cons, hk, decide_false]
        exact ih'

theorem placed_lookup {hash : Str → Nat} {d : Disp} (h : Placed hash d) (k : Str) :
    Placed hash (lookup d (hash k % d.zones) k).1 := by
  intro i it hit
  unfold lookup at hit ⊢
  split at hit
  · rename_i it0 hf
    obtain ⟨hm, hk0⟩ := find_some hf
    simp only at hit ⊢
    by_cases hi : i = hash k % d.zones
    · subst hi
      rw [updF_same] at hit
      rcases List.mem_cons.mp hit with h1 | h1
      · subst h1; simp [hk0]
      · exact h _ it ((erase_sublist _ _).subset h1)
    · rw [updF_other _ _ _ _ hi] at hit; exact h i it hit
  · simp only at hit ⊢
    by_cases hi : i = hash k % d.zones
    · subst hi
      rw [updF_same] at hit
      have hsub : it ∈ (⟨k, d.next, d.clock⟩ : Item) :: d.shards (hash k % d.zones) := by
        unfold insert at hit
        simp only at hit
        split at hit
        · exact (List.dropLast_sublist _).subset hit
        · exact hit
      rcases List.mem_cons.mp hsub with h1 | h1
      · subst h1; rfl
      · exact h _ it h1
    · rw [updF_other _ _ _ _ hi] at hit; exact h i it hit

theorem placed_remove {hash : Str → Nat} {d : Disp} (h : Placed hash d) (i : Nat) (k : Str) : Placed hash (remove d i k) := by
  intro j it hit
  unfold remove at hit ⊢
  simp only at hit ⊢
  by_cases hj : j = i
  · subst hj; rw [updF_same] at hit; exact h _ it ((erase_sublist _ _).subset hit)
  · rw [updF_other _ _ _ _ hj] at hit; exact h j it hit


/-- hit: a lookup of a resident key changes nothing in the key ↦ entry map and returns its entry
(`Sys.step (.lookup t)` with `shard k = some e`) -/
theorem lookup_resident_refines {hash : Str → Nat} {d : Disp} (hi : Inv d) (k : Str) (it : Item)
    (hf : find (d.shards (hash k % d.zones)) k = some it) :
    absMap hash (lookup d (hash k % d.zones) k).1 = absMap hash d
      ∧ (lookup d (hash k % d.zones) k).2 = (it.eid, false) := by
  obtain ⟨hm, hk0⟩ := find_some hf
  constructor
  · funext k'
    unfold absMap lookup
    simp only [hf]
    by_cases hz : hash k' % d.zones = hash k % d.zones
    · rw [hz, updF_same]
      by_cases hk : k' = k
      · subst hk
        unfold find at hf
        simp [touch, find, hk0, hf]
      · have : ¬ it.key = k' := fun e => hk (e.symm.trans hk0)
        unfold touch
        unfold find
        rw [List.find?_cons]
        simp only [this, decide_false]
        have := find_erase_ne (d.shards (hash k % d.zones)) it.key k' (fun e => hk (e.trans hk0))
        unfold find at this
        rw [this]
    · rw [updF_other _ _ _ _ hz]
  · unfold lookup; simp [hf]

/-- miss: a lookup of a key that is not resident maps it to a brand-new entry and removes at
most the shard's least recently used key — exactly `Sys.step (.drop v)` (if a victim exists)
followed by the creating branch of `Sys.step (.lookup t)` -/
theorem lookup_miss_refines {hash : Str → Nat} {d : Disp} (hi : Inv d) (hp : Placed hash d) (k : Str)
    (hf : find (d.shards (hash k % d.zones)) k = none) :
    absMap hash (lookup d (hash k % d.zones) k).1 =
        updM (match victim d.cap (d.shards (hash k % d.zones)) ⟨k, d.next, d.clock⟩ with
              | some v => updM (absMap hash d) v.key none
              | none => absMap hash d) k (some d.next)
      ∧ (lookup d (hash k % d.zones) k).2 = (d.next, true) := by
  constructor
  · funext k'
    unfold absMap lookup updM
    simp only [hf]
    by_cases hk : k' = k
    · subst hk
      simp only [if_true, updF_same]
      unfold insert
      simp only
      split
      · rename_i hc
        -- the new item is at the front and survives dropLast (length ≥ 2)
        cases hs : d.shards (hash k' % d.zones) with
        | nil => simp [hs] at hc
        | cons b s => simp [find, List.dropLast_cons_cons]
      · simp [find]
    · simp only [hk, if_false]
      by_cases hz : hash k' % d.zones = hash k % d.zones
      · rw [hz, updF_same]
        unfold insert victim
        simp only
        split
        · rename_i hc
          have hn : ((((⟨k, d.next, d.clock⟩ : Item) :: d.shards (hash k % d.zones))).map (·.key)).Nodup := by
            rw [List.map_cons]
            exact List.nodup_cons.mpr ⟨find_none hf, (hi.shard _).nodup⟩
          cases hv : (((⟨k, d.next, d.clock⟩ : Item) :: d.shards (hash k % d.zones))).getLast? with
          | none => simp at hv
          | some v =>
            rw [find_dropLast hn v hv k']
            simp only
            by_cases hkv : k' = v.key
            · simp [hkv]
            · simp only [hkv, if_false]
              have : ¬ k = k' := fun e => hk e.symm
              simp [find, List.find?_cons, this, absMap, hz]
        · have : ¬ k = k' := fun e => hk e.symm
          simp [find, List.find?_cons, this, absMap, hz]
      · rw [updF_other _ _ _ _ hz]
        -- another shard: untouched, and the victim (if any) lives in shard i, so it is not k'
        unfold victim
        simp only
        split
        · cases hv : (((⟨k, d.next, d.clock⟩ : Item) :: d.shards (hash k % d.zones))).getLast? with
          | none => rfl
          | some v =>
            simp only
            have hvm := List.mem_of_getLast? hv
            have hvz : hash v.key % d.zones = hash k % d.zones := by
              rcases List.mem_cons.mp hvm with h1 | h1
              · subst h1; rfl
              · exact hp _ v h1
            have : k' ≠ v.key := fun e => hz (e ▸ hvz)
            simp [this, absMap]
        · rfl
  · unfold lookup; simp [hf]

/-- purge: `RemoveHTTPCache` unmaps exactly that key (`Sys.step (.purge k _)` on the shard map) -/
theorem remove_refines {hash : Str → Nat} (d : Disp) (k : Str) :
    absMap hash (remove d (hash k % d.zones) k) = updM (absMap hash d) k none := by
  funext k'
  unfold absMap remove updM
  simp only
  by_cases hk : k' = k
  · subst hk; simp [find_erase_self]
  · simp only [hk, if_false]
    by_cases hz : hash k' % d.zones = hash k % d.zones
    · rw [hz, updF_same, find_erase_ne _ _ _ hk]
    · rw [updF_other _ _ _ _ hz]

theorem placed_init (hash : Str → Nat) (zones cap : Nat) : Placed hash (init zones cap) := by
  intro i it h; simp [init] at h

theorem placed_run (hash : Str → Nat) {d : Disp} (h : Placed hash d) (ops : List Op) : Placed hash (run hash d ops) := by
  unfold run
  induction ops generalizing d with
  | nil => exact h
  | cons op ops ih =>
    simp only [List.foldl_cons]
    apply ih
    cases op with
    | get k => exact placed_lookup h k
    | purge k => exact placed_remove h _ k

end LRU
end Pike
