import Pike.Model.LZ4
namespace Pike
namespace LZ4

/-- every element is a byte -/
def IsBytes (s : Str) : Prop := ∀ c ∈ s, c.toNat < 256

theorem isBytes_tail {c : Char} {cs : Str} (h : IsBytes (c :: cs)) : IsBytes cs :=
  fun x hx => h x (List.mem_cons_of_mem _ hx)

theorem readExt_bound {s r : Str} {n : Nat} (hb : IsBytes s) (h : readExt s = some (n, r)) :
    ∃ k, s.length = r.length + k ∧ 1 ≤ k ∧ n ≤ 255 * k ∧ IsBytes r := by
  induction s generalizing n r with
  | nil => simp [readExt] at h
  | cons c cs ih =>
    simp only [readExt] at h
    split at h
    · split at h
      · rename_i n' r' heq
        simp only [Option.some.injEq, Prod.mk.injEq] at h
        obtain ⟨k, hk1, hk2, hk3, hk4⟩ := ih (isBytes_tail hb) heq
        refine ⟨k + 1, ?_, by omega, by omega, h.2 ▸ hk4⟩
        rw [← h.2]; simp only [List.length_cons]; omega
      · simp at h
    · simp only [Option.some.injEq, Prod.mk.injEq] at h
      have hc := hb c List.mem_cons_self
      exact ⟨1, by rw [← h.2]; simp, by omega, by omega, h.2 ▸ isBytes_tail hb⟩

theorem readLen_bound {nib : Nat} {s r : Str} {n : Nat} (hn : nib ≤ 15) (hb : IsBytes s)
    (h : readLen nib s = some (n, r)) :
    ∃ k, s.length = r.length + k ∧ n ≤ 15 + 255 * k ∧ IsBytes r := by
  unfold readLen at h
  split at h
  · split at h
    · rename_i n' r' heq
      simp only [Option.some.injEq, Prod.mk.injEq] at h
      obtain ⟨k, h1, _, h3, h4⟩ := readExt_bound hb heq
      exact ⟨k, by rw [← h.2]; exact h1, by omega, h.2 ▸ h4⟩
    · simp at h
  · simp only [Option.some.injEq, Prod.mk.injEq] at h
    exact ⟨0, by rw [← h.2]; simp, by omega, h.2 ▸ hb⟩

theorem copyMatch_length (n off : Nat) (out : Str) : (copyMatch n off out).length = out.length + n := by
  induction n generalizing out with
  | zero => simp [copyMatch]
  | succ n ih => simp only [copyMatch]; rw [ih]; simp; omega

theorem isBytes_drop {s : Str} (n : Nat) (h : IsBytes s) : IsBytes (s.drop n) :=
  fun c hc => h c (List.mem_of_mem_drop hc)

/-- decoding never expands by more than 255 per input byte -/
theorem decodeSeqs_bound (fuel : Nat) (inp out d : Str) (hb : IsBytes inp)
    (h : decodeSeqs fuel inp out = some d) : d.length ≤ out.length + 255 * inp.length := by
  induction fuel generalizing inp out with
  | zero => simp [decodeSeqs] at h
  | succ fuel ih =>
    cases inp with
    | nil => simp only [decodeSeqs, Option.some.injEq] at h; rw [← h]; simp
    | cons tok r0 =>
      simp only [decodeSeqs] at h
      split at h
      · simp at h
      · rename_i litLen r1 hlit
        have hnib1 : tok.toNat / 16 ≤ 15 := by
          have := hb tok List.mem_cons_self; omega
        obtain ⟨k1, hk1, _, hbr1⟩ := readLen_bound hnib1 (isBytes_tail hb) hlit
        split at h
        · simp at h
        · rename_i hlen
          split at h
          · rename_i hr2
            simp only [Option.some.injEq] at h
            rw [← h]
            simp only [List.length_append, List.length_take, List.length_cons]
            omega
          · simp at h
          · rename_i lo hi r3 hr2
            have hl2 : (r1.drop litLen).length = r3.length + 2 := by rw [hr2]; simp
            simp only [List.length_drop] at hl2
            split at h
            · simp at h
            · split at h
              · simp at h
              · rename_i ml r4 hml
                have hbr3 : IsBytes r3 := by
                  have := isBytes_drop litLen hbr1
                  rw [hr2] at this
                  exact isBytes_tail (isBytes_tail this)
                have hnib2 : tok.toNat % 16 ≤ 15 := by omega
                obtain ⟨k2, hk2, hk2b, hbr4⟩ := readLen_bound hnib2 hbr3 hml
                have := ih r4 _ hbr4 h
                rw [copyMatch_length] at this
                simp only [List.length_append, List.length_take, List.length_cons] at this ⊢
                omega

theorem decodeBlock_bound (block d : Str) (hb : IsBytes block) (h : decodeBlock block = some d) :
    d.length ≤ 255 * block.length := by
  have := decodeSeqs_bound _ block [] d hb h
  simpa using this

end LZ4
end Pike
