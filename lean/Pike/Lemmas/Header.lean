import Pike.Model.Header
namespace Pike
namespace Header

theorem values_append (h g : Header) (k : Str) : values (h ++ g) k = values h k ++ values g k := by
  induction h with
  | nil => simp [values]
  | cons e h ih =>
    obtain ⟨k', vs⟩ := e
    simp only [List.cons_append, values]
    split
    · rw [ih, List.append_assoc]
    · exact ih

theorem values_filter_other (h : Header) (p : Str × List Str → Bool) (k : Str)
    (hp : ∀ e ∈ h, e.1 = k → p e = true) : values (h.filter p) k = values h k := by
  induction h with
  | nil => simp [values]
  | cons e h ih =>
    obtain ⟨k', vs⟩ := e
    have ih' := ih (fun e he => hp e (List.mem_cons_of_mem _ he))
    simp only [List.filter_cons]
    by_cases hk : k' = k
    · have := hp (k', vs) List.mem_cons_self hk
      rw [if_pos this]
      simp only [values, hk, if_true, ih']
    · by_cases hpe : p (k', vs) = true
      · simp only [hpe, if_true, values, hk, if_false, ih']
      · simp only [hpe, Bool.false_eq_true, if_false, values, hk, ih']

theorem values_map_other (h : Header) (k k' : Str) (v : Str) (hne : k' ≠ k) :
    values (h.map fun e => if e.1 = k then (e.1, e.2 ++ [v]) else e) k' = values h k' := by
  induction h with
  | nil => simp [values]
  | cons e h ih =>
    obtain ⟨a, vs⟩ := e
    simp only [List.map_cons]
    by_cases ha : a = k
    · have : ¬ a = k' := by rw [ha]; exact fun h' => hne h'.symm
      simp only [ha, if_true, values]
      rw [ha] at this
      simp only [this, if_false]
      exact ih
    · simp only [ha, if_false, values]
      split
      · rw [ih]
      · exact ih

theorem values_add_other (h : Header) (k k' v : Str) (hne : k' ≠ k) : values (h.add k v) k' = values h k' := by
  unfold add
  split
  · exact values_map_other h k k' v hne
  · rw [values_append]
    have : ¬ k = k' := fun h' => hne h'.symm
    simp [values, this]

theorem values_del_other (h : Header) (k k' : Str) (hne : k' ≠ k) : values (h.del k) k' = values h k' := by
  unfold del
  apply values_filter_other
  intro e _ he
  have : e.1 ≠ k := by rw [he]; exact hne
  simpa using this

theorem values_del_same (h : Header) (k : Str) : values (h.del k) k = [] := by
  unfold del
  induction h with
  | nil => simp [values]
  | cons e h ih =>
    obtain ⟨a, vs⟩ := e
    simp only [List.filter_cons]
    by_cases ha : a = k
    · simp only [ha, ne_eq, not_true_eq_false, decide_false, Bool.false_eq_true, if_false]; exact ih
    · simp only [ne_eq, ha, not_false_eq_true, decide_true, if_true, values, if_false]; exact ih

theorem values_set_other (h : Header) (k k' v : Str) (hne : k' ≠ k) : values (h.set k v) k' = values h k' := by
  unfold set
  rw [values_append, values_del_other h k k' hne]
  have : ¬ k = k' := fun h' => hne h'.symm
  simp [values, this]

theorem values_set_same (h : Header) (k v : Str) : values (h.set k v) k = [v] := by
  unfold set
  rw [values_append, values_del_same]
  simp [values]

end Header
end Pike
