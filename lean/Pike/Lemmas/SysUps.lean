import Pike.Lemmas.SysInv
/- Ghost accounting of upstream contacts per request (for the cache-status label, C03). -/
namespace Pike
namespace Sys
open Entry

/-- completed upstream requests a request in this position has behind it -/
def upsOf : Pc → Nat
  | .fetchDone _ _ => 1
  | .draining _ _ => 1
  | .done (.fetched _) => 1
  | .done .passed => 1
  | _ => 0

@[simp, grind =] theorem upsOf_idle : upsOf .idle = 0 := rfl
@[simp, grind =] theorem upsOf_arrived (k) : upsOf (.arrived k) = 0 := rfl
@[simp, grind =] theorem upsOf_looked (e) : upsOf (.looked e) = 0 := rfl
@[simp, grind =] theorem upsOf_registered (e) : upsOf (.registered e) = 0 := rfl
@[simp, grind =] theorem upsOf_parked (e) : upsOf (.parked e) = 0 := rfl
@[simp, grind =] theorem upsOf_woken (e st r) : upsOf (.woken e st r) = 0 := rfl
@[simp, grind =] theorem upsOf_fetchUp (e) : upsOf (.fetchUp e) = 0 := rfl
@[simp, grind =] theorem upsOf_fetchDone (e o) : upsOf (.fetchDone e o) = 1 := rfl
@[simp, grind =] theorem upsOf_draining (e o) : upsOf (.draining e o) = 1 := rfl
@[simp, grind =] theorem upsOf_passUp : upsOf .passUp = 0 := rfl
@[simp, grind =] theorem upsOf_hitServe (e r) : upsOf (.hitServe e r) = 0 := rfl
@[simp, grind =] theorem upsOf_done_hit (r a) : upsOf (.done (.hit r a)) = 0 := rfl
@[simp, grind =] theorem upsOf_done_fetched (o) : upsOf (.done (.fetched o)) = 1 := rfl
@[simp, grind =] theorem upsOf_done_passed : upsOf (.done .passed) = 1 := rfl

def InvU (s : State) : Prop := ∀ t, s.ups t = upsOf (s.pc t)

theorem invU_init (now : Int) (hs : Bool) : InvU (init now hs) := fun _ => rfl

theorem invU_step {s s' : State} (hi : Inv s) (h : InvU s) (ev : Event) (hs : step false s ev = some s') : InvU s' := by
  intro t'
  have ht := h t'
  cases ev with
  | arrive t k =>
    simp only [step] at hs; split at hs
    · simp only [Option.some.injEq] at hs; subst hs; simp only; grind
    · simp at hs
  | arrivePass t =>
    simp only [step] at hs; split at hs
    · simp only [Option.some.injEq] at hs; subst hs; simp only; grind
    · simp at hs
  | lookup t =>
    simp only [step] at hs; split at hs
    · split at hs <;> (simp only [Option.some.injEq] at hs; subst hs; simp only; grind)
    · simp at hs
  | drop k => simp only [step, Option.some.injEq] at hs; subst hs; exact ht
  | purge k d => simp only [step, Option.some.injEq] at hs; subst hs; exact ht
  | get t so =>
    simp only [step] at hs; split at hs
    · split at hs
      · generalize Entry.get t s.now so (s.entries _) = g at hs
        obtain ⟨en, got⟩ := g
        simp only [Option.some.injEq] at hs; subst hs; simp only
        cases got <;> grind
      · simp at hs
    · simp at hs
  | park t =>
    simp only [step] at hs; split at hs
    · simp only [Option.some.injEq] at hs; subst hs; simp only; grind
    · simp at hs
  | upEnd t o =>
    simp only [step] at hs; split at hs
    · split at hs
      · split at hs
        · simp only [Option.some.injEq] at hs; subst hs; simp only; grind
        · simp at hs
      · simp only [Option.some.injEq] at hs; subst hs; simp only; grind
    · simp only [Option.some.injEq] at hs; subst hs; simp only; grind
    · simp at hs
  | complete t hfp =>
    simp only [step] at hs; split at hs
    · split at hs
      · simp only [Option.some.injEq] at hs; subst hs; simp only; grind
      · simp at hs
    · simp at hs
  | send t =>
    simp only [step] at hs; split at hs
    · split at hs
      · split at hs
        · simp only [Option.some.injEq] at hs; subst hs; simp only; grind
        · simp at hs
      · simp at hs
    · simp at hs
  | saved t ok =>
    simp only [step] at hs; split at hs
    · split at hs
      · simp at hs
      · simp only [Option.some.injEq] at hs; subst hs; simp only; grind
    · simp at hs
  | resume t =>
    simp only [step] at hs; split at hs
    · rename_i e st r hpu
      have := hi.woken_status t e st r hpu
      simp only [Bool.false_eq_true, if_false, Option.some.injEq] at hs; subst hs; simp only
      cases st <;> grind
    · simp at hs
  | age t =>
    simp only [step] at hs; split at hs
    · split at hs
      · simp only [Option.some.injEq] at hs; subst hs; simp only; grind
      · simp at hs
    · simp at hs
  | tick d =>
    simp only [step] at hs; split at hs
    · simp only [Option.some.injEq] at hs; subst hs; exact ht
    · simp at hs
  | crash => simp only [step, Option.some.injEq] at hs; subst hs; rfl

theorem invU_run {s s' : State} (hi : Inv s) (h : InvU s) (evs : List Event) (hs : run false s evs = some s') : InvU s' := by
  induction evs generalizing s with
  | nil => simp only [run, Option.some.injEq] at hs; subst hs; exact h
  | cons ev evs ih =>
    simp only [run] at hs
    split at hs
    · rename_i s1 h1; exact ih (inv_step hi ev h1) (invU_step hi h ev h1) hs
    · simp at hs

theorem invU_reachable {s : State} (h : Reachable false s) : InvU s := by
  obtain ⟨now, hs, evs, hn, hr⟩ := h
  exact invU_run (inv_init now hs hn) (invU_init now hs) evs hr

end Sys
end Pike
