import Pike.Model.Reconfig
namespace Pike
namespace Reconfig

variable {V : Type}

theorem find_congr {α : Type} (l : List α) (p q : α → Bool) (h : ∀ x ∈ l, p x = q x) : l.find? p = l.find? q := by
  induction l with
  | nil => rfl
  | cons a l ih =>
    simp only [List.find?_cons]
    rw [h a List.mem_cons_self, ih (fun x hx => h x (List.mem_cons_of_mem _ hx))]

theorem find_none {α : Type} (l : List α) (p : α → Bool) (h : ∀ x ∈ l, p x = false) : l.find? p = none := by
  rw [List.find?_eq_none]; intro x hx; simp [h x hx]

theorem get_filter (m : Map V) (p : Str → Bool) (n : Str) :
    Map.get (m.filter fun e => p e.1) n = if p n then Map.get m n else none := by
  unfold Map.get
  rw [List.find?_filter]
  by_cases hp : p n = true
  · rw [if_pos hp]
    congr 1
    apply find_congr
    intro x _
    by_cases hx : x.1 = n
    · simp [hx, hp]
    · simp [hx]
  · rw [if_neg hp]
    rw [find_none]
    · rfl
    · intro x _
      by_cases hx : x.1 = n
      · have : p n = false := by simpa using hp
        simp [hx, this]
      · simp [hx]

theorem get_cons (k : Str) (v : V) (m : Map V) (n : Str) :
    Map.get ((k, v) :: m) n = if k = n then some v else Map.get m n := by
  unfold Map.get
  simp only [List.find?_cons]
  by_cases h : k = n <;> simp [h]

theorem get_del (m : Map V) (k n : Str) : (m.del k).get n = if n = k then none else m.get n := by
  unfold Map.del
  have := get_filter m (fun x => decide (x ≠ k)) n
  simp only [decide_eq_true_eq] at this
  rw [this]
  by_cases h : n = k <;> simp [h]

theorem get_put (m : Map V) (k : Str) (v : V) (n : Str) : (m.put k v).get n = if n = k then some v else m.get n := by
  unfold Map.put
  rw [get_cons, get_del]
  by_cases h : k = n
  · simp [h]
  · have : ¬ n = k := fun h' => h h'.symm
    simp [h, this]

theorem get_stale (m : Map V) (keep : Str → Bool) (n : Str) :
    (stale m keep).get n = if keep n then m.get n else none := get_filter m keep n

/-- last configured value for a name -/
def lookup : List (Str × V) → Str → Option V
  | [], _ => none
  | e :: cs, n => match lookup cs n with
    | some v => some v
    | none => if e.1 = n then some e.2 else none

theorem get_foldl_put (cs : List (Str × V)) (m : Map V) (n : Str) :
    (cs.foldl (fun m e => m.put e.1 e.2) m).get n = (lookup cs n).or (m.get n) := by
  induction cs generalizing m with
  | nil => simp [lookup]
  | cons e cs ih =>
    simp only [List.foldl_cons]
    rw [ih, get_put]
    simp only [lookup]
    cases lookup cs n with
    | some v => simp
    | none =>
      by_cases h : e.1 = n
      · simp [h]
      · have : ¬ n = e.1 := fun h' => h h'.symm
        simp [h, this]

theorem lookup_isSome_iff (cs : List (Str × V)) (n : Str) : (lookup cs n).isSome = (cs.map (·.1)).contains n := by
  induction cs with
  | nil => simp [lookup]
  | cons e cs ih =>
    simp only [lookup, List.map_cons, List.contains_cons]
    cases hl : lookup cs n with
    | some v =>
      rw [hl] at ih
      simp only [Option.isSome_some] at ih ⊢
      rw [← ih]; simp
    | none =>
      rw [hl] at ih
      simp only [Option.isSome_none] at ih
      rw [← ih]
      by_cases h : e.1 = n
      · simp [h]
      · have hne : ¬ n = e.1 := fun h' => h h'.symm
        have : (n == e.1) = false := by simp [hne]
        simp [h, this]

end Reconfig
end Pike
