import Pike.Model.Sys
import Pike.Lemmas.Entry
namespace Pike
namespace Sys
open Entry

attribute [grind =] upd_apply

@[simp, grind =] theorem fetchOf_idle : fetchOf .idle = none := rfl
@[simp, grind =] theorem fetchOf_arrived (k) : fetchOf (.arrived k) = none := rfl
@[simp, grind =] theorem fetchOf_looked (e) : fetchOf (.looked e) = none := rfl
@[simp, grind =] theorem fetchOf_registered (e) : fetchOf (.registered e) = none := rfl
@[simp, grind =] theorem fetchOf_parked (e) : fetchOf (.parked e) = none := rfl
@[simp, grind =] theorem fetchOf_woken (e st r) : fetchOf (.woken e st r) = none := rfl
@[simp, grind =] theorem fetchOf_fetchUp (e) : fetchOf (.fetchUp e) = some e := rfl
@[simp, grind =] theorem fetchOf_fetchDone (e o) : fetchOf (.fetchDone e o) = some e := rfl
@[simp, grind =] theorem fetchOf_draining (e o) : fetchOf (.draining e o) = none := rfl
@[simp, grind =] theorem fetchOf_passUp : fetchOf .passUp = none := rfl
@[simp, grind =] theorem fetchOf_hitServe (e r) : fetchOf (.hitServe e r) = none := rfl
@[simp, grind =] theorem fetchOf_done (a) : fetchOf (.done a) = none := rfl

@[simp, grind =] theorem waitOf_idle : waitOf .idle = none := rfl
@[simp, grind =] theorem waitOf_arrived (k) : waitOf (.arrived k) = none := rfl
@[simp, grind =] theorem waitOf_looked (e) : waitOf (.looked e) = none := rfl
@[simp, grind =] theorem waitOf_registered (e) : waitOf (.registered e) = some e := rfl
@[simp, grind =] theorem waitOf_parked (e) : waitOf (.parked e) = some e := rfl
@[simp, grind =] theorem waitOf_woken (e st r) : waitOf (.woken e st r) = none := rfl
@[simp, grind =] theorem waitOf_fetchUp (e) : waitOf (.fetchUp e) = none := rfl
@[simp, grind =] theorem waitOf_fetchDone (e o) : waitOf (.fetchDone e o) = none := rfl
@[simp, grind =] theorem waitOf_draining (e o) : waitOf (.draining e o) = none := rfl
@[simp, grind =] theorem waitOf_passUp : waitOf .passUp = none := rfl
@[simp, grind =] theorem waitOf_hitServe (e r) : waitOf (.hitServe e r) = none := rfl
@[simp, grind =] theorem waitOf_done (a) : waitOf (.done a) = none := rfl

@[simp, grind =] theorem drainOf_idle : drainOf .idle = none := rfl
@[simp, grind =] theorem drainOf_arrived (k) : drainOf (.arrived k) = none := rfl
@[simp, grind =] theorem drainOf_looked (e) : drainOf (.looked e) = none := rfl
@[simp, grind =] theorem drainOf_registered (e) : drainOf (.registered e) = none := rfl
@[simp, grind =] theorem drainOf_parked (e) : drainOf (.parked e) = none := rfl
@[simp, grind =] theorem drainOf_woken (e st r) : drainOf (.woken e st r) = none := rfl
@[simp, grind =] theorem drainOf_fetchUp (e) : drainOf (.fetchUp e) = none := rfl
@[simp, grind =] theorem drainOf_fetchDone (e o) : drainOf (.fetchDone e o) = none := rfl
@[simp, grind =] theorem drainOf_draining (e o) : drainOf (.draining e o) = some e := rfl
@[simp, grind =] theorem drainOf_passUp : drainOf .passUp = none := rfl
@[simp, grind =] theorem drainOf_hitServe (e r) : drainOf (.hitServe e r) = none := rfl
@[simp, grind =] theorem drainOf_done (a) : drainOf (.done a) = none := rfl

@[simp, grind =] theorem refOf_idle : refOf .idle = none := rfl
@[simp, grind =] theorem refOf_arrived (k) : refOf (.arrived k) = none := rfl
@[simp, grind =] theorem refOf_looked (e) : refOf (.looked e) = some e := rfl
@[simp, grind =] theorem refOf_registered (e) : refOf (.registered e) = some e := rfl
@[simp, grind =] theorem refOf_parked (e) : refOf (.parked e) = some e := rfl
@[simp, grind =] theorem refOf_woken (e st r) : refOf (.woken e st r) = some e := rfl
@[simp, grind =] theorem refOf_fetchUp (e) : refOf (.fetchUp e) = some e := rfl
@[simp, grind =] theorem refOf_fetchDone (e o) : refOf (.fetchDone e o) = some e := rfl
@[simp, grind =] theorem refOf_draining (e o) : refOf (.draining e o) = some e := rfl
@[simp, grind =] theorem refOf_passUp : refOf .passUp = none := rfl
@[simp, grind =] theorem refOf_hitServe (e r) : refOf (.hitServe e r) = some e := rfl
@[simp, grind =] theorem refOf_done (a) : refOf (.done a) = none := rfl

/-- the inductive invariant of the protocol (for the hand-over variant, `reread = false`) -/
structure Inv (s : State) : Prop where
  now_nonneg : 0 ≤ s.now
  entry_ok : ∀ e, Entry.OK (s.entries e)
  fetch_owner : ∀ t e, fetchOf (s.pc t) = some e → s.owner e = some t
  owner_fetch : ∀ t e, s.owner e = some t → fetchOf (s.pc t) = some e
  fetching_owner : ∀ e, (s.entries e).status = .fetching → s.owner e ≠ none
  owner_fetching : ∀ e, s.owner e ≠ none → (s.entries e).status = .fetching
  wait_where : ∀ t e, waitOf (s.pc t) = some e → t ∈ (s.entries e).waiters ∨ t ∈ s.queue e
  mem_wait : ∀ t e, t ∈ (s.entries e).waiters → waitOf (s.pc t) = some e
  queue_wait : ∀ t e, t ∈ s.queue e → waitOf (s.pc t) = some e
  nodup : ∀ e, ((s.entries e).waiters ++ s.queue e).Nodup
  queue_locked : ∀ e, s.queue e ≠ [] → s.lock e ≠ none
  drain_lock : ∀ t e, drainOf (s.pc t) = some e → s.lock e = some t
  lock_drain : ∀ t e, s.lock e = some t → drainOf (s.pc t) = some e
  locked_status : ∀ e, s.lock e ≠ none →
    (s.entries e).status ≠ .fetching ∧ (s.entries e).status ≠ .unknown ∧ (s.entries e).waiters = []
  woken_status : ∀ t e st r, s.pc t = .woken e st r → st = .hit ∨ st = .hitForPass
  done_pos : ∀ t e ttl r, s.pc t = .fetchDone e (.cacheable ttl r) → 0 < ttl
  ref_alloc : ∀ t e, refOf (s.pc t) = some e → e.n < s.next
  shard_alloc : ∀ k e, s.shard k = some e → e.n < s.next ∧ (s.entries e).key = k
  pristine : ∀ e, s.next ≤ e.n →
    (s.entries e).status = .unknown ∧ (s.entries e).waiters = [] ∧ (s.entries e).expiredAt = 0
    ∧ s.owner e = none ∧ s.lock e = none ∧ s.queue e = []

theorem inv_init (now : Int) (hs : Bool) (h : 0 ≤ now) : Inv (init now hs) where
  now_nonneg := h
  entry_ok := fun _ => Entry.ok_fresh _
  fetch_owner := by simp [init]
  owner_fetch := by simp [init]
  fetching_owner := by simp [init]
  owner_fetching := by simp [init]
  wait_where := by simp [init]
  mem_wait := by simp [init]
  queue_wait := by simp [init]
  nodup := by simp [init]
  queue_locked := by simp [init]
  drain_lock := by simp [init]
  lock_drain := by simp [init]
  locked_status := by simp [init]
  woken_status := by simp [init]
  done_pos := by simp [init]
  ref_alloc := by simp [init]
  shard_alloc := by simp [init]
  pristine := by simp [init]

end Sys
end Pike

namespace Pike
namespace Sys
open Entry

/-- events that only move one thread's pc between classes that no invariant clause separates -/
theorem inv_pc_only {s : State} (h : Inv s) (t : Tid) (p : Pc)
    (hf : fetchOf p = fetchOf (s.pc t)) (hw : waitOf p = waitOf (s.pc t))
    (hd : drainOf p = drainOf (s.pc t)) (hr : ∀ e, refOf p = some e → refOf (s.pc t) = some e)
    (hwk : ∀ e st r, p ≠ .woken e st r)
    (hfd : ∀ e ttl r, p = .fetchDone e (.cacheable ttl r) → 0 < ttl := by simp) (u : Tid → Nat := s.ups) :
    Inv { s with pc := upd s.pc t p, ups := u } := by
  constructor
  all_goals simp only
  · exact h.now_nonneg
  · exact h.entry_ok
  · intro t' e'; have := h.fetch_owner t' e'; grind
  · intro t' e'; have := h.owner_fetch t' e'; grind
  · exact h.fetching_owner
  · exact h.owner_fetching
  · intro t' e'; have := h.wait_where t' e'; grind
  · intro t' e'; have := h.mem_wait t' e'; grind
  · intro t' e'; have := h.queue_wait t' e'; grind
  · exact h.nodup
  · exact h.queue_locked
  · intro t' e'; have := h.drain_lock t' e'; grind
  · intro t' e'; have := h.lock_drain t' e'; grind
  · exact h.locked_status
  · intro t' e' st r; have := h.woken_status t' e' st r; have := hwk e' st r; grind
  · intro t' e' ttl r; have := h.done_pos t' e' ttl r; have := hfd e' ttl r; grind
  · intro t' e'; have := h.ref_alloc t' e'; have := hr e'; grind
  · exact h.shard_alloc
  · exact h.pristine

theorem inv_arrive {s s' : State} (h : Inv s) (t : Tid) (k : Key) (hs : step false s (.arrive t k) = some s') : Inv s' := by
  simp only [step] at hs
  split at hs
  · rename_i hpc
    simp only [Option.some.injEq] at hs; subst hs
    exact inv_pc_only h t _ (by simp [hpc]) (by simp [hpc]) (by simp [hpc]) (by simp) (by simp)
  · simp at hs

theorem inv_arrivePass {s s' : State} (h : Inv s) (t : Tid) (hs : step false s (.arrivePass t) = some s') : Inv s' := by
  simp only [step] at hs
  split at hs
  · rename_i hpc
    simp only [Option.some.injEq] at hs; subst hs
    exact inv_pc_only h t _ (by simp [hpc]) (by simp [hpc]) (by simp [hpc]) (by simp) (by simp)
  · simp at hs

theorem inv_park {s s' : State} (h : Inv s) (t : Tid) (hs : step false s (.park t) = some s') : Inv s' := by
  simp only [step] at hs
  split at hs
  · rename_i e hpc
    simp only [Option.some.injEq] at hs; subst hs
    exact inv_pc_only h t _ (by simp [hpc]) (by simp [hpc]) (by simp [hpc]) (by simp [hpc]) (by simp)
  · simp at hs

theorem inv_upEnd {s s' : State} (h : Inv s) (t : Tid) (o : Outcome) (hs : step false s (.upEnd t o) = some s') : Inv s' := by
  simp only [step] at hs
  split at hs
  · rename_i e hpc
    split at hs
    · split at hs
      · rename_i hpos
        simp only [Option.some.injEq] at hs; subst hs
        exact inv_pc_only h t _ (by simp [hpc]) (by simp [hpc]) (by simp [hpc]) (by simp [hpc]) (by simp)
          (by intro e' ttl' r' heq; simp only [Pc.fetchDone.injEq, Outcome.cacheable.injEq] at heq; omega) _
      · simp at hs
    · simp only [Option.some.injEq] at hs; subst hs
      exact inv_pc_only h t _ (by simp [hpc]) (by simp [hpc]) (by simp [hpc]) (by simp [hpc]) (by simp) (u := _)
  · rename_i hpc
    simp only [Option.some.injEq] at hs; subst hs
    exact inv_pc_only h t _ (by simp [hpc]) (by simp [hpc]) (by simp [hpc]) (by simp) (by simp) (u := _)
  · simp at hs

theorem inv_age {s s' : State} (h : Inv s) (t : Tid) (hs : step false s (.age t) = some s') : Inv s' := by
  simp only [step] at hs
  split at hs
  · rename_i e r hpc
    split at hs
    · simp only [Option.some.injEq] at hs; subst hs
      exact inv_pc_only h t _ (by simp [hpc]) (by simp [hpc]) (by simp [hpc]) (by simp) (by simp)
    · simp at hs
  · simp at hs

theorem inv_resume {s s' : State} (h : Inv s) (t : Tid) (hs : step false s (.resume t) = some s') : Inv s' := by
  simp only [step] at hs
  split at hs
  · rename_i e st r hpc
    simp only [Bool.false_eq_true, if_false, Option.some.injEq] at hs; subst hs
    have hst := h.woken_status t e st r hpc
    cases st
    · exact inv_pc_only h t _ (by simp [hpc]) (by simp [hpc]) (by simp [hpc]) (by simp) (by simp)
    · simp at hst
    · exact inv_pc_only h t _ (by simp [hpc]) (by simp [hpc]) (by simp [hpc]) (by simp) (by simp)
    · exact inv_pc_only h t _ (by simp [hpc]) (by simp [hpc]) (by simp [hpc]) (by simp [hpc]) (by simp)
  · simp at hs

theorem inv_tick {s s' : State} (h : Inv s) (d : Int) (hs : step false s (.tick d) = some s') : Inv s' := by
  simp only [step] at hs
  split at hs
  · simp only [Option.some.injEq] at hs; subst hs
    exact { h with now_nonneg := by have := h.now_nonneg; simp only; omega }
  · simp at hs

end Sys
end Pike

namespace Pike
namespace Sys
open Entry

theorem inv_shard_none {s : State} (h : Inv s) (k : Key) (st : Key → Option Rec) :
    Inv { s with shard := upd s.shard k none, store := st } := by
  constructor
  all_goals simp only
  · exact h.now_nonneg
  · exact h.entry_ok
  · exact h.fetch_owner
  · exact h.owner_fetch
  · exact h.fetching_owner
  · exact h.owner_fetching
  · exact h.wait_where
  · exact h.mem_wait
  · exact h.queue_wait
  · exact h.nodup
  · exact h.queue_locked
  · exact h.drain_lock
  · exact h.lock_drain
  · exact h.locked_status
  · exact h.woken_status
  · exact h.done_pos
  · exact h.ref_alloc
  · intro k' e'; have := h.shard_alloc k' e'; grind
  · exact h.pristine

theorem inv_drop {s s' : State} (h : Inv s) (k : Key) (hs : step false s (.drop k) = some s') : Inv s' := by
  simp only [step, Option.some.injEq] at hs; subst hs
  exact inv_shard_none h k s.store

theorem inv_purge {s s' : State} (h : Inv s) (k : Key) (d : Bool) (hs : step false s (.purge k d) = some s') : Inv s' := by
  simp only [step, Option.some.injEq] at hs; subst hs
  exact inv_shard_none h k _

theorem inv_lookup {s s' : State} (h : Inv s) (t : Tid) (hs : step false s (.lookup t) = some s') : Inv s' := by
  simp only [step] at hs
  split at hs
  · rename_i k hpc
    split at hs
    · rename_i e hsh
      simp only [Option.some.injEq] at hs; subst hs
      have hal := (h.shard_alloc k e hsh).1
      constructor
      all_goals simp only
      · exact h.now_nonneg
      · exact h.entry_ok
      · intro t' e'; have := h.fetch_owner t' e'; grind
      · intro t' e'; have := h.owner_fetch t' e'; grind
      · exact h.fetching_owner
      · exact h.owner_fetching
      · intro t' e'; have := h.wait_where t' e'; grind
      · intro t' e'; have := h.mem_wait t' e'; grind
      · intro t' e'; have := h.queue_wait t' e'; grind
      · exact h.nodup
      · exact h.queue_locked
      · intro t' e'; have := h.drain_lock t' e'; grind
      · intro t' e'; have := h.lock_drain t' e'; grind
      · exact h.locked_status
      · intro t' e' st r; have := h.woken_status t' e' st r; grind
      · intro t' e' ttl r; have := h.done_pos t' e' ttl r; grind
      · intro t' e'; have := h.ref_alloc t' e'; grind
      · exact h.shard_alloc
      · exact h.pristine
    · rename_i hsh
      simp only [Option.some.injEq] at hs; subst hs
      have hp := h.pristine ⟨s.next⟩ (Nat.le_refl _)
      constructor
      all_goals simp only
      · exact h.now_nonneg
      · intro e'; have := h.entry_ok e'; have := Entry.ok_fresh k; grind
      · intro t' e'; have := h.fetch_owner t' e'; grind
      · intro t' e'; have := h.owner_fetch t' e'; grind
      · intro e'; have := h.fetching_owner e'; grind
      · intro e'; have := h.owner_fetching e'; grind
      · intro t' e'; have := h.wait_where t' e'; have := h.ref_alloc t' e'; grind
      · intro t' e'; have := h.mem_wait t' e'; grind
      · intro t' e'; have := h.queue_wait t' e'; grind
      · intro e'; have := h.nodup e'; grind
      · exact h.queue_locked
      · intro t' e'; have := h.drain_lock t' e'; grind
      · intro t' e'; have := h.lock_drain t' e'; grind
      · intro e'; have := h.locked_status e'; grind
      · intro t' e' st r; have := h.woken_status t' e' st r; grind
      · intro t' e' ttl r; have := h.done_pos t' e' ttl r; grind
      · intro t' e'; have := h.ref_alloc t' e'; grind
      · intro k' e'; have := h.shard_alloc k' e'; grind
      · intro e' he'; have := h.pristine e' (by omega); grind
  · simp at hs

end Sys
end Pike

namespace Pike
namespace Sys
open Entry

theorem inv_get {s s' : State} (h : Inv s) (t : Tid) (so : Load) (hs : step false s (.get t so) = some s') : Inv s' := by
  simp only [step] at hs
  split at hs
  · rename_i e hpc
    split at hs
    · rename_i hlock
      have hok := h.entry_ok e
      obtain ⟨hok', hkey, hcase⟩ := Entry.get_cases t s.now so (s.entries e) hok
      generalize hg : Entry.get t s.now so (s.entries e) = g at hs hok' hkey hcase
      obtain ⟨en, got⟩ := g
      simp only [Option.some.injEq] at hs; subst hs
      simp only at hok' hkey hcase
      have hnw : t ∉ (s.entries e).waiters := fun hm => by have := h.mem_wait t e hm; simp [hpc] at this
      have hnq : t ∉ s.queue e := fun hm => by have := h.queue_wait t e hm; simp [hpc] at this
      have hal := h.ref_alloc t e (by simp [hpc])
      rcases hcase with ⟨hst, rfl, rfl⟩ | ⟨hst, hw, hw', hrest⟩
      · -- registers as a waiter
        constructor
        all_goals simp only
        · exact h.now_nonneg
        · intro e'; have := h.entry_ok e'; grind
        · intro t' e'; have := h.fetch_owner t' e'; grind
        · intro t' e'; have := h.owner_fetch t' e'; grind
        · intro e'; have := h.fetching_owner e'; grind
        · intro e'; have := h.owner_fetching e'; grind
        · intro t' e'; have := h.wait_where t' e'; grind
        · intro t' e'; have := h.mem_wait t' e'; grind
        · intro t' e'; have := h.queue_wait t' e'; grind
        · intro e'
          have := h.nodup e'
          by_cases he : e' = e
          · subst he
            simp only [upd_same]
            rw [List.append_assoc, List.nodup_append] at *
            grind
          · rw [upd_other _ _ _ _ he]; exact this
        · exact h.queue_locked
        · intro t' e'; have := h.drain_lock t' e'; grind
        · intro t' e'; have := h.lock_drain t' e'; grind
        · intro e'; have := h.locked_status e'; grind
        · intro t' e' st r; have := h.woken_status t' e' st r; grind
        · intro t' e' ttl r; have := h.done_pos t' e' ttl r; grind
        · intro t' e'; have := h.ref_alloc t' e'; grind
        · intro k' e'; have := h.shard_alloc k' e'; grind
        · intro e' he'; have := h.pristine e' he'; grind
      · have hown : s.owner e = none := by
          have := h.owner_fetching e
          grind
        have hq : s.queue e = [] := by
          have := h.queue_locked e
          grind
        rcases hrest with ⟨rfl, hfs⟩ | ⟨rfl, hps⟩ | ⟨x, rfl, hhs, hr⟩
        · -- becomes the fetcher
          constructor
          all_goals simp only [if_true]
          · exact h.now_nonneg
          · intro e'; have := h.entry_ok e'; grind
          · intro t' e'; have := h.fetch_owner t' e'; grind
          · intro t' e'; have := h.owner_fetch t' e'; grind
          · intro e'; have := h.fetching_owner e'; grind
          · intro e'; have := h.owner_fetching e'; grind
          · intro t' e'; have := h.wait_where t' e'; grind
          · intro t' e'; have := h.mem_wait t' e'; grind
          · intro t' e'; have := h.queue_wait t' e'; grind
          · intro e'; have := h.nodup e'; grind
          · exact h.queue_locked
          · intro t' e'; have := h.drain_lock t' e'; grind
          · intro t' e'; have := h.lock_drain t' e'; grind
          · intro e'; have := h.locked_status e'; grind
          · intro t' e' st r; have := h.woken_status t' e' st r; grind
          · intro t' e' ttl r; have := h.done_pos t' e' ttl r; grind
          · intro t' e'; have := h.ref_alloc t' e'; grind
          · intro k' e'; have := h.shard_alloc k' e'; grind
          · intro e' he'; have := h.pristine e' he'; grind
        · -- hit-for-pass
          constructor
          all_goals simp only [reduceCtorEq, if_false]
          · exact h.now_nonneg
          · intro e'; have := h.entry_ok e'; grind
          · intro t' e'; have := h.fetch_owner t' e'; grind
          · intro t' e'; have := h.owner_fetch t' e'; grind
          · intro e'; have := h.fetching_owner e'; grind
          · intro e'; have := h.owner_fetching e'; grind
          · intro t' e'; have := h.wait_where t' e'; grind
          · intro t' e'; have := h.mem_wait t' e'; grind
          · intro t' e'; have := h.queue_wait t' e'; grind
          · intro e'; have := h.nodup e'; grind
          · exact h.queue_locked
          · intro t' e'; have := h.drain_lock t' e'; grind
          · intro t' e'; have := h.lock_drain t' e'; grind
          · intro e'; have := h.locked_status e'; grind
          · intro t' e' st r; have := h.woken_status t' e' st r; grind
          · intro t' e' ttl r; have := h.done_pos t' e' ttl r; grind
          · intro t' e'; have := h.ref_alloc t' e'; grind
          · intro k' e'; have := h.shard_alloc k' e'; grind
          · intro e' he'; have := h.pristine e' he'; grind
        · -- hit
          constructor
          all_goals simp only [reduceCtorEq, if_false]
          · exact h.now_nonneg
          · intro e'; have := h.entry_ok e'; grind
          · intro t' e'; have := h.fetch_owner t' e'; grind
          · intro t' e'; have := h.owner_fetch t' e'; grind
          · intro e'; have := h.fetching_owner e'; grind
          · intro e'; have := h.owner_fetching e'; grind
          · intro t' e'; have := h.wait_where t' e'; grind
          · intro t' e'; have := h.mem_wait t' e'; grind
          · intro t' e'; have := h.queue_wait t' e'; grind
          · intro e'; have := h.nodup e'; grind
          · exact h.queue_locked
          · intro t' e'; have := h.drain_lock t' e'; grind
          · intro t' e'; have := h.lock_drain t' e'; grind
          · intro e'; have := h.locked_status e'; grind
          · intro t' e' st r; have := h.woken_status t' e' st r; grind
          · intro t' e' ttl r; have := h.done_pos t' e' ttl r; grind
          · intro t' e'; have := h.ref_alloc t' e'; grind
          · intro k' e'; have := h.shard_alloc k' e'; grind
          · intro e' he'; have := h.pristine e' he'; grind
    · simp at hs
  · simp at hs

end Sys
end Pike

namespace Pike
namespace Sys
open Entry

theorem completeEntry_ok (o : Outcome) (now hfp : Int) (old : Entry) (hnn : 0 ≤ now)
    (hpos : o = .fail ∨ ∃ ttl r, o = .cacheable ttl r ∧ 0 < ttl) :
    Entry.OK (completeEntry o now hfp old) ∧ (completeEntry o now hfp old).waiters = []
    ∧ (completeEntry o now hfp old).status ≠ .fetching ∧ (completeEntry o now hfp old).status ≠ .unknown
    ∧ (completeEntry o now hfp old).key = old.key := by
  have hdef : 0 < Facts.defaultHitForPassSeconds := by decide
  unfold completeEntry
  cases o with
  | cacheable ttl r =>
    rcases hpos with h0 | ⟨ttl', r', h1, h2⟩
    · simp at h0
    · simp only [Outcome.cacheable.injEq] at h1
      obtain ⟨rfl, rfl⟩ := h1
      refine ⟨⟨by simp [Entry.cacheable], ?_, by simp [Entry.cacheable], by simp [Entry.cacheable]⟩, rfl, by simp [Entry.cacheable], by simp [Entry.cacheable], rfl⟩
      intro _; simp only [Entry.cacheable]; omega
  | fail =>
    refine ⟨⟨by simp [Entry.hitForPass], ?_, by simp [Entry.hitForPass], by simp [Entry.hitForPass]⟩, rfl, by simp [Entry.hitForPass], by simp [Entry.hitForPass], rfl⟩
    intro _
    simp only [Entry.hitForPass, Entry.hfpTtl]
    split <;> omega

theorem inv_complete {s s' : State} (h : Inv s) (t : Tid) (hfp : Int) (hs : step false s (.complete t hfp) = some s') : Inv s' := by
  simp only [step] at hs
  split at hs
  · rename_i e o hpc
    split at hs
    · rename_i hlock
      simp only [Option.some.injEq] at hs; subst hs
      have hown := h.fetch_owner t e (by simp [hpc])
      have hfetching := h.owner_fetching e (by simp [hown])
      have hq : s.queue e = [] := by have := h.queue_locked e; grind
      have hokE := h.entry_ok e
      have hnn := h.now_nonneg
      -- the completed entry
      have hpos : (o = .fail ∨ ∃ ttl r, o = .cacheable ttl r ∧ 0 < ttl) := by
        cases o with
        | fail => exact Or.inl rfl
        | cacheable ttl r => exact Or.inr ⟨ttl, r, rfl, h.done_pos t e ttl r hpc⟩
      obtain ⟨enok, enw, enf, enu, enk⟩ := completeEntry_ok o s.now hfp (s.entries e) hnn hpos
      generalize completeEntry o s.now hfp (s.entries e) = en at *
      have hal := h.ref_alloc t e (by simp [hpc])
      constructor
      all_goals simp only
      · exact h.now_nonneg
      · intro e'; have := h.entry_ok e'; grind
      · intro t' e'; have := h.fetch_owner t' e'; have := h.owner_fetch t' e'; grind
      · intro t' e'; have := h.owner_fetch t' e'; grind
      · intro e'; have := h.fetching_owner e'; grind
      · intro e'; have := h.owner_fetching e'; grind
      · intro t' e'; have := h.wait_where t' e'; grind
      · intro t' e'; have := h.mem_wait t' e'; grind
      · intro t' e'; have := h.queue_wait t' e'; have := h.mem_wait t' e'; grind
      · intro e'; have := h.nodup e'; grind
      · intro e'; have := h.queue_locked e'; grind
      · intro t' e'; have := h.drain_lock t' e'; grind
      · intro t' e'; have := h.lock_drain t' e'; grind
      · intro e'; have := h.locked_status e'; grind
      · intro t' e' st r; have := h.woken_status t' e' st r; grind
      · intro t' e' ttl r; have := h.done_pos t' e' ttl r; grind
      · intro t' e'; have := h.ref_alloc t' e'; grind
      · intro k' e'; have := h.shard_alloc k' e'; grind
      · intro e' he'; have := h.pristine e' he'; grind
    · simp at hs
  · simp at hs

end Sys
end Pike

namespace Pike
namespace Sys
open Entry

theorem inv_send {s s' : State} (h : Inv s) (t : Tid) (hs : step false s (.send t) = some s') : Inv s' := by
  simp only [step] at hs
  split at hs
  · rename_i e o hpc
    split at hs
    · rename_i u rest hq
      split at hs
      · rename_i hpu
        simp only [Option.some.injEq] at hs; subst hs
        have hlock := h.drain_lock t e (by simp [hpc])
        have hls := h.locked_status e (by simp [hlock])
        have hnd := h.nodup e
        have hut : u ≠ t := by intro heq; subst heq; simp [hpc] at hpu
        have hokE := h.entry_ok e
        constructor
        all_goals simp only
        · exact h.now_nonneg
        · exact h.entry_ok
        · intro t' e'; have := h.fetch_owner t' e'; grind
        · intro t' e'; have := h.owner_fetch t' e'; grind
        · exact h.fetching_owner
        · exact h.owner_fetching
        · intro t' e'; have := h.wait_where t' e'; grind
        · intro t' e'; have := h.mem_wait t' e'; grind
        · intro t' e'; have := h.queue_wait t' e'; grind
        · intro e'; have := h.nodup e'; grind
        · intro e'; have := h.queue_locked e'; grind
        · intro t' e'; have := h.drain_lock t' e'; grind
        · intro t' e'; have := h.lock_drain t' e'; grind
        · exact h.locked_status
        · intro t' e' st r; have := h.woken_status t' e' st r
          have hx := hokE.exp_zero
          cases hst : (s.entries e).status <;> grind
        · intro t' e' ttl r; have := h.done_pos t' e' ttl r; grind
        · intro t' e'; have := h.ref_alloc t' e'; have := h.ref_alloc u e; grind
        · exact h.shard_alloc
        · intro e' he'; have := h.pristine e' he'; have := h.ref_alloc t e; grind
      · simp at hs
    · simp at hs
  · simp at hs

theorem inv_saved {s s' : State} (h : Inv s) (t : Tid) (ok : Bool) (hs : step false s (.saved t ok) = some s') : Inv s' := by
  simp only [step] at hs
  split at hs
  · rename_i e o hpc
    split at hs
    · simp at hs
    · rename_i hq
      simp only [ne_eq, Decidable.not_not] at hq
      simp only [Option.some.injEq] at hs; subst hs
      have hlock := h.drain_lock t e (by simp [hpc])
      constructor
      all_goals simp only
      · exact h.now_nonneg
      · exact h.entry_ok
      · intro t' e'; have := h.fetch_owner t' e'; grind
      · intro t' e'; have := h.owner_fetch t' e'; grind
      · exact h.fetching_owner
      · exact h.owner_fetching
      · intro t' e'; have := h.wait_where t' e'; grind
      · intro t' e'; have := h.mem_wait t' e'; grind
      · intro t' e'; have := h.queue_wait t' e'; grind
      · exact h.nodup
      · intro e'; have := h.queue_locked e'; grind
      · intro t' e'; have := h.drain_lock t' e'; have := h.lock_drain t' e'; grind
      · intro t' e'; have := h.lock_drain t' e'; grind
      · intro e'; have := h.locked_status e'; grind
      · intro t' e' st r; have := h.woken_status t' e' st r; grind
      · intro t' e' ttl r; have := h.done_pos t' e' ttl r; grind
      · intro t' e'; have := h.ref_alloc t' e'; grind
      · exact h.shard_alloc
      · intro e' he'; have := h.pristine e' he'; grind
  · simp at hs

theorem inv_crash {s s' : State} (h : Inv s) (hs : step false s .crash = some s') : Inv s' := by
  simp only [step, Option.some.injEq] at hs; subst hs
  constructor
  all_goals simp only
  · exact h.now_nonneg
  · intro e; exact ⟨by simp, by simp, by simp, by simp⟩
  · simp
  · simp
  · simp
  · simp
  · simp
  · simp
  · simp
  · simp
  · simp
  · simp
  · simp
  · simp
  · simp
  · simp
  · simp
  · simp
  · intro e he; simp

/-- every event preserves the invariant -/
theorem inv_step {s s' : State} (h : Inv s) (ev : Event) (hs : step false s ev = some s') : Inv s' := by
  cases ev with
  | arrive t k => exact inv_arrive h t k hs
  | arrivePass t => exact inv_arrivePass h t hs
  | lookup t => exact inv_lookup h t hs
  | drop k => exact inv_drop h k hs
  | purge k d => exact inv_purge h k d hs
  | get t so => exact inv_get h t so hs
  | park t => exact inv_park h t hs
  | upEnd t o => exact inv_upEnd h t o hs
  | complete t hfp => exact inv_complete h t hfp hs
  | send t => exact inv_send h t hs
  | saved t ok => exact inv_saved h t ok hs
  | resume t => exact inv_resume h t hs
  | age t => exact inv_age h t hs
  | tick d => exact inv_tick h d hs
  | crash => exact inv_crash h hs

theorem inv_run {s s' : State} (h : Inv s) (evs : List Event) (hs : run false s evs = some s') : Inv s' := by
  induction evs generalizing s with
  | nil => simp only [run, Option.some.injEq] at hs; subst hs; exact h
  | cons ev evs ih =>
    simp only [run] at hs
    split at hs
    · rename_i s1 h1; exact ih (inv_step h ev h1) hs
    · simp at hs

/-- the invariant holds in every reachable state: any number of threads and keys, any schedule,
any clock behaviour, any store and upstream behaviour, purges, evictions and crashes -/
theorem inv_reachable {s : State} (h : Reachable false s) : Inv s := by
  obtain ⟨now, hs, evs, hn, hr⟩ := h
  exact inv_run (inv_init now hs hn) evs hr

end Sys
end Pike
