import Pike.Lemmas.SysInv
/-
Second layer of invariants: what the entry holds while its completer drains the waiters, and
(for runs in which the store never returns data that was not written to it) the provenance of
every hit: each served response was fetched for that key, with the recorded lifetime.
-/
namespace Pike
namespace Sys
open Entry

/-- the store answers truthfully: a record it returns for a key is the one last written there
(it may still fail, or report not-found) -/
def Honest (s : State) : Event → Prop
  | .get t so =>
    match s.pc t, so with
    | .looked e, .record rec => s.store (s.entries e).key = some rec
    | _, _ => True
  | _ => True

/-- provenance: (key, response, createdAt, expiredAt) was recorded by a completed cacheable fetch -/
def Fetched (fl : List (Key × Nat × Int × Int)) (k : Key) (r : Option Nat) (c x : Int) : Prop :=
  ∃ n, r = some n ∧ (k, n, c, x) ∈ fl ∧ c < x

structure Inv2 (s : State) : Prop where
  drain_hit : ∀ t e ttl r, s.pc t = .draining e (.cacheable ttl r) →
    (s.entries e).status = .hit ∧ (s.entries e).resp = some r
  drain_fail : ∀ t e, s.pc t = .draining e .fail → (s.entries e).status = .hitForPass
  entry_prov : ∀ e, (s.entries e).status = .hit →
    Fetched s.fetched (s.entries e).key (s.entries e).resp (s.entries e).createdAt (s.entries e).expiredAt
  store_prov : ∀ k rec, s.store k = some rec → rec.status = .hit → Fetched s.fetched k rec.resp rec.createdAt rec.expiredAt
  serve_prov : ∀ t e r, s.pc t = .hitServe e r → ∃ c x, Fetched s.fetched (s.entries e).key r c x
  woken_prov : ∀ t e r, s.pc t = .woken e .hit r → ∃ c x, Fetched s.fetched (s.entries e).key r c x

theorem fetched_mono {fl fl' : List (Key × Nat × Int × Int)} {k r c x} (h : Fetched fl k r c x) (hsub : ∀ p ∈ fl, p ∈ fl') :
    Fetched fl' k r c x := by
  obtain ⟨n, h1, h2, h3⟩ := h
  exact ⟨n, h1, hsub _ h2, h3⟩

theorem inv2_init (now : Int) (hs : Bool) : Inv2 (init now hs) :=
  ⟨by simp [init], by simp [init], by simp [init], by simp [init], by simp [init], by simp [init]⟩


theorem inv2_pc_only {s : State} (h2 : Inv2 s) (t : Tid) (p : Pc)
    (hd : ∀ e o, p ≠ .draining e o)
    (hh : ∀ e r, p = .hitServe e r → ∃ c x, Fetched s.fetched (s.entries e).key r c x)
    (hw : ∀ e st r, p ≠ .woken e st r) (u : Tid → Nat := s.ups) :
    Inv2 { s with pc := upd s.pc t p, ups := u } := by
  constructor
  all_goals simp only
  · intro t' e' ttl r; have := h2.drain_hit t' e' ttl r; have := hd e' (.cacheable ttl r); grind
  · intro t' e'; have := h2.drain_fail t' e'; have := hd e' .fail; grind
  · exact h2.entry_prov
  · exact h2.store_prov
  · intro t' e' r; have := h2.serve_prov t' e' r; have := hh e' r; grind
  · intro t' e' r; have := h2.woken_prov t' e' r; have := hw e' .hit r; grind

theorem inv2_step {s s' : State} (h : Inv s) (h2 : Inv2 s) (ev : Event) (hon : Honest s ev)
    (hs : step false s ev = some s') : Inv2 s' := by
  cases ev with
  | arrive t k =>
    simp only [step] at hs
    split at hs
    · simp only [Option.some.injEq] at hs; subst hs
      exact inv2_pc_only h2 t _ (by simp) (by simp) (by simp)
    · simp at hs
  | arrivePass t =>
    simp only [step] at hs
    split at hs
    · simp only [Option.some.injEq] at hs; subst hs
      exact inv2_pc_only h2 t _ (by simp) (by simp) (by simp)
    · simp at hs
  | park t =>
    simp only [step] at hs
    split at hs
    · simp only [Option.some.injEq] at hs; subst hs
      exact inv2_pc_only h2 t _ (by simp) (by simp) (by simp)
    · simp at hs
  | upEnd t o =>
    simp only [step] at hs
    split at hs
    · split at hs
      · split at hs
        · simp only [Option.some.injEq] at hs; subst hs
          exact inv2_pc_only h2 t _ (by simp) (by simp) (by simp) (u := _)
        · simp at hs
      · simp only [Option.some.injEq] at hs; subst hs
        exact inv2_pc_only h2 t _ (by simp) (by simp) (by simp) (u := _)
    · simp only [Option.some.injEq] at hs; subst hs
      exact inv2_pc_only h2 t _ (by simp) (by simp) (by simp) (u := _)
    · simp at hs
  | age t =>
    simp only [step] at hs
    split at hs
    · split at hs
      · simp only [Option.some.injEq] at hs; subst hs
        exact inv2_pc_only h2 t _ (by simp) (by simp) (by simp)
      · simp at hs
    · simp at hs
  | resume t =>
    simp only [step] at hs
    split at hs
    · rename_i e st r hpc
      simp only [Bool.false_eq_true, if_false, Option.some.injEq] at hs; subst hs
      have hst := h.woken_status t e st r hpc
      cases st
      · exact inv2_pc_only h2 t _ (by simp) (by simp) (by simp)
      · simp at hst
      · exact inv2_pc_only h2 t _ (by simp) (by simp) (by simp)
      · refine inv2_pc_only h2 t _ (by simp) ?_ (by simp)
        intro e' r' heq
        simp only [Pc.hitServe.injEq] at heq
        obtain ⟨rfl, rfl⟩ := heq
        exact h2.woken_prov t e r hpc
    · simp at hs
  | tick d =>
    simp only [step] at hs
    split at hs
    · simp only [Option.some.injEq] at hs; subst hs
      exact ⟨h2.drain_hit, h2.drain_fail, h2.entry_prov, h2.store_prov, h2.serve_prov, h2.woken_prov⟩
    · simp at hs
  | drop k =>
    simp only [step, Option.some.injEq] at hs; subst hs
    exact ⟨h2.drain_hit, h2.drain_fail, h2.entry_prov, h2.store_prov, h2.serve_prov, h2.woken_prov⟩
  | purge k d =>
    simp only [step, Option.some.injEq] at hs; subst hs
    refine ⟨h2.drain_hit, h2.drain_fail, h2.entry_prov, ?_, h2.serve_prov, h2.woken_prov⟩
    intro k' rec hk hst
    simp only at hk
    split at hk
    · have := h2.store_prov k' rec; grind
    · exact h2.store_prov k' rec hk hst
  | crash =>
    simp only [step, Option.some.injEq] at hs; subst hs
    exact ⟨by simp, by simp, by simp, h2.store_prov, by simp, by simp⟩
  | lookup t =>
    simp only [step] at hs
    split at hs
    · rename_i k hpc
      split at hs
      · simp only [Option.some.injEq] at hs; subst hs
        exact inv2_pc_only h2 t _ (by simp) (by simp) (by simp)
      · simp only [Option.some.injEq] at hs; subst hs
        have hp := h.pristine ⟨s.next⟩ (Nat.le_refl _)
        constructor
        all_goals simp only
        · intro t' e' ttl r; have := h2.drain_hit t' e' ttl r; have := h.ref_alloc t' e'; grind
        · intro t' e'; have := h2.drain_fail t' e'; have := h.ref_alloc t' e'; grind
        · intro e'; have := h2.entry_prov e'; grind [Fetched]
        · exact h2.store_prov
        · intro t' e' r; have := h2.serve_prov t' e' r; have := h.ref_alloc t' e'; grind [Fetched]
        · intro t' e' r; have := h2.woken_prov t' e' r; have := h.ref_alloc t' e'; grind [Fetched]
    · simp at hs
  | send t =>
    simp only [step] at hs
    split at hs
    · rename_i e o hpc
      split at hs
      · rename_i u rest hq
        split at hs
        · rename_i hpu
          simp only [Option.some.injEq] at hs; subst hs
          have hut : u ≠ t := by intro heq; subst heq; simp [hpc] at hpu
          constructor
          all_goals simp only
          · intro t' e' ttl r; have := h2.drain_hit t' e' ttl r; grind
          · intro t' e'; have := h2.drain_fail t' e'; grind
          · exact h2.entry_prov
          · exact h2.store_prov
          · intro t' e' r; have := h2.serve_prov t' e' r; grind
          · intro t' e' r hw
            by_cases htu : t' = u
            · subst htu
              simp only [upd_same, Pc.woken.injEq] at hw
              obtain ⟨he, hst, hr⟩ := hw
              subst he; subst hr
              exact ⟨_, _, h2.entry_prov e hst⟩
            · rw [upd_other _ _ _ _ htu] at hw
              exact h2.woken_prov t' e' r hw
        · simp at hs
      · simp at hs
    · simp at hs
  | saved t ok =>
    simp only [step] at hs
    split at hs
    · rename_i e o hpc
      split at hs
      · simp at hs
      · simp only [Option.some.injEq] at hs; subst hs
        constructor
        all_goals simp only
        · intro t' e' ttl r; have := h2.drain_hit t' e' ttl r; grind
        · intro t' e'; have := h2.drain_fail t' e'; grind
        · exact h2.entry_prov
        · intro k' rec hk hst
          split at hk
          · by_cases hkk : k' = (s.entries e).key
            · subst hkk
              simp only [upd_same, Option.some.injEq] at hk
              subst hk
              simp only [Entry.toRec] at hst ⊢
              exact h2.entry_prov e hst
            · rw [upd_other _ _ _ _ hkk] at hk
              exact h2.store_prov k' rec hk hst
          · exact h2.store_prov k' rec hk hst
        · intro t' e' r; have := h2.serve_prov t' e' r; grind
        · intro t' e' r; have := h2.woken_prov t' e' r; grind
    · simp at hs
  | complete t hfp =>
    simp only [step] at hs
    split at hs
    · rename_i e o hpc
      split at hs
      · simp only [Option.some.injEq] at hs; subst hs
        have hsub : ∀ p ∈ s.fetched, p ∈ (match o with
            | .cacheable ttl r => ((s.entries e).key, r, s.now, s.now + ttl) :: s.fetched
            | .fail => s.fetched) := by
          intro p hp; cases o <;> simp [hp]
        have hal := h.ref_alloc t e (by simp [hpc])
        constructor
        all_goals simp only
        · intro t' e' ttl r hd
          by_cases htt : t' = t
          · subst htt
            simp only [upd_same, Pc.draining.injEq] at hd
            obtain ⟨rfl, rfl⟩ := hd
            simp [completeEntry, Entry.cacheable]
          · rw [upd_other _ _ _ _ htt] at hd
            have := h2.drain_hit t' e' ttl r hd
            have hl := h.drain_lock t' e' (by simp [hd])
            have : e' ≠ e := by
              intro heq; subst heq
              have := h.fetch_owner t e' (by simp [hpc])
              have := h.owner_fetching e' (by simp [this])
              have := (h.locked_status e' (by simp [hl])).1
              contradiction
            rw [upd_other _ _ _ _ this]; assumption
        · intro t' e' hd
          by_cases htt : t' = t
          · subst htt
            simp only [upd_same, Pc.draining.injEq] at hd
            obtain ⟨rfl, rfl⟩ := hd
            simp [completeEntry, Entry.hitForPass]
          · rw [upd_other _ _ _ _ htt] at hd
            have := h2.drain_fail t' e' hd
            have hl := h.drain_lock t' e' (by simp [hd])
            have : e' ≠ e := by
              intro heq; subst heq
              have := h.fetch_owner t e' (by simp [hpc])
              have := h.owner_fetching e' (by simp [this])
              have := (h.locked_status e' (by simp [hl])).1
              contradiction
            rw [upd_other _ _ _ _ this]; assumption
        · intro e' hst
          by_cases hee : e' = e
          · subst hee
            simp only [upd_same] at hst ⊢
            cases o with
            | fail => simp [completeEntry, Entry.hitForPass] at hst
            | cacheable ttl r =>
              have hpos := h.done_pos t e' ttl r hpc
              exact ⟨r, by simp [completeEntry, Entry.cacheable], by simp [completeEntry, Entry.cacheable], by simp [completeEntry, Entry.cacheable]; omega⟩
          · rw [upd_other _ _ _ _ hee] at hst ⊢
            exact fetched_mono (h2.entry_prov e' hst) hsub
        · intro k' rec hk hst
          exact fetched_mono (h2.store_prov k' rec hk hst) hsub
        · intro t' e' r hp
          have htt : t' ≠ t := by intro heq; subst heq; simp at hp
          rw [upd_other _ _ _ _ htt] at hp
          obtain ⟨c, x, hf⟩ := h2.serve_prov t' e' r hp
          refine ⟨c, x, ?_⟩
          have hk : (upd s.entries e (completeEntry o s.now hfp (s.entries e)) e').key = (s.entries e').key := by
            by_cases hee : e' = e
            · subst hee; simp only [upd_same]; cases o <;> rfl
            · rw [upd_other _ _ _ _ hee]
          rw [hk]; exact fetched_mono hf hsub
        · intro t' e' r hp
          have htt : t' ≠ t := by intro heq; subst heq; simp at hp
          rw [upd_other _ _ _ _ htt] at hp
          obtain ⟨c, x, hf⟩ := h2.woken_prov t' e' r hp
          refine ⟨c, x, ?_⟩
          have hk : (upd s.entries e (completeEntry o s.now hfp (s.entries e)) e').key = (s.entries e').key := by
            by_cases hee : e' = e
            · subst hee; simp only [upd_same]; cases o <;> rfl
            · rw [upd_other _ _ _ _ hee]
          rw [hk]; exact fetched_mono hf hsub
      · simp at hs
    · simp at hs
  | get t so =>
    simp only [step] at hs
    split at hs
    · rename_i e hpc
      split at hs
      · rename_i hlock
        have hok := h.entry_ok e
        obtain ⟨hok', hkey, hcase⟩ := Entry.get_cases t s.now so (s.entries e) hok
        have hprov := Entry.get_hit_prov t s.now so (s.entries e) hok
        simp only [Honest, hpc] at hon
        generalize hg : Entry.get t s.now so (s.entries e) = g at hs hok' hkey hcase hprov
        obtain ⟨en, got⟩ := g
        simp only [Option.some.injEq] at hs; subst hs
        simp only at hok' hkey hcase hprov
        have hnd : ∀ t' o, s.pc t' ≠ .draining e o := by
          intro t' o hd
          have := h.drain_lock t' e (by simp [hd])
          simp [hlock] at this
        -- provenance of the entry after the lookup
        have hnew : en.status = .hit → Fetched s.fetched en.key en.resp en.createdAt en.expiredAt := by
          intro hst
          obtain ⟨hsrc, _, _⟩ := hprov hst
          rcases hsrc with ⟨h1, e2, e3, e4⟩ | ⟨h1, rec, hrec, hrs, e2, e3, e4⟩
          · rw [hkey, e2, e3, e4]; exact h2.entry_prov e h1
          · subst hrec
            simp only at hon
            rw [hkey, e2, e3, e4]
            exact h2.store_prov _ rec hon hrs
        constructor
        all_goals simp only
        · intro t' e' ttl r hd
          have htt : t' ≠ t := by intro heq; subst heq; simp only [upd_same] at hd; cases got <;> simp at hd
          rw [upd_other _ _ _ _ htt] at hd
          have hee : e' ≠ e := by intro heq; subst heq; exact hnd t' _ hd
          rw [upd_other _ _ _ _ hee]
          exact h2.drain_hit t' e' ttl r hd
        · intro t' e' hd
          have htt : t' ≠ t := by intro heq; subst heq; simp only [upd_same] at hd; cases got <;> simp at hd
          rw [upd_other _ _ _ _ htt] at hd
          have hee : e' ≠ e := by intro heq; subst heq; exact hnd t' _ hd
          rw [upd_other _ _ _ _ hee]
          exact h2.drain_fail t' e' hd
        · intro e' hst
          by_cases hee : e' = e
          · subst hee; simp only [upd_same] at hst ⊢; exact hnew hst
          · rw [upd_other _ _ _ _ hee] at hst ⊢; exact h2.entry_prov e' hst
        · exact h2.store_prov
        · intro t' e' r hp
          have hk : (upd s.entries e en e').key = (s.entries e').key := by
            by_cases hee : e' = e
            · subst hee; simp only [upd_same]; exact hkey
            · rw [upd_other _ _ _ _ hee]
          rw [hk]
          by_cases htt : t' = t
          · subst htt
            simp only [upd_same] at hp
            cases got with
            | hit x =>
              simp only [Pc.hitServe.injEq] at hp
              obtain ⟨rfl, rfl⟩ := hp
              rcases hcase with ⟨_, hg2, _⟩ | ⟨_, _, _, hr⟩
              · simp at hg2
              · rcases hr with ⟨hg2, _⟩ | ⟨hg2, _⟩ | ⟨x', hx', hst, hres⟩
                · simp at hg2
                · simp at hg2
                · simp only [Got.hit.injEq] at hx'
                  subst hx'
                  have := hnew hst
                  rw [hkey, hres] at this
                  exact ⟨_, _, this⟩
            | fetch => simp at hp
            | wait => simp at hp
            | pass => simp at hp
          · rw [upd_other _ _ _ _ htt] at hp
            exact h2.serve_prov t' e' r hp
        · intro t' e' r hp
          have hk : (upd s.entries e en e').key = (s.entries e').key := by
            by_cases hee : e' = e
            · subst hee; simp only [upd_same]; exact hkey
            · rw [upd_other _ _ _ _ hee]
          rw [hk]
          have htt : t' ≠ t := by intro heq; subst heq; simp only [upd_same] at hp; cases got <;> simp at hp
          rw [upd_other _ _ _ _ htt] at hp
          exact h2.woken_prov t' e' r hp
      · simp at hs
    · simp at hs

end Sys
end Pike

namespace Pike
namespace Sys
open Entry

/-- runs in which the store never returns a record that was not written to it (it may fail,
lose writes, or report not-found at will) -/
inductive HRun : State → List Event → State → Prop
  | nil (s : State) : HRun s [] s
  | cons {s s1 s' : State} {ev : Event} {evs : List Event} :
      Honest s ev → step false s ev = some s1 → HRun s1 evs s' → HRun s (ev :: evs) s'

def ReachableH (s : State) : Prop := ∃ now hs evs, 0 ≤ now ∧ HRun (init now hs) evs s

theorem hrun_run {s s' : State} {evs : List Event} (h : HRun s evs s') : run false s evs = some s' := by
  induction h with
  | nil s => rfl
  | cons _ hstep _ ih => simp only [run, hstep]; exact ih

theorem inv_hrun {s s' : State} {evs : List Event} (hr : HRun s evs s') (h : Inv s) (h2 : Inv2 s) : Inv s' ∧ Inv2 s' := by
  induction hr with
  | nil s => exact ⟨h, h2⟩
  | cons hon hstep _ ih => exact ih (inv_step h _ hstep) (inv2_step h h2 _ hon hstep)

theorem inv_reachableH {s : State} (h : ReachableH s) : Inv s ∧ Inv2 s := by
  obtain ⟨now, hs, evs, hn, hr⟩ := h
  exact inv_hrun hr (inv_init now hs hn) (inv2_init now hs)

theorem reachableH_reachable {s : State} (h : ReachableH s) : Reachable false s := by
  obtain ⟨now, hs, evs, hn, hr⟩ := h
  exact ⟨now, hs, evs, hn, hrun_run hr⟩

end Sys
end Pike
