import Pike.Lemmas.LRU
/-
How long a resident entry stays resident: its rank in the recency list of its shard grows by at most one per
operation on another key, and the entry is dropped only from the last place of a full shard.  So an entry that
was just used (rank 0) survives any `cap - 1` further operations — the quantitative content of C01's
"as long as the key's entry is not evicted during the fetch" and of C11's "the least recently used key is the one
dropped".
-/
namespace Pike
namespace LRU

/-- rank (0 = most recently used) and entry id of key `k` in a shard -/
def rk : Shard → Str → Option (Nat × Nat)
  | [], _ => none
  | x :: s, k => if x.key = k then some (0, x.eid) else (rk s k).map (fun pe => (pe.1 + 1, pe.2))

theorem rk_cons_eq {x : Item} {s : Shard} {k : Str} (h : x.key = k) : rk (x :: s) k = some (0, x.eid) := by
  unfold rk; rw [if_pos h]
theorem rk_cons_ne {x : Item} {s : Shard} {k : Str} (h : ¬ x.key = k) :
    rk (x :: s) k = (rk s k).map (fun pe => (pe.1 + 1, pe.2)) := by
  conv => lhs; unfold rk
  rw [if_neg h]

theorem find_cons_eq {x : Item} {s : Shard} {k : Str} (h : x.key = k) : find (x :: s) k = some x := by
  unfold find; rw [List.find?_cons_of_pos]; exact decide_eq_true h
theorem find_cons_ne {x : Item} {s : Shard} {k : Str} (h : ¬ x.key = k) : find (x :: s) k = find s k := by
  unfold find; rw [List.find?_cons_of_neg]; simpa using h

theorem erase_cons_eq {x : Item} {s : Shard} {k : Str} (h : x.key = k) : erase (x :: s) k = erase s k := by
  unfold erase; rw [List.filter_cons_of_neg]; simpa using h
theorem erase_cons_ne {x : Item} {s : Shard} {k : Str} (h : ¬ x.key = k) : erase (x :: s) k = x :: erase s k := by
  unfold erase; rw [List.filter_cons_of_pos]; simpa using h

theorem rk_find {s : Shard} {k : Str} {p e : Nat} (h : rk s k = some (p, e)) :
    ∃ it, find s k = some it ∧ it.eid = e ∧ p < s.length := by
  induction s generalizing p with
  | nil => simp [rk] at h
  | cons x s ih =>
    by_cases hx : x.key = k
    · rw [rk_cons_eq hx] at h
      simp only [Option.some.injEq, Prod.mk.injEq] at h
      exact ⟨x, find_cons_eq hx, h.2, by rw [← h.1]; simp⟩
    · rw [rk_cons_ne hx] at h
      simp only [Option.map_eq_some_iff, Prod.mk.injEq] at h
      obtain ⟨⟨p', e'⟩, hr, hp1, he1⟩ := h
      simp only at hp1 he1
      subst he1
      obtain ⟨it, hf, he, hp⟩ := ih hr
      exact ⟨it, by rw [find_cons_ne hx]; exact hf, he, by simp only [List.length_cons]; omega⟩

theorem find_rk {s : Shard} {k : Str} {it : Item} (h : find s k = some it) : ∃ p, rk s k = some (p, it.eid) := by
  induction s with
  | nil => simp [find] at h
  | cons x s ih =>
    by_cases hx : x.key = k
    · rw [find_cons_eq hx] at h
      simp only [Option.some.injEq] at h
      exact ⟨0, by rw [rk_cons_eq hx, h]⟩
    · rw [find_cons_ne hx] at h
      obtain ⟨p, hp⟩ := ih h
      exact ⟨p + 1, by rw [rk_cons_ne hx, hp]; rfl⟩

/-- removing another key does not push `k` back -/
theorem rk_erase {s : Shard} {k k' : Str} {p e : Nat} (hne : k' ≠ k) (h : rk s k = some (p, e)) :
    ∃ q, q ≤ p ∧ rk (erase s k') k = some (q, e) := by
  induction s generalizing p with
  | nil => simp [rk] at h
  | cons x s ih =>
    by_cases hx : x.key = k
    · rw [rk_cons_eq hx] at h
      simp only [Option.some.injEq, Prod.mk.injEq] at h
      have hk : ¬ x.key = k' := fun h2 => hne (by rw [← h2, hx])
      refine ⟨0, by omega, ?_⟩
      rw [erase_cons_ne hk, rk_cons_eq hx, h.2]
    · rw [rk_cons_ne hx] at h
      simp only [Option.map_eq_some_iff, Prod.mk.injEq] at h
      obtain ⟨⟨p', e'⟩, hr, hp1, he1⟩ := h
      simp only at hp1 he1
      subst he1
      obtain ⟨q, hq, hrq⟩ := ih hr
      by_cases hk : x.key = k'
      · exact ⟨q, by omega, by rw [erase_cons_eq hk, hrq]⟩
      · exact ⟨q + 1, by omega, by rw [erase_cons_ne hk, rk_cons_ne hx, hrq]; rfl⟩

/-- dropping the last item leaves everything that is not last where it was -/
theorem rk_dropLast {s : Shard} {k : Str} {p e : Nat} (h : rk s k = some (p, e)) (hp : p + 1 < s.length) :
    rk s.dropLast k = some (p, e) := by
  induction s generalizing p with
  | nil => simp [rk] at h
  | cons x s ih =>
    cases s with
    | nil => simp at hp
    | cons y s =>
      rw [List.dropLast_cons_cons]
      by_cases hx : x.key = k
      · rw [rk_cons_eq hx] at h ⊢; exact h
      · rw [rk_cons_ne hx] at h ⊢
        simp only [Option.map_eq_some_iff, Prod.mk.injEq] at h ⊢
        obtain ⟨⟨p', e'⟩, hr, hp1, he1⟩ := h
        simp only at hp1 he1
        subst hp1
        subst he1
        have hlt : p' + 1 < (y :: s).length := by simp only [List.length_cons] at hp ⊢; omega
        exact ⟨(p', e'), ih hr hlt, rfl, rfl⟩

/-- one operation of the shard on ANOTHER key: the rank of `k` grows by at most one, and `k` stays as long as it
was not in the last place of a full shard -/
theorem rk_touch {s : Shard} {k : Str} {it : Item} {now p e : Nat} (hne : it.key ≠ k) (h : rk s k = some (p, e)) :
    ∃ q, q ≤ p + 1 ∧ rk (touch s it now) k = some (q, e) := by
  obtain ⟨q, hq, hr⟩ := rk_erase hne h
  refine ⟨q + 1, by omega, ?_⟩
  unfold touch
  rw [rk_cons_ne (by exact hne), hr]; rfl

theorem rk_insert {cap : Nat} {s : Shard} {k : Str} {it : Item} {p e : Nat} (hne : it.key ≠ k)
    (h : rk s k = some (p, e)) (hlen : cap ≠ 0 → s.length ≤ cap) (hroom : cap = 0 ∨ p + 1 < cap) :
    rk (insert cap s it) k = some (p + 1, e) := by
  have h1 : rk (it :: s) k = some (p + 1, e) := by
    rw [rk_cons_ne hne, h]; rfl
  unfold insert
  simp only
  split
  · rename_i hc
    apply rk_dropLast h1
    have := hlen hc.1
    rcases hroom with h0 | hr
    · exact absurd h0 hc.1
    · have := hc.2; simp only [List.length_cons] at this ⊢; omega
  · exact h1

end LRU
end Pike

namespace Pike
namespace LRU

def Op.mentions (k : Str) : Op → Bool
  | .get k' => k' = k
  | .purge k' => k' = k

/-- right after its own lookup a key is at the front of its shard, with the entry the lookup returned -/
theorem rk_after_lookup (d : Disp) (i : Nat) (k : Str) :
    rk ((lookup d i k).1.shards i) k = some (0, (lookup d i k).2.1) := by
  unfold lookup
  split
  · rename_i it hf
    simp only [updF_same]
    unfold touch
    exact rk_cons_eq (find_some hf).2
  · rename_i hf
    simp only [updF_same]
    unfold insert
    simp only
    split
    · rename_i hc
      apply rk_dropLast (rk_cons_eq rfl)
      have := hc.2
      have hc1 : 0 < d.cap := Nat.pos_of_ne_zero hc.1
      omega
    · exact rk_cons_eq rfl

theorem lookup_shard_other (d : Disp) (j i : Nat) (k' : Str) (h : i ≠ j) : (lookup d j k').1.shards i = d.shards i := by
  unfold lookup; split <;> simp only [updF_other _ _ _ _ h]

theorem lookup_shard_hit (d : Disp) (j : Nat) (k' : Str) (it : Item) (h : find (d.shards j) k' = some it) :
    (lookup d j k').1.shards j = touch (d.shards j) it d.clock := by
  unfold lookup; rw [h]; simp only [updF_same]

theorem lookup_shard_miss (d : Disp) (j : Nat) (k' : Str) (h : find (d.shards j) k' = none) :
    (lookup d j k').1.shards j = insert d.cap (d.shards j) ⟨k', d.next, d.clock⟩ := by
  unfold lookup; rw [h]; simp only [updF_same]

/-- one dispatcher operation on another key moves `k` back by at most one place in its shard -/
theorem step_keeps (hash : Str → Nat) {d : Disp} (hInv : Inv d) (k : Str) (op : Op) (hop : op.mentions k = false)
    {p e : Nat} (h : rk (d.shards (hash k % d.zones)) k = some (p, e)) (hroom : d.cap = 0 ∨ p + 1 < d.cap) :
    ∃ q, q ≤ p + 1 ∧ rk ((step hash d op).shards (hash k % d.zones)) k = some (q, e) := by
  cases op with
  | get k' =>
    have hne : k' ≠ k := by simpa [Op.mentions] using hop
    show ∃ q, q ≤ p + 1 ∧ rk ((lookup d (hash k' % d.zones) k').1.shards (hash k % d.zones)) k = some (q, e)
    by_cases hj : hash k % d.zones = hash k' % d.zones
    · rw [hj] at h ⊢
      cases hf : find (d.shards (hash k' % d.zones)) k' with
      | some it =>
        rw [lookup_shard_hit d _ k' it hf]
        have hk : it.key ≠ k := by rw [(find_some hf).2]; exact hne
        exact rk_touch hk h
      | none =>
        rw [lookup_shard_miss d _ k' hf]
        exact ⟨p + 1, by omega, rk_insert (it := ⟨k', d.next, d.clock⟩) hne h (hInv.shard _).len hroom⟩
    · rw [lookup_shard_other d _ _ k' hj]; exact ⟨p, by omega, h⟩
  | purge k' =>
    have hne : k' ≠ k := by simpa [Op.mentions] using hop
    show ∃ q, q ≤ p + 1 ∧ rk ((remove d (hash k' % d.zones) k').shards (hash k % d.zones)) k = some (q, e)
    unfold remove
    by_cases hj : hash k % d.zones = hash k' % d.zones
    · rw [hj] at h ⊢; simp only [updF_same]
      obtain ⟨q, hq, hr⟩ := rk_erase hne h
      exact ⟨q, by omega, hr⟩
    · simp only [updF_other _ _ _ _ hj]; exact ⟨p, by omega, h⟩

theorem step_params (hash : Str → Nat) (d : Disp) (op : Op) : (step hash d op).zones = d.zones ∧ (step hash d op).cap = d.cap := by
  cases op with
  | get k => exact zones_lookup _ _ _
  | purge k => exact ⟨rfl, rfl⟩

theorem inv_step (hash : Str → Nat) {d : Disp} (h : Inv d) (op : Op) : Inv (step hash d op) := by
  cases op with
  | get k => exact inv_lookup h _ _
  | purge k => exact inv_remove h _ _

/-- any run of operations on OTHER keys that is shorter than the room behind `k` leaves `k` resident, with the
same entry -/
theorem run_keeps (hash : Str → Nat) {d : Disp} (hInv : Inv d) (k : Str) (ops : List Op)
    (hops : ∀ op ∈ ops, op.mentions k = false) {p e : Nat}
    (h : rk (d.shards (hash k % d.zones)) k = some (p, e)) (hroom : d.cap = 0 ∨ p + ops.length < d.cap) :
    ∃ q, q ≤ p + ops.length ∧ rk ((run hash d ops).shards (hash k % d.zones)) k = some (q, e) := by
  induction ops generalizing d p with
  | nil => exact ⟨p, by simp, h⟩
  | cons op ops ih =>
    have hop := hops op (by simp)
    have hroom1 : d.cap = 0 ∨ p + 1 < d.cap := by
      rcases hroom with h0 | hr
      · exact Or.inl h0
      · exact Or.inr (by simp only [List.length_cons] at hr; omega)
    obtain ⟨q, hq, hr⟩ := step_keeps hash hInv k op hop h hroom1
    have hpar := step_params hash d op
    have := ih (d := step hash d op) (inv_step hash hInv op) (fun o ho => hops o (by simp [ho])) (p := q)
      (by rw [hpar.1]; exact hr)
      (by rw [hpar.2]
          rcases hroom with h0 | hr2
          · exact Or.inl h0
          · exact Or.inr (by simp only [List.length_cons] at hr2; omega))
    obtain ⟨q2, hq2, hr2⟩ := this
    refine ⟨q2, by simp only [List.length_cons]; omega, ?_⟩
    simp only [run, List.foldl_cons] at hr2 ⊢
    rw [hpar.1] at hr2
    exact hr2

end LRU
end Pike
