import Pike.Model.Fresh
import Pike.Spec.C03
namespace Pike
namespace Fresh
open Str MiniRe

theorem captures_cons (lit : Str) (c : Char) (cs : Str) :
    Spec.C03.captures lit (c :: cs) =
      (Spec.C03.capAt lit (c :: cs)).toList ++ Spec.C03.captures lit cs := by
  unfold Spec.C03.captures
  rw [List.length_cons, List.range_succ_eq_map, List.filterMap_cons]
  simp only [List.drop_zero, List.filterMap_map]
  have : ((fun i => Spec.C03.capAt lit (List.drop i (c :: cs))) ∘ Nat.succ) =
         (fun i => Spec.C03.capAt lit (List.drop i cs)) := by
    funext i; simp
  rw [this]
  cases Spec.C03.capAt lit (c :: cs) <;> simp

theorem findDigitsCS_eq (lit cc : Str) :
    findDigitsCS lit cc = (Spec.C03.captures lit cc).head? := by
  induction cc with
  | nil => simp [findDigitsCS, Spec.C03.captures]
  | cons c cs ih =>
    rw [captures_cons]
    simp only [findDigitsCS, Spec.C03.capAt]
    split
    · split
      · simp [ih]
      · simp
    · simp [ih]

/-- a directive name that is one of the literals of a case-insensitive alternation makes it match -/
theorem forbidden_name_matches (r : Alt) (cc n : Str) (hci : r.ci = true)
    (hn : n ∈ Spec.C03.directiveNames cc) (hl : ∃ l ∈ r.lits, fold l = n) :
    r.matches cc = true := by
  unfold Spec.C03.directiveNames Spec.C03.tokens at hn
  simp only [List.map_map, List.mem_map, Function.comp] at hn
  obtain ⟨f, hf, rfl⟩ := hn
  have h1 : trim (nameOf (trim f)) <:+: cc :=
    (trim_infix _).trans ((nameOf_prefix _).isInfix.trans ((trim_infix f).trans (field_infix hf)))
  obtain ⟨l, hl, hle⟩ := hl
  unfold Alt.matches
  simp only [hci, if_true, List.any_eq_true]
  refine ⟨l, hl, ?_⟩
  rw [contains_iff, hle]
  exact fold_infix h1

def sMaxLit : LitDigits := ⟨false, "s-maxage=".toList⟩
def maxLit : LitDigits := ⟨false, "max-age=".toList⟩

/-- the side conditions on the extracted configuration, as one decidable predicate -/
def CfgOK (c : Cfg) : Prop :=
  c.noCache.ci = true
  ∧ (∀ f ∈ Spec.C03.forbidden, ∃ l ∈ c.noCache.lits, fold l = f)
  ∧ c.cookieByValues = true
  ∧ c.sMaxAge = sMaxLit
  ∧ c.maxAge = maxLit

instance (c : Cfg) : Decidable (CfgOK c) := by unfold CfgOK; infer_instance

theorem directiveAge_eq (c : Cfg) (h : CfgOK c) (cc : Str) :
    directiveAge c cc = Spec.C03.directiveAge cc := by
  obtain ⟨_, _, _, hs, hm⟩ := h
  unfold directiveAge Spec.C03.directiveAge LitDigits.find
  rw [hs, hm]
  simp only [sMaxLit, maxLit, Bool.false_eq_true, if_false]
  rw [findDigitsCS_eq, findDigitsCS_eq]
  rfl

theorem cacheMaxAge_pos_shareable (c : Cfg) (hc : CfgOK c) (h : Header) (L : Int)
    (hL : cacheMaxAge c h = L) (hpos : L > 0) :
    (h.values hSetCookie).isEmpty = true
    ∧ (h.values hCacheControl).isEmpty = false
    ∧ (Spec.C03.directiveNames (join ',' (h.values hCacheControl))).all
        (fun n => !Spec.C03.forbidden.contains n) = true
    ∧ L = Spec.C03.lifetime h := by
  obtain ⟨hci, hforb, hcv, _, _⟩ := id hc
  unfold cacheMaxAge at hL
  simp only [setCookiePresent, hcv, if_true] at hL
  split at hL
  · omega
  · rename_i hsc
    split at hL
    · omega
    · rename_i hcc
      split at hL
      · omega
      · rename_i hnm
        refine ⟨by simpa using hsc, ?_, ?_, ?_⟩
        · cases hv : h.values hCacheControl with
          | nil => simp [hv, join] at hcc
          | cons a b => simp
        · rw [List.all_eq_true]
          intro n hn
          cases hcon : Spec.C03.forbidden.contains n with
          | false => rfl
          | true =>
            have hmem : n ∈ Spec.C03.forbidden := by
              simpa using hcon
            exact absurd (forbidden_name_matches c.noCache _ n hci hn (hforb n hmem)) hnm
        · rw [← hL]
          unfold Spec.C03.lifetime
          simp only [directiveAge_eq c hc]
          rfl

end Fresh
end Pike
