import Pike.Model.Codec
namespace Pike
namespace Codec

theorem b_toNat (n : Nat) : (b n).toNat = n % 256 := by
  have hv : (n % 256).isValidChar := by unfold Nat.isValidChar; omega
  simp [b, Char.ofNat, hv, Char.ofNatAux, Char.toNat]

@[simp] theorem u32_length (n : Nat) : (u32 n).length = 4 := rfl
@[simp] theorem u64_length (x : Int) : (u64 x).length = 8 := rfl

theorem readU32_u32 (n : Nat) (h : n < 4294967296) (r : Str) : readU32 (u32 n ++ r) = some (n, r) := by
  simp only [u32, List.cons_append, List.nil_append, readU32, b_toNat]
  congr 2
  omega

theorem readU64_u64 (x : Int) (h1 : -9223372036854775808 ≤ x) (h2 : x < 9223372036854775808) (r : Str) :
    readU64 (u64 x ++ r) = some (x, r) := by
  simp only [u64, List.cons_append, List.nil_append, readU64, b_toNat]
  congr 2
  generalize hn : (x % 18446744073709551616).toNat = n
  have hn2 : (n : Int) = x % 18446744073709551616 := by
    rw [← hn]; exact Int.toNat_of_nonneg (Int.emod_nonneg _ (by omega))
  have hlt : n < 18446744073709551616 := by omega
  have hsum : n / 72057594037927936 % 256 * 72057594037927936 + n / 281474976710656 % 256 * 281474976710656
      + n / 1099511627776 % 256 * 1099511627776 + n / 4294967296 % 256 * 4294967296
      + n / 16777216 % 256 * 16777216 + n / 65536 % 256 * 65536 + n / 256 % 256 * 256 + n % 256 = n := by omega
  rw [hsum]
  unfold toI64
  split <;> omega

theorem readU32_short {s : Str} (h : s.length < 4) : readU32 s = none := by
  match s, h with
  | [], _ => rfl
  | [_], _ => rfl
  | [_, _], _ => rfl
  | [_, _, _], _ => rfl
  | _ :: _ :: _ :: _ :: _, h => simp at h; omega

theorem readU64_short {s : Str} (h : s.length < 8) : readU64 s = none := by
  match s, h with
  | [], _ => rfl
  | [_], _ => rfl
  | [_, _], _ => rfl
  | [_, _, _], _ => rfl
  | [_, _, _, _], _ => rfl
  | [_, _, _, _, _], _ => rfl
  | [_, _, _, _, _, _], _ => rfl
  | [_, _, _, _, _, _, _], _ => rfl
  | _ :: _ :: _ :: _ :: _ :: _ :: _ :: _ :: _, h => simp at h; omega

theorem readU32_some {s r : Str} {n : Nat} (h : readU32 s = some (n, r)) : s.length = r.length + 4 ∧ r = s.drop 4 := by
  match s, h with
  | a :: b :: c :: d :: t, h =>
    simp only [readU32, Option.some.injEq, Prod.mk.injEq] at h
    rw [← h.2]; simp

theorem readU64_some {s r : Str} {x : Int} (h : readU64 s = some (x, r)) : s.length = r.length + 8 ∧ r = s.drop 8 := by
  match s, h with
  | a :: b :: c :: d :: e :: f :: g :: i :: t, h =>
    simp only [readU64, Option.some.injEq, Prod.mk.injEq] at h
    rw [← h.2]; simp

variable {H : Type}

/-- field sizes the 32-bit length prefixes can carry -/
structure RespWF (c : HCodec H) (r : Resp H) : Prop where
  srv : r.compressSrv.length < 4294967296
  minLen : r.minLength < 4294967296
  filter : r.filter.length < 4294967296
  filterOK : r.filter ≠ [] → c.reOK r.filter = true
  hdr : (c.enc r.header).length < 4294967296
  hdrRT : c.dec (c.enc r.header) = some r.header
  code : r.statusCode < 4294967296
  gz : r.gzip.length < 4294967296
  br : r.br.length < 4294967296
  raw : r.raw.length < 4294967296

theorem readField_enc (x r : Str) (h : x.length < 4294967296) :
    readField (u32 x.length ++ (x ++ r)) = some (x, r) := by
  unfold readField
  rw [readU32_u32 _ h]
  simp

theorem readField_enc_end (x : Str) (h : x.length < 4294967296) :
    readField (u32 x.length ++ x) = some (x, []) := by
  have := readField_enc x [] h
  simpa using this

theorem encodeResp_ne_nil (c : HCodec H) (r : Resp H) : (encodeResp c r).isEmpty = false := by
  simp [encodeResp, u32]

theorem decodeResp_steps (c : HCodec H) (data srv r1 r2 filter r3 hj r4 r5 gz r6 br r7 raw r8 : Str)
    (minLen code : Nat) (h : H)
    (hne : data.isEmpty = false)
    (h1 : readField data = some (srv, r1)) (h2 : readU32 r1 = some (minLen, r2))
    (h3 : readField r2 = some (filter, r3)) (hf : (!filter.isEmpty && !c.reOK filter) = false)
    (h4 : readField r3 = some (hj, r4)) (hd : c.dec hj = some h)
    (h5 : readU32 r4 = some (code, r5)) (h6 : readField r5 = some (gz, r6))
    (h7 : readField r6 = some (br, r7)) (h8 : readField r7 = some (raw, r8)) :
    decodeResp c data = some ⟨srv, minLen, filter, h, code, gz, br, raw⟩ := by
  unfold decodeResp
  rw [hne]
  simp only [Bool.false_eq_true, if_false, h1, h2, h3, hf, h4, hd, h5, h6, h7, h8]

theorem decodeResp_encodeResp (c : HCodec H) (r : Resp H) (wf : RespWF c r) :
    decodeResp c (encodeResp c r) = some r := by
  have hf : (!r.filter.isEmpty && !c.reOK r.filter) = false := by
    cases hfe : r.filter with
    | nil => simp
    | cons a l =>
      have := wf.filterOK (by rw [hfe]; simp)
      rw [hfe] at this
      simp [this]
  have hne := encodeResp_ne_nil c r
  obtain ⟨srv, minLen, filter, h, code, gz, br, raw⟩ := r
  apply decodeResp_steps (hne := hne)
  case h1 => unfold encodeResp; simp only [List.append_assoc]; exact readField_enc _ _ wf.srv
  case h2 => exact readU32_u32 _ wf.minLen _
  case h3 => exact readField_enc _ _ wf.filter
  case hf => exact hf
  case h4 => exact readField_enc _ _ wf.hdr
  case hd => exact wf.hdrRT
  case h5 => exact readU32_u32 _ wf.code _
  case h6 => exact readField_enc _ _ wf.gz
  case h7 => exact readField_enc _ _ wf.br
  case h8 => exact readField_enc_end _ wf.raw

structure EntryWF (c : HCodec H) (e : Entry H) : Prop where
  status : e.status < 4294967296
  resp : ∀ r, e.resp = some r → RespWF c r ∧ (encodeResp c r).length < 4294967296
  created : -9223372036854775808 ≤ e.createdAt ∧ e.createdAt < 9223372036854775808
  expired : -9223372036854775808 ≤ e.expiredAt ∧ e.expiredAt < 9223372036854775808

/-- what an entry looks like after a round trip: an absent response comes back as the empty one -/
def normalize (c : HCodec H) (e : Entry H) : Entry H :=
  { e with resp := some (e.resp.getD (zeroResp c)) }

theorem decodeResp_nil (c : HCodec H) : decodeResp c [] = some (zeroResp c) := by
  simp [decodeResp]

theorem decodeEntry_steps (c : HCodec H) (data r0 rb r1 r2 r3 : Str) (st : Nat) (resp : Resp H) (cr ex : Int)
    (h0 : readU32 data = some (st, r0)) (h1 : readField r0 = some (rb, r1))
    (h2 : decodeResp c rb = some resp) (h3 : readU64 r1 = some (cr, r2)) (h4 : readU64 r2 = some (ex, r3)) :
    decodeEntry c data = some ⟨st, some resp, cr, ex⟩ := by
  unfold decodeEntry
  simp only [h0, h1, h2, h3, h4]

theorem decodeEntry_encodeEntry (c : HCodec H) (e : Entry H) (wf : EntryWF c e) :
    decodeEntry c (encodeEntry c e) = some (normalize c e) := by
  obtain ⟨st, resp, cr, ex⟩ := e
  cases resp with
  | none =>
    show decodeEntry c (encodeEntry c ⟨st, none, cr, ex⟩) = some ⟨st, some (zeroResp c), cr, ex⟩
    apply decodeEntry_steps
    case h0 => unfold encodeEntry; simp only [List.append_assoc]; exact readU32_u32 _ wf.status _
    case h1 => exact readField_enc [] _ (by simp)
    case h2 => exact decodeResp_nil c
    case h3 => exact readU64_u64 _ wf.created.1 wf.created.2 _
    case h4 =>
      have := readU64_u64 ex wf.expired.1 wf.expired.2 []
      simpa using this
  | some r =>
    obtain ⟨hr, hl⟩ := wf.resp r rfl
    show decodeEntry c (encodeEntry c ⟨st, some r, cr, ex⟩) = some ⟨st, some r, cr, ex⟩
    apply decodeEntry_steps
    case h0 => unfold encodeEntry; simp only [List.append_assoc]; exact readU32_u32 _ wf.status _
    case h1 => exact readField_enc _ _ hl
    case h2 => exact decodeResp_encodeResp c r hr
    case h3 => exact readU64_u64 _ wf.created.1 wf.created.2 _
    case h4 =>
      have := readU64_u64 ex wf.expired.1 wf.expired.2 []
      simpa using this

theorem readField_some {s a r : Str} (h : readField s = some (a, r)) :
    ∃ n r0, readU32 s = some (n, r0) ∧ a = r0.take n ∧ r = r0.drop n := by
  unfold readField at h
  split at h
  · simp at h
  · rename_i n r0 heq
    simp only [Option.some.injEq, Prod.mk.injEq] at h
    exact ⟨n, r0, heq, h.1.symm, h.2.symm⟩

/-- a record that decodes carries, after its declared response size, the two timestamps -/
theorem decodeEntry_some_length (c : HCodec H) (data : Str) (e : Entry H) (h : decodeEntry c data = some e) :
    ∃ st n r0 r1, readU32 data = some (st, r0) ∧ readU32 r0 = some (n, r1) ∧ n + 16 ≤ r1.length := by
  unfold decodeEntry at h
  split at h
  · simp at h
  · rename_i st r0 h0
    split at h
    · simp at h
    · rename_i rb r h1
      obtain ⟨n, r1, hn, _, hr⟩ := readField_some h1
      split at h
      · simp at h
      · split at h
        · simp at h
        · rename_i cr r2 h2
          split at h
          · simp at h
          · rename_i ex r3 h3
            have l2 := (readU64_some h2).1
            have l3 := (readU64_some h3).1
            refine ⟨st, n, r0, r1, h0, hn, ?_⟩
            have : r.length = r1.length - n := by rw [hr]; simp
            omega

theorem encodeEntry_length (c : HCodec H) (e : Entry H) :
    (encodeEntry c e).length = 24 + (match e.resp with | some r => (encodeResp c r).length | none => 0) := by
  unfold encodeEntry
  cases e.resp <;> simp <;> omega

/-- every strict prefix of a record is rejected -/
theorem decodeEntry_truncated (c : HCodec H) (e : Entry H)
    (hfit : ∀ r, e.resp = some r → (encodeResp c r).length < 4294967296)
    (k : Nat) (hk : k < (encodeEntry c e).length) :
    decodeEntry c ((encodeEntry c e).take k) = none := by
  cases hd : decodeEntry c ((encodeEntry c e).take k) with
  | none => rfl
  | some e' =>
    exfalso
    obtain ⟨st, n, r0, r1, h0, h1, hlen⟩ := decodeEntry_some_length c _ e' hd
    have hl0 := readU32_some h0
    have hl1 := readU32_some h1
    have hlen_take : ((encodeEntry c e).take k).length = k := by
      rw [List.length_take]; omega
    have hk8 : 8 ≤ k := by omega
    -- the declared size read back from the prefix is the real size of the response record
    obtain ⟨rb, hrbfit, hfull⟩ : ∃ rb : Str, rb.length < 4294967296 ∧
        encodeEntry c e = u32 e.status ++ (u32 rb.length ++ (rb ++ (u64 e.createdAt ++ u64 e.expiredAt))) := by
      cases hr : e.resp with
      | none => exact ⟨[], by simp, by unfold encodeEntry; simp [hr]⟩
      | some r => exact ⟨encodeResp c r, hfit r hr, by unfold encodeEntry; simp [hr]⟩
    have hr0 : r0 = u32 rb.length ++ ((rb ++ (u64 e.createdAt ++ u64 e.expiredAt)).take (k - 8)) := by
      rw [hl0.2, hfull, List.drop_take]
      have h4 : (u32 e.status).length = 4 := rfl
      rw [show (4 : Nat) = (u32 e.status).length from rfl, List.drop_left]
      rw [List.take_append]
      have : (u32 rb.length).length = 4 := rfl
      rw [List.take_of_length_le (by rw [this, h4]; omega)]
      rw [this, h4, show k - 4 - 4 = k - 8 by omega]
    rw [hr0, readU32_u32 _ hrbfit] at h1
    simp only [Option.some.injEq, Prod.mk.injEq] at h1
    have hfl : (encodeEntry c e).length = 24 + rb.length := by
      rw [hfull]; simp; omega
    have : r1.length ≤ k - 8 := by
      rw [← h1.2, List.length_take]; omega
    omega

/-- decoding never manufactures bytes: every variable-length field of the result is a slice of the input -/
theorem readField_infix {s a r : Str} (h : readField s = some (a, r)) : a <:+: s ∧ r <:+ s := by
  obtain ⟨n, r0, h0, ha, hr⟩ := readField_some h
  have := (readU32_some h0).2
  refine ⟨?_, ?_⟩
  · rw [ha, this]
    exact (List.take_prefix _ _).isInfix.trans (List.drop_suffix _ _).isInfix
  · rw [hr, this]
    exact (List.drop_suffix _ _).trans (List.drop_suffix _ _)

end Codec
end Pike
