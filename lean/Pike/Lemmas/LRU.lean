import Pike.Model.LRU
namespace Pike
namespace LRU

/-- per-shard invariant: distinct keys, within capacity, recency list ordered by last access -/
structure ShardInv (cap clock : Nat) (s : Shard) : Prop where
  nodup : (s.map (·.key)).Nodup
  len : cap ≠ 0 → s.length ≤ cap
  sorted : s.Pairwise (fun a b => a.stamp > b.stamp)
  bound : ∀ it ∈ s, it.stamp < clock

theorem erase_sublist (s : Shard) (k : Str) : (erase s k).Sublist s := List.filter_sublist

theorem erase_length_le (s : Shard) (k : Str) : (erase s k).length ≤ s.length :=
  (erase_sublist s k).length_le

theorem not_mem_erase (s : Shard) (k : Str) : k ∉ (erase s k).map (·.key) := by
  intro h
  obtain ⟨it, hit, hk⟩ := List.mem_map.mp h
  have := (List.mem_filter.mp hit).2
  simp [hk] at this

theorem find_some {s : Shard} {k : Str} {it : Item} (h : find s k = some it) : it ∈ s ∧ it.key = k := by
  unfold find at h
  exact ⟨List.mem_of_find?_eq_some h, by simpa using List.find?_some h⟩

theorem find_none {s : Shard} {k : Str} (h : find s k = none) : k ∉ s.map (·.key) := by
  unfold find at h
  intro hm
  obtain ⟨it, hit, hk⟩ := List.mem_map.mp hm
  have := List.find?_eq_none.mp h it hit
  simp [hk] at this

theorem erase_length_lt {s : Shard} {it : Item} (h : it ∈ s) : (erase s it.key).length < s.length := by
  unfold erase
  have : ∃ x ∈ s, ¬ ((fun (j : Item) => decide (j.key ≠ it.key)) x = true) := ⟨it, h, by simp⟩
  exact List.length_filter_lt_length_iff_exists.mpr this

theorem ShardInv.erase {cap clock : Nat} {s : Shard} (h : ShardInv cap clock s) (k : Str) :
    ShardInv cap clock (erase s k) where
  nodup := h.nodup.sublist ((erase_sublist s k).map _)
  len := fun hc => Nat.le_trans (erase_length_le s k) (h.len hc)
  sorted := h.sorted.sublist (erase_sublist s k)
  bound := fun it hit => h.bound it ((erase_sublist s k).subset hit)

theorem ShardInv.mono {cap clock clock' : Nat} {s : Shard} (h : ShardInv cap clock s) (hc : clock ≤ clock') :
    ShardInv cap clock' s :=
  { h with bound := fun it hit => Nat.lt_of_lt_of_le (h.bound it hit) hc }

theorem ShardInv.touch {cap clock : Nat} {s : Shard} {it : Item} (h : ShardInv cap clock s) (hit : it ∈ s) :
    ShardInv cap (clock + 1) (touch s it clock) where
  nodup := by
    simp only [LRU.touch, List.map_cons, List.nodup_cons]
    exact ⟨not_mem_erase s it.key, (h.erase it.key).nodup⟩
  len := fun hc => by
    simp only [LRU.touch, List.length_cons]
    have := erase_length_lt hit
    have := h.len hc
    omega
  sorted := by
    simp only [LRU.touch, List.pairwise_cons]
    refine ⟨fun b hb => ?_, (h.erase it.key).sorted⟩
    exact (h.erase it.key).bound b hb
  bound := fun x hx => by
    simp only [LRU.touch, List.mem_cons] at hx
    rcases hx with rfl | hx
    · simp
    · exact Nat.lt_succ_of_lt ((h.erase it.key).bound x hx)

theorem ShardInv.insert {cap clock : Nat} {s : Shard} {k : Str} {e : Nat} (h : ShardInv cap clock s)
    (hk : k ∉ s.map (·.key)) : ShardInv cap (clock + 1) (insert cap s ⟨k, e, clock⟩) := by
  have hfull : ShardInv 0 (clock + 1) (⟨k, e, clock⟩ :: s) :=
    { nodup := by simpa using ⟨by simpa using hk, h.nodup⟩
      len := fun hc => absurd rfl hc
      sorted := by
        simp only [List.pairwise_cons]
        exact ⟨fun b hb => h.bound b hb, h.sorted⟩
      bound := fun x hx => by
        rcases List.mem_cons.mp hx with rfl | hx
        · simp
        · exact Nat.lt_succ_of_lt (h.bound x hx) }
  unfold LRU.insert
  simp only
  split
  · rename_i hc
    have hsub : ((⟨k, e, clock⟩ : Item) :: s).dropLast.Sublist (⟨k, e, clock⟩ :: s) := List.dropLast_sublist _
    exact { nodup := hfull.nodup.sublist (hsub.map _)
            len := fun _ => by
              have := h.len hc.1
              simp only [List.length_dropLast, List.length_cons]
              omega
            sorted := hfull.sorted.sublist hsub
            bound := fun x hx => hfull.bound x (hsub.subset hx) }
  · rename_i hc
    have hlen : cap ≠ 0 → ((⟨k, e, clock⟩ : Item) :: s).length ≤ cap := fun hc0 =>
      Nat.le_of_not_gt (fun hgt => hc ⟨hc0, hgt⟩)
    exact { nodup := hfull.nodup, len := hlen, sorted := hfull.sorted, bound := hfull.bound }

/-- the evicted entry is the least recently used one of its shard -/
theorem victim_is_oldest {cap clock : Nat} {s : Shard} {k : Str} {e : Nat} {v : Item}
    (h : ShardInv cap clock s) (hv : victim cap s ⟨k, e, clock⟩ = some v) :
    ∀ x ∈ insert cap s ⟨k, e, clock⟩, v.stamp < x.stamp := by
  unfold victim at hv
  simp only at hv
  split at hv
  · rename_i hc
    unfold LRU.insert
    rw [if_pos hc]
    have hsorted : ((⟨k, e, clock⟩ : Item) :: s).Pairwise (fun a b => a.stamp > b.stamp) := by
      simp only [List.pairwise_cons]
      exact ⟨fun b hb => h.bound b hb, h.sorted⟩
    have hne : ((⟨k, e, clock⟩ : Item) :: s) ≠ [] := List.cons_ne_nil _ _
    have hlast : ((⟨k, e, clock⟩ : Item) :: s).getLast hne = v := by
      rw [List.getLast?_eq_some_getLast hne] at hv
      exact Option.some.inj hv
    have hsplit := List.dropLast_concat_getLast hne
    rw [hlast] at hsplit
    rw [← hsplit] at hsorted
    intro x hx
    exact (List.pairwise_append.mp hsorted).2.2 x hx v (by simp)
  · simp at hv

/-- dispatcher invariant -/
structure Inv (d : Disp) : Prop where
  shard : ∀ i, ShardInv d.cap d.clock (d.shards i)
  born : ∀ i, ∀ it ∈ d.shards i, (it.eid, it.key) ∈ d.born
  fresh : ∀ p ∈ d.born, p.1 < d.next
  uniq : ∀ e k k', (e, k) ∈ d.born → (e, k') ∈ d.born → k = k'

theorem inv_init (zones cap : Nat) : Inv (init zones cap) where
  shard := fun _ => ⟨by simp [init], fun _ => by simp [init], by simp [init], by simp [init]⟩
  born := by simp [init]
  fresh := by simp [init]
  uniq := by simp [init]

theorem inv_lookup {d : Disp} (h : Inv d) (i : Nat) (k : Str) : Inv (lookup d i k).1 := by
  unfold lookup
  split
  · rename_i it hf
    obtain ⟨hmem, hkey⟩ := find_some hf
    refine ⟨fun j => ?_, fun j x hx => ?_, h.fresh, h.uniq⟩
    · simp only
      by_cases hj : j = i
      · subst hj; simp only [updF_same]; exact (h.shard j).touch hmem
      · rw [updF_other _ _ _ _ hj]; exact (h.shard j).mono (Nat.le_succ _)
    · simp only at hx ⊢
      by_cases hj : j = i
      · subst hj
        simp only [updF_same, touch, List.mem_cons] at hx
        rcases hx with rfl | hx
        · exact h.born j it hmem
        · exact h.born j x ((erase_sublist _ _).subset hx)
      · rw [updF_other _ _ _ _ hj] at hx; exact h.born j x hx
  · rename_i hf
    have hk := find_none hf
    refine ⟨fun j => ?_, fun j x hx => ?_, ?_, ?_⟩
    · simp only
      by_cases hj : j = i
      · subst hj; simp only [updF_same]; exact (h.shard j).insert hk
      · rw [updF_other _ _ _ _ hj]; exact (h.shard j).mono (Nat.le_succ _)
    · simp only at hx ⊢
      by_cases hj : j = i
      · subst hj
        simp only [updF_same] at hx
        have hsub : x ∈ (⟨k, d.next, d.clock⟩ : Item) :: d.shards j := by
          unfold insert at hx
          simp only at hx
          split at hx
          · exact (List.dropLast_sublist _).subset hx
          · exact hx
        rcases List.mem_cons.mp hsub with rfl | hx'
        · simp
        · exact List.mem_cons_of_mem _ (h.born j x hx')
      · rw [updF_other _ _ _ _ hj] at hx; exact List.mem_cons_of_mem _ (h.born j x hx)
    · intro p hp
      simp only at hp ⊢
      rcases List.mem_cons.mp hp with rfl | hp
      · simp
      · exact Nat.lt_succ_of_lt (h.fresh p hp)
    · intro e k1 k2 h1 h2
      simp only at h1 h2
      rcases List.mem_cons.mp h1 with h1 | h1 <;> rcases List.mem_cons.mp h2 with h2 | h2
      · simp only [Prod.mk.injEq] at h1 h2; rw [h1.2, h2.2]
      · simp only [Prod.mk.injEq] at h1; have := h.fresh _ h2; simp only at this; omega
      · simp only [Prod.mk.injEq] at h2; have := h.fresh _ h1; simp only at this; omega
      · exact h.uniq e k1 k2 h1 h2

theorem inv_remove {d : Disp} (h : Inv d) (i : Nat) (k : Str) : Inv (remove d i k) := by
  refine ⟨fun j => ?_, fun j x hx => ?_, h.fresh, h.uniq⟩
  · simp only [remove]
    by_cases hj : j = i
    · subst hj; simp only [updF_same]; exact (h.shard j).erase k
    · rw [updF_other _ _ _ _ hj]; exact h.shard j
  · simp only [remove] at hx ⊢
    by_cases hj : j = i
    · subst hj; simp only [updF_same] at hx; exact h.born j x ((erase_sublist _ _).subset hx)
    · rw [updF_other _ _ _ _ hj] at hx; exact h.born j x hx

theorem zones_lookup (d : Disp) (i : Nat) (k : Str) : (lookup d i k).1.zones = d.zones ∧ (lookup d i k).1.cap = d.cap := by
  unfold lookup; split <;> simp

theorem inv_run (hash : Str → Nat) {d : Disp} (h : Inv d) (ops : List Op) : Inv (run hash d ops) := by
  induction ops generalizing d with
  | nil => exact h
  | cons op ops ih =>
    apply ih
    cases op with
    | get k => exact inv_lookup h _ _
    | purge k => exact inv_remove h _ _

theorem run_params (hash : Str → Nat) (d : Disp) (ops : List Op) :
    (run hash d ops).zones = d.zones ∧ (run hash d ops).cap = d.cap := by
  induction ops generalizing d with
  | nil => exact ⟨rfl, rfl⟩
  | cons op ops ih =>
    have := ih (d := step hash d op)
    cases op with
    | get k => simp only [run, List.foldl_cons] at this ⊢; rw [this.1, this.2]; exact zones_lookup _ _ _
    | purge k => simp only [run, List.foldl_cons] at this ⊢; rw [this.1, this.2]; exact ⟨rfl, rfl⟩

theorem sum_le_mul (l : List Nat) (c : Nat) (h : ∀ x ∈ l, x ≤ c) : l.sum ≤ l.length * c := by
  induction l with
  | nil => simp
  | cons a l ih =>
    simp only [List.sum_cons, List.length_cons]
    have h1 := h a (by simp)
    have h2 := ih (fun x hx => h x (List.mem_cons_of_mem _ hx))
    rw [Nat.add_mul]
    omega

theorem resident_le {d : Disp} (h : Inv d) (hc : d.cap ≠ 0) : resident d ≤ d.zones * d.cap := by
  unfold resident
  have := sum_le_mul ((List.range d.zones).map (fun i => (d.shards i).length)) d.cap (by
    intro x hx
    obtain ⟨i, _, rfl⟩ := List.mem_map.mp hx
    exact (h.shard i).len hc)
  simpa using this

end LRU
end Pike
