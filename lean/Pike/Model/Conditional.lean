import Pike.Base.Str
/-
github.com/vicanso/fresh `Check` (what elton's default `fresh` middleware asks for GET/HEAD answers with a 2xx status):
is the answer "not modified" for this client?  Dates enter as the unix seconds `time.Parse(time.RFC1123, …)` yields
(0 = unparsable).
-/
namespace Pike
namespace Conditional

def isSp (c : Char) : Bool := c == ' '

/-- `parseTokenList`: split at commas; blanks BEFORE a token are skipped, blanks after it end it -/
def trimLeft : Str → Str
  | [] => []
  | c :: r => if isSp c then trimLeft r else c :: r

def trimRight (s : Str) : Str := (trimLeft s.reverse).reverse

def tokens (s : Str) : List Str := (Str.splitOn ',' s).map fun t => trimRight (trimLeft t)

def isWs (c : Char) : Bool := c == ' ' || c == '\t' || c == '\n' || c == '\r' || c == '\x0b' || c == '\x0c'

def trimWs (s : Str) : Str := ((s.dropWhile isWs).reverse.dropWhile isWs).reverse

/-- `(?:^|,)\s*?no-cache\s*?(?:,|$)` -/
def hasNoCache (cc : Str) : Bool := (Str.splitOn ',' cc).any fun t => trimWs t = "no-cache".toList

def weak : Str := "W/".toList

def etagMatches (tok etag : Str) : Bool :=
  tok = etag || (weak.isPrefixOf tok && tok.drop 2 = etag) || (weak.isPrefixOf etag && etag.drop 2 = tok)

/-- the If-None-Match clause alone: absent or `*` passes; otherwise the answer needs an ETag that one token matches -/
def inmOK (inm etag : Str) : Bool :=
  inm.isEmpty || inm = ['*'] || (!etag.isEmpty && (tokens inm).any fun t => etagMatches t etag)

/-- the If-Modified-Since clause alone: absent passes; otherwise both dates parse and the resource is not newer -/
def imsOK (imsPresent : Bool) (ims lm : Nat) : Bool :=
  !imsPresent || (lm ≠ 0 && ims ≠ 0 && decide (lm ≤ ims))

def check (imsPresent : Bool) (ims : Nat) (inm cc : Str) (lm : Nat) (etag : Str) : Bool :=
  if !imsPresent && inm.isEmpty then false
  else if !cc.isEmpty && hasNoCache cc then false
  else inmOK inm etag && imsOK imsPresent ims lm

/-- a 304 is given only to a client that sent a validator, and only if EVERY validator it sent matches -/
theorem check_sound {imsPresent : Bool} {ims lm : Nat} {inm cc etag : Str}
    (h : check imsPresent ims inm cc lm etag = true) :
    (imsPresent = true ∨ inm ≠ []) ∧ inmOK inm etag = true ∧ imsOK imsPresent ims lm = true := by
  unfold check at h
  split at h
  · exact absurd h (by simp)
  · rename_i h0
    split at h
    · exact absurd h (by simp)
    · simp only [Bool.and_eq_true] at h
      refine ⟨?_, h.1, h.2⟩
      cases imsPresent with
      | true => exact Or.inl rfl
      | false =>
        right; intro e; apply h0; simp [e]

/-- … and a client whose validators all match (and that did not ask for revalidation with `no-cache`) gets it -/
theorem check_complete {imsPresent : Bool} {ims lm : Nat} {inm cc etag : Str}
    (hv : imsPresent = true ∨ inm ≠ []) (hcc : hasNoCache cc = false)
    (h1 : inmOK inm etag = true) (h2 : imsOK imsPresent ims lm = true) :
    check imsPresent ims inm cc lm etag = true := by
  unfold check
  have h0 : (!imsPresent && inm.isEmpty) = false := by
    rcases hv with h | h
    · simp [h]
    · cases inm with
      | nil => exact absurd rfl h
      | cons c r => simp
  rw [h0]
  simp [hcc, h1, h2]

end Conditional
end Pike
