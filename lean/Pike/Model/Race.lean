/-
Abstract executions with mutexes (read/write mode): the classical lockset argument.
A trace is a list of events; positions are indices.  Mutual exclusion of the mutex is the
assumption `WF` (what sync.Mutex / sync.RWMutex provide); the theorem says that two conflicting
accesses that both hold the same lock (at least one in write mode) are ordered by
happens-before = program order ∪ (release → later acquire of the same lock), transitively.
-/
namespace Pike
namespace Race

inductive Op
  | acq (l : Nat) (w : Bool)      -- Lock (w = true) / RLock (w = false)
  | rel (l : Nat)                 -- Unlock / RUnlock
  | read (x : Nat)
  | write (x : Nat)
deriving DecidableEq, Repr

structure Ev where
  tid : Nat
  op : Op
deriving DecidableEq, Repr

abbrev Trace := List Ev

def isAcq (tr : Trace) (i : Nat) (l : Nat) (w : Bool) (t : Nat) : Prop := tr[i]? = some ⟨t, .acq l w⟩
def isRel (tr : Trace) (i : Nat) (l : Nat) (t : Nat) : Prop := tr[i]? = some ⟨t, .rel l⟩
def lockEvent (tr : Trace) (i : Nat) (l : Nat) : Prop := ∃ t, (∃ w, isAcq tr i l w t) ∨ isRel tr i l t

/-- thread `t` holds lock `l` in mode `w` at position `i`: it acquired it at some `a < i` and has
not released it in between -/
def Holds (tr : Trace) (i : Nat) (t : Nat) (l : Nat) (w : Bool) : Prop :=
  ∃ a, a < i ∧ isAcq tr a l w t ∧ ∀ r, a < r → r < i → ¬ isRel tr r l t

/-- mutual exclusion: between two acquisitions of `l` by different threads of which at least one
is in write mode, the first holder releases -/
def WF (tr : Trace) : Prop :=
  ∀ l a b wa wb ta tb, a < b → ta ≠ tb → (wa = true ∨ wb = true) →
    isAcq tr a l wa ta → isAcq tr b l wb tb → ∃ r, a < r ∧ r < b ∧ isRel tr r l ta

/-- happens-before -/
inductive HB (tr : Trace) : Nat → Nat → Prop
  | po {i j t} : i < j → (∃ o, tr[i]? = some ⟨t, o⟩) → (∃ o, tr[j]? = some ⟨t, o⟩) → HB tr i j
  | sync {i j l t u w} : i < j → isRel tr i l t → isAcq tr j l w u → HB tr i j
  | trans {i j k} : HB tr i j → HB tr j k → HB tr i k

def isAccess (tr : Trace) (i t x : Nat) (w : Bool) : Prop :=
  tr[i]? = some ⟨t, if w then .write x else .read x⟩

theorem access_not_rel {tr : Trace} {i t x l u : Nat} {w : Bool} (ha : isAccess tr i t x w) : ¬ isRel tr i l u := by
  unfold isAccess at ha; unfold isRel
  rw [ha]
  cases w <;> simp

/-- LOCKSET THEOREM.  Two accesses by different threads, at positions i < j, both performed while
holding the same lock `l`, at least one of the holders in write mode, are ordered by
happens-before (so they do not race). -/
theorem lockset_ordered (tr : Trace) (hwf : WF tr) (i j t u l x : Nat) (wi wj ai aj : Bool)
    (hij : i < j) (htu : t ≠ u) (hmode : wi = true ∨ wj = true)
    (hi : isAccess tr i t x ai) (hj : isAccess tr j u x aj)
    (hhi : Holds tr i t l wi) (hhj : Holds tr j u l wj) : HB tr i j := by
  obtain ⟨a, hai, haq, hno⟩ := hhi
  obtain ⟨b, hbj, hbq, hnoj⟩ := hhj
  have hab : a ≠ b := by
    intro h; subst h
    unfold isAcq at haq hbq
    rw [haq] at hbq
    simp only [Option.some.injEq, Ev.mk.injEq, Op.acq.injEq] at hbq
    exact htu hbq.1
  rcases Nat.lt_or_gt_of_ne hab with hlt | hgt
  · -- t acquired first: it releases before u acquires, and that release comes after i
    obtain ⟨r, har, hrb, hrel⟩ := hwf l a b wi wj t u hlt htu hmode haq hbq
    have hir : i < r := by
      rcases Nat.lt_trichotomy r i with h | h | h
      · exact absurd hrel (hno r har h)
      · subst h; exact absurd hrel (access_not_rel hi)
      · exact h
    have h1 : HB tr i r := HB.po hir ⟨_, hi⟩ ⟨_, hrel⟩
    have h2 : HB tr r b := HB.sync hrb hrel hbq
    have h3 : HB tr b j := HB.po hbj ⟨_, hbq⟩ ⟨_, hj⟩
    exact HB.trans h1 (HB.trans h2 h3)
  · -- u acquired first and holds until j; t's later acquisition would need u's release in between
    obtain ⟨r, hbr, hra, hrel⟩ := hwf l b a wj wi u t hgt (Ne.symm htu) (Or.symm hmode) hbq haq
    exact absurd hrel (hnoj r hbr (by omega))

/-- two reads never conflict; with a lock discipline in which every write of `x` holds `l` in
write mode and every read holds `l` in some mode, all conflicting pairs are ordered -/
theorem discipline_racefree (tr : Trace) (hwf : WF tr) (x l : Nat)
    (hdisc : ∀ i t w, isAccess tr i t x w → Holds tr i t l w ∨ (w = false ∧ Holds tr i t l true))
    (i j t u : Nat) (ai aj : Bool) (hij : i < j) (htu : t ≠ u) (hconf : ai = true ∨ aj = true)
    (hi : isAccess tr i t x ai) (hj : isAccess tr j u x aj) : HB tr i j := by
  rcases hdisc i t ai hi with h1 | ⟨_, h1⟩ <;> rcases hdisc j u aj hj with h2 | ⟨_, h2⟩
  · exact lockset_ordered tr hwf i j t u l x ai aj ai aj hij htu hconf hi hj h1 h2
  · exact lockset_ordered tr hwf i j t u l x ai true ai aj hij htu (Or.inr rfl) hi hj h1 h2
  · exact lockset_ordered tr hwf i j t u l x true aj ai aj hij htu (Or.inl rfl) hi hj h1 h2
  · exact lockset_ordered tr hwf i j t u l x true true ai aj hij htu (Or.inl rfl) hi hj h1 h2

end Race
end Pike
