import Pike.Model.Header
import Pike.Facts
/-
server/proxy.go NewProxy + location/location.go (AddRequestHeader, AddResponseHeader, AddQuery,
the URL rewriter): what the upstream is sent, what is restored afterwards, what the client gets.
The transport itself (net/http, httputil.ReverseProxy: hop-by-hop headers, X-Forwarded-For,
default User-Agent, transparent gzip) is outside.
-/
namespace Pike
namespace Proxy
open Str

structure LocCfg where
  reqHeaders : List (Str × Str)      -- added request headers (canonical key, value)
  respHeaders : List (Str × Str)
  query : Str                         -- the location's query parameters, already encoded (url.Values.Encode)
  rewrites : List (Str × Str)         -- (pattern, value); pattern is literal text with at most a trailing `*`
deriving Repr, DecidableEq

structure Req where
  method : Str
  path : Str
  rawQuery : Str
  header : Header
  body : Str
deriving Repr, DecidableEq

def stripped : List Str := Facts.strippedOnFetch.map String.toList
def hAcceptEncoding : Str := "Accept-Encoding".toList

/-- headers withheld from the upstream for a `fetching` request (each only if its first value is non-empty) -/
def withhold (fetching : Bool) (h : Header) : Header :=
  if fetching then h.filter (fun e => !(stripped.contains e.1 && !(e.2.headD []).isEmpty)) else h

def addAll (h : Header) (kvs : List (Str × Str)) : Header := kvs.foldl (fun h kv => h.add kv.1 kv.2) h

/-- first position of `p` in `s`: the text before it and after it -/
def splitAt : Str → Str → Option (Str × Str)
  | p, [] => if p.isEmpty then some ([], []) else none
  | p, c :: cs => if hasPrefix p (c :: cs) then some ([], (c :: cs).drop p.length)
                  else (splitAt p cs).map fun (a, b) => (c :: a, b)

def takeNonSpace : Str → Str
  | [] => []
  | c :: cs => if c = ' ' ∨ c = '\t' ∨ c = '\n' ∨ c = '\r' ∨ c = '\x0c' ∨ c = '\x0b' then [] else c :: takeNonSpace cs

/-- replace `$1` in the value by the capture (strings.NewReplacer("$1", cap)) -/
def subst1 : Str → Str → Str
  | [], _ => []
  | '$' :: '1' :: r, cap => cap ++ subst1 r cap
  | c :: r, cap => c :: subst1 r cap

/-- one rewrite rule: `P*` = regexp `P(\S*)` (unanchored, leftmost), `P` = the literal; on a match
the WHOLE path becomes the value with `$1` substituted -/
def rewrite1 (path : Str) (rule : Str × Str) : Str :=
  let (pat, value) := rule
  match pat.reverse with
  | '*' :: rp =>
    let p := rp.reverse
    (match splitAt p path with
     | some (_, rest) => subst1 value (takeNonSpace rest)
     | none => path)
  | _ => if contains pat path then value else path

/-! General wildcard rules (`/rest/*/user/*:/$1/$2`): the pattern is the literals between the
stars joined by `(\S*)`; the regexp engine's leftmost, greedy-with-backtracking match is modelled
directly (the literals are assumed to contain no regexp metacharacters, and at most nine stars). -/

/-- split at every `*` -/
def splitStars : Str → List Str
  | [] => [[]]
  | c :: cs =>
    match splitStars cs with
    | [] => [[c]]
    | h :: t => if c = '*' then [] :: h :: t else (c :: h) :: t

/-- match `l₀(\S*)l₁(\S*)…lₖ` at the START of `s`: the captures, each star taking the longest
run of non-blank characters that still lets the rest match -/
def matchHere : List Str → Str → Option (List Str)
  | [], _ => some []
  | [l], s => if hasPrefix l s then some [] else none
  | l :: l2 :: rest, s =>
    if hasPrefix l s then
      let s' := s.drop l.length
      let run := (takeNonSpace s').length
      ((List.range (run + 1)).reverse).findSome? fun n =>
        (matchHere (l2 :: rest) (s'.drop n)).map fun caps => s'.take n :: caps
    else none

/-- leftmost match anywhere in the path -/
def matchAny (lits : List Str) (path : Str) : Option (List Str) :=
  (List.range (path.length + 1)).findSome? fun i => matchHere lits (path.drop i)

/-- `strings.NewReplacer("$1", c₁, "$2", c₂, …).Replace(value)` for at most nine captures -/
def substN (caps : List Str) : Str → Str
  | [] => []
  | [c] => [c]
  | c :: d :: r =>
    if c = '$' ∧ '1' ≤ d ∧ d ≤ '9' ∧ d.toNat - '1'.toNat < caps.length
    then (caps.getD (d.toNat - '1'.toNat) []) ++ substN caps r
    else c :: substN caps (d :: r)

/-- one rule of any documented form -/
def rewriteG (path : Str) (rule : Str × Str) : Str :=
  let lits := splitStars rule.1
  if lits.length ≤ 1 ∨ lits.length > 10 then rewrite1 path rule
  else match matchAny lits path with
    | some caps => substN caps rule.2
    | none => path

/-- rules with a single trailing star or none go through `rewrite1` (about which the C15 theorems
speak); any other wildcard placement through the general matcher -/
def rewriteRule (path : Str) (rule : Str × Str) : Str :=
  let stars := (rule.1.filter (· = '*')).length
  if stars = 0 ∨ (stars = 1 ∧ rule.1.reverse.head? = some '*') then rewrite1 path rule else rewriteG path rule

def rewrite (l : LocCfg) (path : Str) : Str := l.rewrites.foldl rewriteRule path

/-- `AddQuery`: the client's raw query byte for byte, then the configured parameters -/
def addQuery (l : LocCfg) (raw : Str) : Str :=
  if l.query.isEmpty then raw else if raw.isEmpty then l.query else raw ++ '&' :: l.query

/-- what the upstream is sent -/
def upstreamRequest (fetching : Bool) (l : LocCfg) (upAE : Str) (r : Req) : Req :=
  let h1 := addAll (withhold fetching r.header) l.reqHeaders
  let h2 := if upAE.isEmpty then h1 else h1.set hAcceptEncoding upAE
  { r with path := rewrite l r.path, rawQuery := addQuery l r.rawQuery, header := h2 }

/-- the request header after the proxy middleware has restored what it changed -/
def restoredHeader (fetching : Bool) (l : LocCfg) (upAE : Str) (r : Req) : Header :=
  let h := (upstreamRequest fetching l upAE r).header
  let h := if fetching then
      stripped.foldl (fun h k => let v := r.header.get k; if v.isEmpty then h else h.set k v) h
    else h
  if upAE.isEmpty then h else h.set hAcceptEncoding (r.header.get hAcceptEncoding)

/-- the response header handed to NewHTTPResponse: upstream's plus the location's -/
def responseHeader (l : LocCfg) (up : Header) : Header := addAll up l.respHeaders

end Proxy
end Pike
