import Pike.Facts
/-
cache/http_cache.go: one cache entry as a state machine.  Each function below is the body of
one lock-protected block of the Go code, returning the new entry (the Go code mutates through
the pointer).  Responses are identified by a number; their content is C05/C09's business.
Time is an unbounded `Int` here; the int64 wrap of `createdAt + ttl` is treated separately
(`Entry.expiryWrap`).
-/
namespace Pike

structure Tid where
  n : Nat
deriving DecidableEq, Repr

structure Eid where
  n : Nat
deriving DecidableEq, Repr

structure Key where
  n : Nat
deriving DecidableEq, Repr

inductive Status | unknown | fetching | hitForPass | hit
deriving DecidableEq, Repr

/-- a decoded store record (C09 ties it to the bytes) -/
structure Rec where
  status : Status
  resp : Option Nat
  createdAt : Int
  expiredAt : Int
deriving DecidableEq, Repr

/-- what `initFromStore` obtained: no store configured, store says not-found, store error or
undecodable bytes, or a decoded record -/
inductive Load
  | noStore | notFound | error | record (r : Rec)
deriving DecidableEq, Repr

structure Entry where
  key : Key
  status : Status := .unknown
  resp : Option Nat := none
  createdAt : Int := 0
  expiredAt : Int := 0
  /-- `chanList`: registered waiters, oldest first -/
  waiters : List Tid := []
deriving DecidableEq, Repr

namespace Entry

/-- a restored record is taken only if it is a well-formed hit or hit-for-pass marker -/
def Rec.valid (r : Rec) : Bool :=
  ((r.status = .hit ∧ r.resp.isSome) ∨ r.status = .hitForPass) ∧ r.expiredAt ≠ 0

/-- `initFromStore` (only consulted while the entry is `unknown`) -/
def load (e : Entry) (so : Load) : Entry :=
  if e.status = .unknown then
    match so with
    | .record r => if Rec.valid r then { e with status := r.status, resp := r.resp, createdAt := r.createdAt, expiredAt := r.expiredAt } else e
    | _ => e
  else e

/-- the expiry test of `get()`: valid THROUGH the second `expiredAt` -/
def expireIf (now : Int) (e : Entry) : Entry :=
  if e.expiredAt ≠ 0 ∧ e.expiredAt < now then { e with status := .unknown, expiredAt := 0 } else e

inductive Got
  | fetch                      -- the caller becomes the fetcher
  | wait                       -- the caller registered a channel and will block
  | pass                       -- hit-for-pass
  | hit (r : Option Nat)       -- served from cache
deriving DecidableEq, Repr

/-- the rest of `get()`: register on `fetching`, claim `unknown`, else report -/
def getCore (t : Tid) (e : Entry) : Entry × Got :=
  match e.status with
  | .fetching => ({ e with waiters := e.waiters ++ [t] }, .wait)
  | .unknown => ({ e with status := .fetching, waiters := [] }, .fetch)
  | .hitForPass => (e, .pass)
  | .hit => (e, .hit e.resp)

/-- `get()` under the entry lock -/
def get (t : Tid) (now : Int) (so : Load) (e : Entry) : Entry × Got :=
  getCore t (expireIf now (load e so))

/-- `Cacheable(resp, ttl)` up to the detaching of the waiter list -/
def cacheable (now ttl : Int) (r : Nat) (e : Entry) : Entry :=
  { e with status := .hit, resp := some r, createdAt := now, expiredAt := now + ttl, waiters := [] }

def hfpTtl (ttl : Int) : Int := if ttl ≤ 0 then Facts.defaultHitForPassSeconds else ttl

/-- `HitForPass(ttl)` up to the detaching of the waiter list; `createdAt` and `response` stay -/
def hitForPass (now ttl : Int) (e : Entry) : Entry :=
  { e with status := .hitForPass, expiredAt := now + hfpTtl ttl, waiters := [] }

/-- `Age()` -/
def age (now : Int) (e : Entry) : Int := now - e.createdAt

/-- the record `saveToStore` writes -/
def toRec (e : Entry) : Rec := ⟨e.status, e.resp, e.createdAt, e.expiredAt⟩

/-- int64 arithmetic of `createdAt + int64(ttl)` -/
def expiryWrap (now ttl : Int) : Int :=
  let m := (now + ttl) % 18446744073709551616
  if m ≥ 9223372036854775808 then m - 18446744073709551616 else m

end Entry
end Pike
