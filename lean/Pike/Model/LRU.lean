import Pike.Base.Str
import Pike.Facts
/-
cache/dispatcher.go + github.com/golang/groupcache/lru: the sharded LRU of cache entries.
A shard is the recency list (front = most recently used).  `stamp` and `born` are ghost
(the driver never prints them): the logical time of the last access, and the log of
"entry e was created for key k".
-/
namespace Pike
namespace LRU

structure Item where
  key : Str
  eid : Nat
  stamp : Nat      -- ghost
deriving Repr, DecidableEq

abbrev Shard := List Item

def find (s : Shard) (k : Str) : Option Item := s.find? (fun it => it.key = k)

def erase (s : Shard) (k : Str) : Shard := s.filter (fun it => it.key ≠ k)

/-- `lru.Cache.Get` on a resident key: move to front -/
def touch (s : Shard) (it : Item) (now : Nat) : Shard :=
  { it with stamp := now } :: erase s it.key

/-- `lru.Cache.Add` of a key that is not resident: push front, then evict the oldest
when `MaxEntries ≠ 0` and the length exceeds it (0 means unlimited) -/
def insert (cap : Nat) (s : Shard) (it : Item) : Shard :=
  let s' := it :: s
  if cap ≠ 0 ∧ s'.length > cap then s'.dropLast else s'

/-- the entry evicted by `insert`, if any -/
def victim (cap : Nat) (s : Shard) (it : Item) : Option Item :=
  let s' := it :: s
  if cap ≠ 0 ∧ s'.length > cap then s'.getLast? else none

structure Disp where
  zones : Nat
  cap : Nat
  shards : Nat → Shard
  next : Nat                 -- allocation counter: entry ids are 0,1,2,… in creation order
  clock : Nat                -- ghost
  born : List (Nat × Str)    -- ghost

def updF (f : Nat → Shard) (i : Nat) (v : Shard) : Nat → Shard := fun j => if j = i then v else f j

@[simp] theorem updF_same (f : Nat → Shard) (i : Nat) (v : Shard) : updF f i v i = v := by simp [updF]
theorem updF_other (f : Nat → Shard) (i j : Nat) (v : Shard) (h : j ≠ i) : updF f i v j = f j := by simp [updF, h]

def init (zones cap : Nat) : Disp := ⟨zones, cap, fun _ => [], 0, 0, []⟩

/-- `dispatcher.GetHTTPCache` under the shard mutex: get-or-create.  Returns the entry id
and whether it was created now. -/
def lookup (d : Disp) (i : Nat) (k : Str) : Disp × Nat × Bool :=
  match find (d.shards i) k with
  | some it =>
    ({ d with shards := updF d.shards i (touch (d.shards i) it d.clock), clock := d.clock + 1 }, it.eid, false)
  | none =>
    let it : Item := ⟨k, d.next, d.clock⟩
    ({ d with shards := updF d.shards i (insert d.cap (d.shards i) it),
              next := d.next + 1, clock := d.clock + 1, born := (d.next, k) :: d.born }, d.next, true)

/-- `dispatcher.RemoveHTTPCache` (the store delete is modelled in Sys) -/
def remove (d : Disp) (i : Nat) (k : Str) : Disp :=
  { d with shards := updF d.shards i (erase (d.shards i) k) }

def resident (d : Disp) : Nat := ((List.range d.zones).map (fun i => (d.shards i).length)).sum

inductive Op where
  | get (k : Str)
  | purge (k : Str)
deriving Repr, DecidableEq

def step (hash : Str → Nat) (d : Disp) : Op → Disp
  | .get k => (lookup d (hash k % d.zones) k).1
  | .purge k => remove d (hash k % d.zones) k

def run (hash : Str → Nat) (d : Disp) (ops : List Op) : Disp := ops.foldl (step hash) d

end LRU
end Pike

namespace Pike
namespace LRU

/-- the dispatcher `NewDispatcher` builds for configured size `S` (size computation translated
from the Go source into `Facts.dispatcherSizes`) -/
def ofSize (S : Int) : Disp :=
  init (Facts.dispatcherSizes S).1.toNat (Facts.dispatcherSizes S).2.toNat

/-- one named cache: dispatcher plus (when a store is configured) the set of keys that have a
persisted record -/
structure Cache where
  name : Str
  disp : Disp
  store : Option (List Str)

/-- the dispatcher registry (`dispatchers`) -/
abbrev Reg := List Cache

def Reg.find (r : Reg) (name : Str) : Option Cache := List.find? (fun c => c.name = name) r

/-- `dispatchers.Get(name).GetHTTPCache(key)`; `hv` is the key's hash value -/
def Reg.lookup (r : Reg) (name key : Str) (hv : Nat) : Reg × Option (Nat × Bool) :=
  match r.find name with
  | none => (r, none)
  | some c =>
    let res := LRU.lookup c.disp (hv % c.disp.zones) key
    (r.map (fun c' => if c'.name = name then { c' with disp := res.1 } else c'), some res.2)

def Cache.purge (c : Cache) (key : Str) (hv : Nat) : Cache :=
  { c with disp := remove c.disp (hv % c.disp.zones) key, store := c.store.map (fun s => s.filter (· ≠ key)) }

/-- `dispatchers.RemoveHTTPCache(name, key)`: a named cache, or every cache when the name is empty -/
def Reg.purge (r : Reg) (name key : Str) (hv : Nat) : Reg :=
  r.map (fun c => if name = [] ∨ c.name = name then c.purge key hv else c)

/-- a record for `key` is written to the cache's store -/
def Reg.put (r : Reg) (name key : Str) : Reg :=
  r.map (fun c => if c.name = name then { c with store := c.store.map (fun s => key :: s.filter (· ≠ key)) } else c)

end LRU
end Pike
