import Pike.Base.Str
/-
`http.Header` as delivered by net/http: an association list from canonical keys to
value lists.  `get` = first value ("" when absent), `values` = all values.
-/
namespace Pike
open Str

abbrev Header := List (Str × List Str)

namespace Header

def values (h : Header) (k : Str) : List Str :=
  match h with
  | [] => []
  | (k', vs) :: r => if k' = k then vs ++ values r k else values r k

def get (h : Header) (k : Str) : Str := (values h k).headD []

def del (h : Header) (k : Str) : Header := h.filter (fun e => e.1 ≠ k)

/-- `Header.Set` -/
def set (h : Header) (k : Str) (v : Str) : Header := del h k ++ [(k, [v])]

/-- `Header.Add` -/
def add (h : Header) (k : Str) (v : Str) : Header :=
  if h.any (fun e => e.1 = k) then h.map (fun e => if e.1 = k then (e.1, e.2 ++ [v]) else e)
  else h ++ [(k, [v])]

end Header
end Pike
