import Pike.Base.MiniRe
import Pike.Model.Header
import Pike.Facts
/-
cache/http_response.go: NewHTTPResponse, shouldCompressed, GetRawBody, Compress,
getBodyByAcceptEncoding, Fill — over an abstract bundle of codecs (library code).
A variant is "present" iff its length is non-zero, acceptance is substring search, exactly as
in the Go code.
-/
namespace Pike
namespace Resp
open Str MiniRe

/-- the compression libraries as seen by pike: encoders take the (already clamped) service name,
decoders may fail -/
structure Codecs where
  gzip : Str → Str → Str       -- service name, data
  brotli : Str → Str → Str
  gunzip : Str → Option Str
  unbr : Str → Option Str
  lz4d : Str → Option Str
  snzd : Str → Option Str
  zstd : Str → Option Str

structure R where
  srv : Str
  minLength : Nat
  /-- content-type filter as an alternation of literals; `none` = nil (use the default) -/
  filter : Option Alt
  header : Header
  code : Nat
  gz : Str
  br : Str
  raw : Str
deriving Repr, DecidableEq

def encBr : Str := "br".toList
def encGzip : Str := "gzip".toList

def hContentType : Str := "Content-Type".toList
def hContentEncoding : Str := "Content-Encoding".toList

def ignoreHeaders : List Str := Facts.ignoreHeaders.map String.toList

/-- `cloneHeaderAndIgnore` -/
def cloneAndIgnore (h : Header) : Header := h.filter (fun e => !ignoreHeaders.contains e.1)

/-- `compressSrv.Decompress` -/
def decompress (k : Codecs) (enc : Str) (data : Str) : Option Str :=
  if enc = encGzip then k.gunzip data
  else if enc = encBr then k.unbr data
  else if enc = "lz4".toList then k.lz4d data
  else if enc = "snz".toList then k.snzd data
  else if enc = "zst".toList then k.zstd data
  else if enc = [] then some data
  else none

/-- `NewHTTPResponse(statusCode, header, encoding, data)`; srv/minLength/filter are attached by
the proxy middleware right after -/
def newResponse (k : Codecs) (code : Nat) (h : Header) (enc data : Str)
    (srv : Str) (minLength : Nat) (filter : Option Alt) : Option R :=
  let base : R := ⟨srv, minLength, filter, cloneAndIgnore h, code, [], [], []⟩
  if enc = encGzip then some { base with gz := data }
  else if enc = encBr then some { base with br := data }
  else if enc = [] then some { base with raw := data }
  else match decompress k enc data with
    | some d => some { base with raw := d }
    | none => none

def defaultFilter : Option Alt := parseAlt Facts.defaultFilterRe.toList

/-- the response's own filter, else the default one -/
def effectiveFilter (r : R) : Option Alt :=
  match r.filter with | some f => some f | none => defaultFilter

/-- `shouldCompressed` -/
def shouldCompress (r : R) : Bool :=
  if r.raw.length ≤ r.minLength ∧ r.gz.length ≤ r.minLength ∧ r.br.length ≤ r.minLength then false
  else
    match effectiveFilter r with
    | some f => f.matches (r.header.get hContentType)
    | none => false     -- unreachable when the default filter has the understood shape

/-- `GetRawBody` -/
def getRawBody (k : Codecs) (r : R) : Option Str :=
  if !r.raw.isEmpty then some r.raw
  else if !r.gz.isEmpty then k.gunzip r.gz
  else if !r.br.isEmpty then k.unbr r.br
  else some []

/-- `Compress` (its error is ignored by `Cacheable`) -/
def compress (k : Codecs) (r : R) : R :=
  if !shouldCompress r then r
  else if !r.gz.isEmpty ∧ !r.br.isEmpty then r
  else match getRawBody k r with
    | none => r
    | some raw =>
      if raw.isEmpty then r
      else
        let gz := if r.gz.isEmpty then k.gzip r.srv raw else r.gz
        let br := if r.br.isEmpty then k.brotli r.srv raw else r.br
        { r with gz := gz, br := br, raw := [] }

/-- what `Cacheable` does to the response before storing it -/
def forCache (k : Codecs) (r : R) : R :=
  compress k { r with srv := Facts.bestCompressionName.toList }

inductive Src | stored | fresh | identity
deriving Repr, DecidableEq

/-- `getBodyByAcceptEncoding`: encoding, body, and whether a stored variant was used -/
def negotiate (k : Codecs) (r : R) (ae : Str) : Option (Str × Str × Src) :=
  let acceptBr := contains encBr ae
  let acceptGzip := contains encGzip ae
  if acceptBr ∧ !r.br.isEmpty then some (encBr, r.br, .stored)
  else if acceptGzip ∧ !r.gz.isEmpty then some (encGzip, r.gz, .stored)
  else match getRawBody k r with
    | none => none
    | some raw =>
      if !shouldCompress r then some ([], raw, .identity)
      else if acceptBr then some (encBr, k.brotli r.srv raw, .fresh)
      else if acceptGzip then some (encGzip, k.gzip r.srv raw, .fresh)
      else some ([], raw, .identity)

/-- what the client-side decoder does with a body of the returned Content-Encoding -/
def decodeFor (k : Codecs) (enc body : Str) : Option Str :=
  if enc = encBr then k.unbr body
  else if enc = encGzip then k.gunzip body
  else if enc = [] then some body
  else none

/-- `Fill`: status, headers (stored header plus Content-Encoding when non-empty), body -/
def fill (k : Codecs) (r : R) (ae : Str) : Option (Nat × Header × Str) :=
  match negotiate k r ae with
  | none => none
  | some (enc, body, _) =>
    let h := if enc.isEmpty then r.header else r.header ++ [(hContentEncoding, [enc])]
    some (r.code, h, body)

end Resp
end Pike
