import Pike.Base.Str
import Pike.Facts
/-
The LZ4 block format (format level, not pierrec's code), and pike's wrapper `doLZ4Decode`:
try a destination of `init × len`, grow ×4 up to `max × len` while the library reports
"destination too short".
-/
namespace Pike
namespace LZ4

/-- an extended length: while the byte is 255 keep adding -/
def readExt : Str → Option (Nat × Str)
  | [] => none
  | c :: cs => if c.toNat = 255 then (match readExt cs with
      | some (n, r) => some (255 + n, r)
      | none => none)
    else some (c.toNat, cs)

/-- a 4-bit length field, extended when it is 15 -/
def readLen (nib : Nat) (s : Str) : Option (Nat × Str) :=
  if nib = 15 then (match readExt s with | some (n, r) => some (15 + n, r) | none => none) else some (nib, s)

/-- copy `n` bytes starting `off` bytes back from the end of `out` (overlap allowed: byte by byte) -/
def copyMatch : Nat → Nat → Str → Str
  | 0, _, out => out
  | n + 1, off, out => copyMatch n off (out ++ [out.getD (out.length - off) 'x'])

/-- decode sequences; `fuel` bounds the number of sequences (each consumes at least one byte) -/
def decodeSeqs : Nat → Str → Str → Option Str
  | 0, _, _ => none
  | fuel + 1, inp, out =>
    match inp with
    | [] => some out                          -- input exhausted (also right after a match: lenient, as the library)
    | tok :: r0 =>
      match readLen (tok.toNat / 16) r0 with
      | none => none
      | some (litLen, r1) =>
        if r1.length < litLen then none else
        let out1 := out ++ r1.take litLen
        let r2 := r1.drop litLen
        match r2 with
        | [] => some out1                      -- the last sequence: literals only
        | [_] => none                          -- half an offset
        | lo :: hi :: r3 =>
          let off := lo.toNat + 256 * hi.toNat
          if off = 0 ∨ off > out1.length then none else
          match readLen (tok.toNat % 16) r3 with
          | none => none
          | some (ml, r4) => decodeSeqs fuel r4 (copyMatch (ml + 4) off out1)

/-- the block format decoder -/
def decodeBlock (block : Str) : Option Str := decodeSeqs (block.length + 1) block []

/-- the library as pike sees it: with a destination of `cap` bytes it returns the decoded bytes
when they fit and "too short" (retry) otherwise; invalid blocks fail for good.  `quirk`: the
pinned library version rejects the one-byte empty block `00` (finding D13). -/
inductive LibResult | ok (d : Str) | tooShort | invalid

def lib (quirk : Bool) (block : Str) (cap : Nat) : LibResult :=
  if quirk ∧ block = [Char.ofNat 0] then .tooShort else
  match decodeBlock block with
  | none => .tooShort      -- pierrec reports every failure as "invalid source or destination too short"
  | some d => if d.length ≤ cap then .ok d else .tooShort

/-- the retry loop of `doLZ4Decode` -/
def wrapperGo (quirk : Bool) (maxSize : Nat) (block : Str) : Nat → Nat → Option Str
  | 0, _ => none
  | fuel + 1, size =>
    match lib quirk block size with
    | .ok d => some d
    | .invalid => none
    | .tooShort => if size ≥ maxSize then none else wrapperGo quirk maxSize block fuel (min (size * 4) maxSize)

/-- `doLZ4Decode`: sizes init·n, then ×4 capped at max·n -/
def wrapper (quirk : Bool) (init max : Nat) (block : Str) : Option Str :=
  wrapperGo quirk (max * block.length) block 8 (init * block.length)

end LZ4
end Pike
