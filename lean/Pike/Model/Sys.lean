import Pike.Model.Entry
/-
The concurrent system: any number of request threads on any number of keys of one cache, a
clock that may tick between any two steps, an adversarial store (every load/save/delete
carries its outcome as an event parameter), an adversarial upstream, purges, evictions
(`drop`), and crash/restart.  Each event is one atomic step of the Go code: a lock-protected
block or a channel rendezvous (the real atomicity is noted at each event).

`reread` selects the waiter's post-wake behaviour: `false` = it uses the status/response
handed over with the wake-up; `true` = it reads `hc.status`/`hc.response` without the lock
when it resumes (what `Facts.waiterRereadsEntry` says the source does).
-/
namespace Pike
namespace Sys
open Entry

/-- how a fetch ends -/
inductive Outcome
  | cacheable (ttl : Int) (r : Nat)     -- ttl > 0
  | fail                                 -- uncacheable, nil response, error, timeout, panic: deferred HitForPass
deriving DecidableEq, Repr

/-- how a finished request was answered -/
inductive Answer
  | hit (r : Option Nat) (age : Int)
  | fetched (o : Outcome)    -- this request went upstream itself as the key's fetcher
  | passed                   -- forwarded upstream independently (hit-for-pass, non GET/HEAD, or a waiter told to pass)
deriving DecidableEq, Repr

inductive Pc
  | idle
  | arrived (k : Key)
  | looked (e : Eid)
  | registered (e : Eid)
  | parked (e : Eid)
  | woken (e : Eid) (st : Status) (r : Option Nat)
  | fetchUp (e : Eid)
  | fetchDone (e : Eid) (o : Outcome)
  | draining (e : Eid) (o : Outcome)
  | passUp
  | hitServe (e : Eid) (r : Option Nat)
  | done (a : Answer)
deriving DecidableEq, Repr

/-- the entry on which the thread is the fetcher (between becoming `fetching` and completing) -/
def fetchOf : Pc → Option Eid
  | .fetchUp e => some e
  | .fetchDone e _ => some e
  | _ => none

/-- the entry on which the thread is a registered, not yet woken waiter -/
def waitOf : Pc → Option Eid
  | .registered e => some e
  | .parked e => some e
  | _ => none

/-- the entry whose lock the thread holds while completing -/
def drainOf : Pc → Option Eid
  | .draining e _ => some e
  | _ => none

/-- any entry the thread holds a pointer to -/
def refOf : Pc → Option Eid
  | .looked e => some e
  | .registered e => some e
  | .parked e => some e
  | .woken e _ _ => some e
  | .fetchUp e => some e
  | .fetchDone e _ => some e
  | .draining e _ => some e
  | .hitServe e _ => some e
  | _ => none

structure State where
  now : Int
  next : Nat
  entries : Eid → Entry
  shard : Key → Option Eid
  store : Key → Option Rec
  hasStore : Bool
  pc : Tid → Pc
  lock : Eid → Option Tid
  /-- the detached waiter list the completer of e is still sending to (its local `list`) -/
  queue : Eid → List Tid
  owner : Eid → Option Tid                      -- ghost
  fetched : List (Key × Nat × Int × Int)        -- ghost: (key, response, createdAt, expiredAt) of every completed cacheable fetch
  ups : Tid → Nat                               -- ghost: upstream requests this request has completed

def upd {α : Type} [DecidableEq α] {β : Type} (f : α → β) (a : α) (b : β) : α → β :=
  fun x => if x = a then b else f x

@[simp] theorem upd_same {α : Type} [DecidableEq α] {β : Type} (f : α → β) (a : α) (b : β) : upd f a b a = b := by
  simp [upd]

theorem upd_other {α : Type} [DecidableEq α] {β : Type} (f : α → β) (a x : α) (b : β) (h : x ≠ a) : upd f a b x = f x := by
  simp [upd, h]

theorem upd_apply {α : Type} [DecidableEq α] {β : Type} (f : α → β) (a x : α) (b : β) :
    upd f a b x = if x = a then b else f x := rfl

def init (now : Int) (hasStore : Bool) : State :=
  { now := now, next := 0, entries := fun _ => { key := ⟨0⟩ }, shard := fun _ => none, store := fun _ => none,
    hasStore := hasStore, pc := fun _ => .idle, lock := fun _ => none, queue := fun _ => [], owner := fun _ => none, fetched := [], ups := fun _ => 0 }

inductive Event
  | arrive (t : Tid) (k : Key)          -- a GET/HEAD request for key k enters the cache middleware
  | arrivePass (t : Tid)                -- any other method: forwarded, never cached
  | lookup (t : Tid)                    -- GetHTTPCache under the shard mutex: get-or-create
  | drop (k : Key)                      -- LRU eviction of k's entry (any resident key, any time)
  | purge (k : Key) (deleted : Bool)    -- RemoveHTTPCache under the shard mutex; `deleted`: store.Delete succeeded
  | get (t : Tid) (so : Load)           -- the body of get() under the entry mutex, with the store's answer
  | park (t : Tid)                      -- the waiter reaches `<-done`
  | upEnd (t : Tid) (o : Outcome)       -- the upstream request of t ends (for passing requests `o` is ignored)
  | complete (t : Tid) (hfpTtl : Int)   -- Cacheable / deferred HitForPass: lock, set fields, detach the waiter list
  | send (t : Tid)                      -- one unbuffered send of the completer, joint with the receiving waiter
  | saved (t : Tid) (ok : Bool)         -- saveToStore (its outcome) and unlock
  | resume (t : Tid)                    -- the woken waiter continues
  | age (t : Tid)                       -- Age() under the read lock (waits for a completer): a separate step from get()
  | tick (d : Int)                      -- the clock advances by d > 0 seconds
  | crash                               -- the process dies: threads, entries and shards are gone, the store stays
deriving Repr

/-- `Cacheable` or the deferred `HitForPass`, by the outcome of the fetch -/
def completeEntry (o : Outcome) (now hfp : Int) (old : Entry) : Entry :=
  match o with
  | .cacheable ttl r => Entry.cacheable now ttl r old
  | .fail => Entry.hitForPass now hfp old

/-- one atomic step; `none` = the event is not enabled in this state -/
def step (reread : Bool) (s : State) : Event → Option State
  | .arrive t k =>
    if s.pc t = .idle then some { s with pc := upd s.pc t (.arrived k) } else none
  | .arrivePass t =>
    if s.pc t = .idle then some { s with pc := upd s.pc t .passUp } else none
  | .lookup t =>
    match s.pc t with
    | .arrived k =>
      match s.shard k with
      | some e => some { s with pc := upd s.pc t (.looked e) }
      | none =>
        let e : Eid := ⟨s.next⟩
        some { s with next := s.next + 1, entries := upd s.entries e { key := k },
                      shard := upd s.shard k (some e), pc := upd s.pc t (.looked e) }
    | _ => none
  | .drop k => some { s with shard := upd s.shard k none }
  | .purge k deleted =>
    some { s with shard := upd s.shard k none, store := if deleted then upd s.store k none else s.store }
  | .get t so =>
    match s.pc t with
    | .looked e =>
      if s.lock e = none then
        let (en, g) := Entry.get t s.now so (s.entries e)
        let pc' : Pc := match g with
          | .fetch => .fetchUp e
          | .wait => .registered e
          | .pass => .passUp
          | .hit r => .hitServe e r
        some { s with entries := upd s.entries e en, pc := upd s.pc t pc',
                      owner := if g = .fetch then upd s.owner e (some t) else s.owner }
      else none
    | _ => none
  | .park t =>
    match s.pc t with
    | .registered e => some { s with pc := upd s.pc t (.parked e) }
    | _ => none
  | .upEnd t o =>
    match s.pc t with
    | .fetchUp e =>
      (match o with
       | .cacheable ttl _ => if ttl > 0 then some { s with pc := upd s.pc t (.fetchDone e o), ups := upd s.ups t (s.ups t + 1) } else none
       | .fail => some { s with pc := upd s.pc t (.fetchDone e o), ups := upd s.ups t (s.ups t + 1) })
    | .passUp => some { s with pc := upd s.pc t (.done .passed), ups := upd s.ups t (s.ups t + 1) }
    | _ => none
  | .complete t hfp =>
    match s.pc t with
    | .fetchDone e o =>
      if s.lock e = none then
        let old := s.entries e
        let en := completeEntry o s.now hfp old
        let fetched' := match o with
          | .cacheable ttl r => (old.key, r, s.now, s.now + ttl) :: s.fetched
          | .fail => s.fetched
        some { s with entries := upd s.entries e en, lock := upd s.lock e (some t), owner := upd s.owner e none,
                      queue := upd s.queue e old.waiters,
                      pc := upd s.pc t (.draining e o), fetched := fetched' }
      else none
    | _ => none
  | .send t =>
    match s.pc t with
    | .draining e _ =>
      match s.queue e with
      | u :: rest =>
        if s.pc u = .parked e then
          let en := s.entries e
          some { s with pc := upd s.pc u (.woken e en.status en.resp), queue := upd s.queue e rest }
        else none
      | [] => none
    | _ => none
  | .saved t ok =>
    match s.pc t with
    | .draining e o =>
      if s.queue e ≠ [] then none else
      let en := s.entries e
      some { s with pc := upd s.pc t (.done (.fetched o)), lock := upd s.lock e none,
                    store := if s.hasStore ∧ ok then upd s.store en.key (some (Entry.toRec en)) else s.store }
    | _ => none
  | .resume t =>
    match s.pc t with
    | .woken e st r =>
      let st' := if reread then (s.entries e).status else st
      let r' := if reread then (s.entries e).resp else r
      let pc' : Pc := match st' with
        | .hit => .hitServe e r'
        | .hitForPass => .passUp
        | .fetching => .fetchUp e     -- only reachable when `reread`: the woken waiter acts as a second fetcher
        | .unknown => .passUp
      some { s with pc := upd s.pc t pc' }
    | _ => none
  | .age t =>
    match s.pc t with
    | .hitServe e r =>
      -- Age() takes the read lock: it waits while a completer holds the entry lock
      if s.lock e = none then some { s with pc := upd s.pc t (.done (.hit r (Entry.age s.now (s.entries e)))) } else none
    | _ => none
  | .tick d => if d > 0 then some { s with now := s.now + d } else none
  | .crash =>
    some { s with shard := fun _ => none, pc := fun _ => .idle, lock := fun _ => none, owner := fun _ => none, queue := fun _ => [], ups := fun _ => 0,
                  entries := fun e => { s.entries e with waiters := [], status := .unknown, expiredAt := 0 } }

/-- run a schedule; `none` if some event was not enabled -/
def run (reread : Bool) (s : State) : List Event → Option State
  | [] => some s
  | ev :: evs => match step reread s ev with
    | some s' => run reread s' evs
    | none => none

def Reachable (reread : Bool) (s : State) : Prop :=
  ∃ now hs evs, 0 ≤ now ∧ run reread (init now hs) evs = some s

end Sys
end Pike
