import Pike.Base.Str
/-
net/url as far as a location's added query parameters need it: `url.QueryEscape` (what `url.Values.Encode` applies to
every key and value) and `Values.Encode` itself (keys in byte order, the values of a key in insertion order).  A `Str`
is a byte string, one `Char` per byte.
-/
namespace Pike
namespace Query

def unreserved (c : Char) : Bool :=
  ('a' ≤ c && c ≤ 'z') || ('A' ≤ c && c ≤ 'Z') || ('0' ≤ c && c ≤ '9') || c == '-' || c == '_' || c == '.' || c == '~'

def hexU (n : Nat) : Char := if n < 16 then "0123456789ABCDEF".toList.getD n '0' else '0'

def unhex (c : Char) : Option Nat :=
  if '0' ≤ c ∧ c ≤ '9' then some (c.toNat - '0'.toNat)
  else if 'A' ≤ c ∧ c ≤ 'F' then some (c.toNat - 'A'.toNat + 10)
  else if 'a' ≤ c ∧ c ≤ 'f' then some (c.toNat - 'a'.toNat + 10)
  else none

/-- `url.QueryEscape`, byte by byte -/
def escape : Str → Str
  | [] => []
  | c :: r =>
    if unreserved c then c :: escape r
    else if c = ' ' then '+' :: escape r
    else '%' :: hexU (c.toNat / 16) :: hexU (c.toNat % 16) :: escape r

/-- `url.QueryUnescape` -/
def unescape : Str → Option Str
  | [] => some []
  | c :: r =>
    if c = '+' then (unescape r).map (' ' :: ·)
    else if c = '%' then
      match r with
      | a :: b :: r' =>
        match unhex a, unhex b with
        | some x, some y => (unescape r').map (Char.ofNat (16 * x + y) :: ·)
        | _, _ => none
      | _ => none
    else (unescape r).map (c :: ·)

theorem unhex_hexU : ∀ m, m < 16 → unhex (hexU m) = some m := by decide

theorem unreserved_not_special {c : Char} (h : unreserved c = true) : c ≠ '+' ∧ c ≠ '%' := by
  constructor <;> (intro hc; subst hc; exact absurd h (by decide))

/-- what is escaped comes back exactly: no byte string is confused with another by the encoding -/
theorem unescape_escape (s : Str) (hb : ∀ c ∈ s, c.toNat < 256) : unescape (escape s) = some s := by
  induction s with
  | nil => rfl
  | cons c r ih =>
    have ihr := ih (fun x hx => hb x (List.mem_cons_of_mem _ hx))
    have hc := hb c (List.mem_cons_self ..)
    unfold escape
    by_cases hu : unreserved c = true
    · rw [if_pos hu]
      obtain ⟨h1, h2⟩ := unreserved_not_special hu
      unfold unescape
      rw [if_neg h1, if_neg h2, ihr]; rfl
    · rw [if_neg hu]
      by_cases hs : c = ' '
      · rw [if_pos hs]; unfold unescape; rw [if_pos rfl, ihr, hs]; rfl
      · rw [if_neg hs]
        unfold unescape
        rw [if_neg (by decide), if_pos rfl]
        simp only
        rw [unhex_hexU _ (by omega), unhex_hexU _ (Nat.mod_lt _ (by decide))]
        simp only
        rw [ihr]
        have : 16 * (c.toNat / 16) + c.toNat % 16 = c.toNat := Nat.div_add_mod _ _
        rw [this, Char.ofNat_toNat]; rfl

/-- insertion-ordered multimap: `url.Values` built by `Add` -/
abbrev Values := List (Str × List Str)

def add (v : Values) (k x : Str) : Values :=
  if v.any (·.1 = k) then v.map (fun e => if e.1 = k then (e.1, e.2 ++ [x]) else e) else v ++ [(k, [x])]

def ofPairs (ps : List (Str × Str)) : Values := ps.foldl (fun v p => add v p.1 p.2) []

def strLe (a b : Str) : Bool := decide (a ≤ b)

/-- `Values.Encode`: keys sorted, `key=value` joined by `&` -/
def encode (v : Values) : Str :=
  let sorted := v.mergeSort (fun a b => strLe a.1 b.1)
  let parts := sorted.flatMap fun e => e.2.map fun x => escape e.1 ++ '=' :: escape x
  Str.join '&' parts

end Query
end Pike
