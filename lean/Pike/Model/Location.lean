import Pike.Base.Str
import Pike.Facts
/- location/location.go: Match, priority, the (unstable) sort in Set, Get. -/
namespace Pike
namespace Location
open Str

structure Loc where
  name : Str
  hosts : List Str
  prefixes : List Str
  upstream : Str := []
deriving Repr, DecidableEq

/-- `Location.Match` -/
def Loc.matches (l : Loc) (host url : Str) : Bool :=
  (l.hosts.isEmpty || l.hosts.contains host) && (l.prefixes.isEmpty || l.prefixes.any (fun p => hasPrefix p url))

/-- `Location.getPriority` (translated from the source) -/
def Loc.priority (l : Loc) : Int := Facts.locationPriority l.prefixes.length l.hosts.length

/-- the order `sort.Slice` establishes: the comparator direction is an extracted fact -/
def before (a b : Loc) : Prop :=
  if Facts.locationSort = "asc" then a.priority ≤ b.priority else b.priority ≤ a.priority

/-- a result the unstable sort may produce -/
def SortedPerm (locs sorted : List Loc) : Prop := sorted.Perm locs ∧ sorted.Pairwise before

/-- `Locations.Get`: sorted list outermost, names innermost; first named match -/
def get (sorted : List Loc) (host url : Str) (names : List Str) : Option Loc :=
  sorted.find? (fun l => names.contains l.name && l.matches host url)

/-- executable: the set of answers `Get` may give (any candidate of minimal priority) -/
def candidates (locs : List Loc) (host url : Str) (names : List Str) : List Loc :=
  locs.filter (fun l => names.contains l.name && l.matches host url)

def allowed (locs : List Loc) (host url : Str) (names : List Str) : List Loc :=
  let cs := candidates locs host url names
  cs.filter (fun l => cs.all (fun l' => l.priority ≤ l'.priority))

end Location
end Pike
