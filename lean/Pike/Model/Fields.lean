import Pike.Base.Str
/-
config/validate.go + the struct tags of config/config.go: what "well-formed" means for the fields whose rule is
pike's own (the go-playground validator is the interpreter of the tags; durations, sizes and regular expressions are
judged by library parsers and stay outside).  A `Str` is a byte string.
-/
namespace Pike
namespace Fields

/-- `utf8.RuneCountInString` on valid UTF-8: the bytes that do not continue a sequence -/
def runeCount (s : Str) : Nat := (s.filter fun c => !(0x80 ≤ c.toNat && c.toNat ≤ 0xBF)).length

/-- `required,xName` (`xName` = `max=20`, counted in runes) -/
def nameOK (s : Str) : Bool := !s.isEmpty && decide (runeCount s ≤ 20)

def policies : List Str := ["first", "random", "roundRobin", "leastconn"].map String.toList

/-- `omitempty,xPolicy`: empty, or exactly one of the four names the upstream library switches on -/
def policyOK (s : Str) : Bool := s.isEmpty || policies.contains s

def isAlpha (c : Char) : Bool := ('a' ≤ c && c ≤ 'z') || ('A' ≤ c && c ≤ 'Z')
def isSchemeChar (c : Char) : Bool := isAlpha c || ('0' ≤ c && c ≤ '9') || c == '+' || c == '-' || c == '.'

def lowerC (c : Char) : Char := if 'A' ≤ c ∧ c ≤ 'Z' then Char.ofNat (c.toNat + 32) else c

/-- `net/url` getScheme: a letter, then letters / digits / `+-.`, then `:`; the scheme is reported in lower case.
`none` = no scheme (or a malformed one: `url.Parse` then fails or reports an empty scheme — rejected either way) -/
def schemeAux : Str → Str → Option Str
  | [], _ => none
  | c :: r, acc => if c = ':' then (if acc.isEmpty then none else some acc.reverse)
                   else if isSchemeChar c then schemeAux r (lowerC c :: acc) else none

def scheme (s : Str) : Option Str :=
  match s with
  | c :: _ => if isAlpha c then schemeAux s [] else none
  | [] => none

/-- `required,xAddr`: the address parses and its scheme is http or https -/
def addrOK (s : Str) : Bool := scheme s = some "http".toList || scheme s = some "https".toList

/-- `xURLPath`: starts with a slash -/
def urlPathOK (s : Str) : Bool := match s with | c :: _ => c == '/' | [] => false

/-- `xDivide`: exactly two parts around a colon -/
def divideOK (s : Str) : Bool := (Str.splitOn ':' s).length == 2

def fieldOK (kind : String) (v : Str) : Option Bool :=
  match kind with
  | "name" => some (nameOK v)
  | "policy" => some (policyOK v)
  | "addr" => some (addrOK v)
  | "prefix" => some (urlPathOK v)
  | "divide" => some (divideOK v)
  | _ => none

theorem policy_exact (s : Str) (h : policyOK s = true) (hne : s ≠ []) : s ∈ policies := by
  unfold policyOK at h
  cases hs : s.isEmpty with
  | true => exact absurd (List.isEmpty_iff.mp hs) hne
  | false => simpa [hs] using h

theorem addr_scheme_exact (s : Str) (h : addrOK s = true) :
    scheme s = some "http".toList ∨ scheme s = some "https".toList := by
  unfold addrOK at h
  simpa using h

theorem name_bounded (s : Str) (h : nameOK s = true) : s ≠ [] ∧ runeCount s ≤ 20 := by
  unfold nameOK at h
  simp only [Bool.and_eq_true, Bool.not_eq_true', decide_eq_true_eq] at h
  exact ⟨fun e => by simp [e] at h, h.2⟩

end Fields
end Pike
