import Pike.Base.Str
/-
cache/http_cache.go Bytes/FromBytes, cache/http_response.go Bytes/FromBytes, cache/cache.go
uint32/uint64 helpers: the length-prefixed big-endian persistence format.

The header is stored as JSON (`encoding/json`, library code): the codec is generic in the
header representation `H` with `encH`/`decH`; the theorems take the round trip of that pair
as a hypothesis, the driver instantiates `H` with the raw JSON bytes.
`reOK` says whether `regexp.Compile` accepts a filter source.
-/
namespace Pike
namespace Codec

def b (n : Nat) : Char := Char.ofNat (n % 256)

/-- `uint32ToBytes(int)`: `uint32(value)` wraps modulo 2^32 -/
def u32 (n : Nat) : Str := [b (n / 16777216), b (n / 65536), b (n / 256), b n]

/-- `uint64ToBytes(int64)`: two's complement -/
def u64 (x : Int) : Str :=
  let n := (x % 18446744073709551616).toNat
  [b (n / 72057594037927936), b (n / 281474976710656), b (n / 1099511627776), b (n / 4294967296),
   b (n / 16777216), b (n / 65536), b (n / 256), b n]

/-- `readUint32ToInt`: error on fewer than 4 bytes -/
def readU32 : Str → Option (Nat × Str)
  | a :: b :: c :: d :: r => some (a.toNat * 16777216 + b.toNat * 65536 + c.toNat * 256 + d.toNat, r)
  | _ => none

def toI64 (n : Nat) : Int := if n ≥ 9223372036854775808 then (n : Int) - 18446744073709551616 else n

/-- `readUint64ToInt64` -/
def readU64 : Str → Option (Int × Str)
  | a :: b :: c :: d :: e :: f :: g :: h :: r =>
    some (toI64 (a.toNat * 72057594037927936 + b.toNat * 281474976710656 + c.toNat * 1099511627776
      + d.toNat * 4294967296 + e.toNat * 16777216 + f.toNat * 65536 + g.toNat * 256 + h.toNat), r)
  | _ => none

structure Resp (H : Type) where
  compressSrv : Str
  minLength : Nat
  filter : Str          -- regex source; [] = no filter (nil)
  header : H
  statusCode : Nat
  gzip : Str
  br : Str
  raw : Str
deriving Repr, DecidableEq

structure Entry (H : Type) where
  status : Nat
  resp : Option (Resp H)
  createdAt : Int
  expiredAt : Int
deriving Repr, DecidableEq

structure HCodec (H : Type) where
  enc : H → Str
  dec : Str → Option H
  /-- the value `json.Unmarshal` leaves for an absent/empty response (`HTTPResponse{}`) -/
  zero : H
  reOK : Str → Bool

variable {H : Type}

/-- `HTTPResponse.Bytes` -/
def encodeResp (c : HCodec H) (r : Resp H) : Str :=
  u32 r.compressSrv.length ++ r.compressSrv ++ u32 r.minLength
  ++ u32 r.filter.length ++ r.filter
  ++ u32 (c.enc r.header).length ++ c.enc r.header
  ++ u32 r.statusCode
  ++ u32 r.gzip.length ++ r.gzip ++ u32 r.br.length ++ r.br ++ u32 r.raw.length ++ r.raw

/-- `httpCache.Bytes` -/
def encodeEntry (c : HCodec H) (e : Entry H) : Str :=
  let rb := match e.resp with | some r => encodeResp c r | none => []
  u32 e.status ++ u32 rb.length ++ rb ++ u64 e.createdAt ++ u64 e.expiredAt

def zeroResp (c : HCodec H) : Resp H := ⟨[], 0, [], c.zero, 0, [], [], []⟩

/-- a length-prefixed field: `readUint32ToInt` then `bytes.Buffer.Next(n)`, which silently
returns fewer than `n` bytes when the buffer is short -/
def readField (s : Str) : Option (Str × Str) :=
  match readU32 s with
  | none => none
  | some (n, r) => some (r.take n, r.drop n)

/-- `HTTPResponse.FromBytes` -/
def decodeResp (c : HCodec H) (data : Str) : Option (Resp H) :=
  if data.isEmpty then some (zeroResp c) else
  match readField data with
  | none => none
  | some (srv, r) =>
  match readU32 r with
  | none => none
  | some (minLen, r) =>
  match readField r with
  | none => none
  | some (filter, r) =>
  if !filter.isEmpty && !c.reOK filter then none else
  match readField r with
  | none => none
  | some (hj, r) =>
  match c.dec hj with
  | none => none
  | some h =>
  match readU32 r with
  | none => none
  | some (code, r) =>
  match readField r with
  | none => none
  | some (gz, r) =>
  match readField r with
  | none => none
  | some (br, r) =>
  match readField r with
  | none => none
  | some (raw, _) => some ⟨srv, minLen, filter, h, code, gz, br, raw⟩

/-- `httpCache.FromBytes` on a fresh entry -/
def decodeEntry (c : HCodec H) (data : Str) : Option (Entry H) :=
  match readU32 data with
  | none => none
  | some (status, r) =>
  match readField r with
  | none => none
  | some (rb, r) =>
  match decodeResp c rb with
  | none => none
  | some resp =>
  match readU64 r with
  | none => none
  | some (created, r) =>
  match readU64 r with
  | none => none
  | some (expired, _) => some ⟨status, some resp, created, expired⟩

end Codec
end Pike
