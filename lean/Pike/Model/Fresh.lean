import Pike.Base.MiniRe
import Pike.Model.Header
import Pike.Facts
/-
server/proxy.go: getCacheMaxAge, server/cache.go: requestIsPass and the store decision.
The three regexes and the shape of the Set-Cookie test are read from `Pike.Facts`
(regenerated from the Go source), and interpreted here.
-/
namespace Pike
namespace Fresh
open Str MiniRe

def hSetCookie : Str := "Set-Cookie".toList
def hCacheControl : Str := "Cache-Control".toList
def hAge : Str := "Age".toList

structure Cfg where
  noCache : Alt
  sMaxAge : LitDigits
  maxAge : LitDigits
  /-- true: `len(header.Values("Set-Cookie")) != 0`; false: `header.Get("Set-Cookie") != ""` -/
  cookieByValues : Bool
deriving Repr, DecidableEq

/-- the configuration the Go source denotes today, if it has the understood shape -/
def cfgOfFacts : Option Cfg := do
  let nc ← parseAlt Facts.noCacheRe.toList
  let sm ← parseLitDigits Facts.sMaxAgeRe.toList
  let ma ← parseLitDigits Facts.maxAgeRe.toList
  let cv ← if Facts.setCookieTest = "values" then some true
           else if Facts.setCookieTest = "get" then some false else none
  pure ⟨nc, sm, ma, cv⟩

def setCookiePresent (c : Cfg) (h : Header) : Bool :=
  if c.cookieByValues then !(h.values hSetCookie).isEmpty else !(h.get hSetCookie).isEmpty

/-- the value captured by s-maxage (preferred) or max-age, 0 if neither -/
def directiveAge (c : Cfg) (cc : Str) : Int :=
  match c.sMaxAge.find cc with
  | some d => atoi d
  | none =>
    match c.maxAge.find cc with
    | some d => atoi d
    | none => 0

/-- `getCacheMaxAge` -/
def cacheMaxAge (c : Cfg) (h : Header) : Int :=
  if setCookiePresent c h then 0
  else
    let cc := join ',' (h.values hCacheControl)
    if cc.isEmpty then 0
    else if c.noCache.matches cc then 0
    else
      let m := directiveAge c cc
      let age := h.get hAge
      if age.isEmpty then m else wrap64 (m - atoi age)

/-- `requestIsPass` -/
def requestIsPass (method : Str) : Bool :=
  method ≠ "GET".toList && method ≠ "HEAD".toList

/-- the lifetime with which the cache middleware stores the response of this request,
`none` when it is not stored.  `fetching` = the request is the key's fetcher,
`hasResp` = the proxy produced a response object. -/
def storeDecision (c : Cfg) (method : Str) (fetching hasResp : Bool) (h : Header) : Option Int :=
  if requestIsPass method then none
  else if !fetching then none
  else
    let m := cacheMaxAge c h
    if m > 0 && hasResp then some m else none

end Fresh
end Pike
