import Pike.Base.Str
/-
config/config.go Validate: the cross-reference pass (after the struct-tag validation, which is
library code and enters as the flag `structOK`), and the registries a configuration produces
when it is applied (main.update).
-/
namespace Pike
namespace Config

structure Loc where
  name : Str
  upstream : Str
deriving Repr, DecidableEq

structure Srv where
  addr : Str
  locations : List Str
  cache : Str
  compress : Str
deriving Repr, DecidableEq

structure Cfg where
  compresses : List Str
  caches : List Str
  upstreams : List Str
  locations : List Loc
  servers : List Srv
deriving Repr, DecidableEq

inductive Verdict | ok | structErr | upstreamNotFound | locationNotFound | cacheNotFound | compressNotFound
deriving Repr, DecidableEq

def checkServer (c : Cfg) (s : Srv) : Verdict :=
  if !(s.locations.all fun n => c.locations.any (·.name = n)) then .locationNotFound
  else if !(s.cache = [] || c.caches.contains s.cache) then .cacheNotFound
  else if !(s.compress = [] || c.compresses.contains s.compress) then .compressNotFound
  else .ok

def firstBad : List Verdict → Verdict
  | [] => .ok
  | .ok :: r => firstBad r
  | v :: _ => v

/-- `PikeConfig.Validate` -/
def validate (structOK : Bool) (c : Cfg) : Verdict :=
  if !structOK then .structErr
  else if !(c.locations.all fun l => c.upstreams.contains l.upstream) then .upstreamNotFound
  else firstBad (c.servers.map (checkServer c))

/-- what the request path looks up for a server once the configuration is applied -/
def resolves (c : Cfg) (s : Srv) : Prop :=
  s.cache ∈ c.caches
  ∧ (∀ n ∈ s.locations, ∃ l ∈ c.locations, l.name = n)
  ∧ (∀ l ∈ c.locations, l.name ∈ s.locations → l.upstream ∈ c.upstreams)

end Config
end Pike
