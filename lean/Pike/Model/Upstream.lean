/-
github.com/vicanso/upstream (selection part) as used by pike's target picker:
candidates = healthy primaries if any, else healthy backups; four policies.
The health vector is an input (the checker's timing is runtime behaviour).
-/
namespace Pike
namespace Upstream

structure Server where
  healthy : Bool
  backup : Bool
  conns : Nat := 0      -- connection counter (leastconn)
deriving Repr, DecidableEq

inductive Policy | first | random | roundRobin | leastconn
deriving Repr, DecidableEq

/-- indices of the servers traffic may go to -/
def isPrim (ss : List Server) (i : Nat) : Bool :=
  match ss[i]? with | some s => s.healthy && !s.backup | none => false

def isBack (ss : List Server) (i : Nat) : Bool :=
  match ss[i]? with | some s => s.healthy && s.backup | none => false

def candidates (ss : List Server) : List Nat :=
  if !((List.range ss.length).filter (isPrim ss)).isEmpty then (List.range ss.length).filter (isPrim ss)
  else (List.range ss.length).filter (isBack ss)

/-- first index of a minimal connection count among the candidates -/
def leastIdx (ss : List Server) (cs : List Nat) : Option Nat :=
  cs.foldl (fun best i =>
    let v := (ss[i]?.map (·.conns)).getD 0
    match best with
    | none => some i
    | some b => if v < (ss[b]?.map (·.conns)).getD 0 then some i else some b) none

/-- `HTTP.Next`: chosen server index (if any) and the new round-robin counter.  `rnd` is the
random number drawn by the random policy; `rr` the uint32 counter before the call. -/
def next (p : Policy) (ss : List Server) (rr rnd : Nat) : Option Nat × Nat :=
  let cs := candidates ss
  let n := cs.length
  if n = 0 then (none, if p = .roundRobin then (rr + 1) % 4294967296 else rr) else
  match p with
  | .first => (cs[0]?, rr)
  | .random => (cs[rnd % n]?, rr)
  | .roundRobin => let c := (rr + 1) % 4294967296; (cs[c % n]?, c)
  | .leastconn => (leastIdx ss cs, rr)

end Upstream
end Pike
