import Pike.Base.Str
import Pike.Facts
/-
main.go update(): the five registries (sync.Map keyed by name / address; the location list) and
their Reset functions as sequences of micro-steps (delete stale keys, store new ones), in the
extracted order.  Restart-only settings (a surviving cache keeps its original options; a
server's log format; admin) are recorded but not part of `obs`.
-/
namespace Pike
namespace Reconfig

abbrev Map (V : Type) := List (Str × V)

def Map.get {V : Type} (m : Map V) (k : Str) : Option V := (m.find? (fun e => e.1 = k)).map (·.2)
def Map.del {V : Type} (m : Map V) (k : Str) : Map V := m.filter (fun e => e.1 ≠ k)
def Map.put {V : Type} (m : Map V) (k : Str) (v : V) : Map V := (k, v) :: m.del k
def Map.keys {V : Type} (m : Map V) : List Str := m.map (·.1)

structure SrvOpt where
  locations : List Str
  cache : Str
  compress : Str
  minLength : Nat      -- 0 = not configured
  filter : Str
deriving Repr, DecidableEq

structure Cfg where
  compresses : List (Str × Int × Int)   -- name, gzip level, br level
  caches : List (Str × Nat)             -- name, size
  upstreams : List (Str × Str)          -- name, options (policy, servers, …) as one opaque value
  locations : List Str                  -- the location list as one opaque value per location
  servers : List (Str × SrvOpt)         -- address, options
deriving Repr, DecidableEq

structure St where
  compress : Map (Int × Int)
  caches : Map (Nat × Nat)              -- (size at creation, identity)
  upstreams : Map (Str × Nat)           -- (options, generation)
  locations : List Str
  servers : Map SrvOpt                  -- effective options
  next : Nat
deriving Repr, DecidableEq

def bestName : Str := Facts.bestCompressionName.toList

/-- process start: empty registries, the built-in bestCompression profile (gzip 9, br default) -/
def init : St := ⟨[(bestName, (9, -1))], [], [], [], [], 0⟩

/-- the default compress service used when a name is not registered: library default levels -/
def defaultLevels : Int × Int := (-1, 6)

/-- the effective options of a server: NewServer and (per the extracted fact) Update replace an
unset min length by the default -/
def effective (isNew : Bool) (o : SrvOpt) : SrvOpt :=
  let applies := if isNew then Facts.newServerAppliesDefaultMinLength else Facts.updateAppliesDefaultMinLength
  if applies ∧ o.minLength = 0 then { o with minLength := Facts.defaultCompressMinLength.toNat } else o

/-- delete the stale keys one by one, then store the new entries one by one: every intermediate
map (each `LoadAndDelete` / `Store` on the sync.Map is one atomic step) -/
def delPhase {V : Type} (m : Map V) (keep : Str → Bool) : List (Map V) :=
  (m.keys.filter fun k => !keep k).foldl (fun acc k => acc ++ [(acc.getLastD m).del k]) [m]

def stale {V : Type} (m : Map V) (keep : Str → Bool) : Map V := m.filter (fun e => keep e.1)

/-- `compressSrvs.Reset`: stores every configured profile; deletes nothing unless the source does -/
def resetCompress (m : Map (Int × Int)) (cs : List (Str × Int × Int)) : Map (Int × Int) :=
  let m0 := if Facts.compressResetDeletesAbsent then stale m (fun n => n = bestName ∨ (cs.map (·.1)).contains n) else m
  cs.foldl (fun m e => m.put e.1 e.2) m0

/-- `dispatchers.Reset`: remove the dispatchers whose name is gone, create the missing ones, keep
(with their entries and original options) the ones whose name survives -/
def resetCaches (m : Map (Nat × Nat)) (next : Nat) (cs : List (Str × Nat)) : Map (Nat × Nat) × Nat :=
  cs.foldl (fun (acc : Map (Nat × Nat) × Nat) e =>
      if (acc.1.get e.1).isSome then acc else (acc.1.put e.1 (e.2, acc.2), acc.2 + 1))
    (stale m (fun n => (cs.map (·.1)).contains n), next)

/-- `upstreamServers.Reset`: remove the stale ones; for every configured upstream store the new
object, then destroy the old one (add-then-remove) -/
def resetUpstreams (m : Map (Str × Nat)) (next : Nat) (cs : List (Str × Str)) : Map (Str × Nat) × Nat :=
  cs.foldl (fun (acc : Map (Str × Nat) × Nat) e => (acc.1.put e.1 (e.2, acc.2), acc.2 + 1))
    (stale m (fun n => (cs.map (·.1)).contains n), next)

/-- `servers.Reset`: close the servers whose address is gone, `Update` the existing ones in place,
create the new ones -/
def resetServers (m : Map SrvOpt) (cs : List (Str × SrvOpt)) : Map SrvOpt :=
  cs.foldl (fun m e => m.put e.1 (effective (m.get e.1).isNone e.2))
    (stale m (fun a => (cs.map (·.1)).contains a))

/-- one `update()`: the registries are reset in the order main.go does it (they are independent
of each other, so the order matters only for what a request sees in between) -/
def update (s : St) (c : Cfg) : St :=
  let comp := resetCompress s.compress c.compresses
  let (caches, n1) := resetCaches s.caches s.next c.caches
  let (ups, n2) := resetUpstreams s.upstreams n1 c.upstreams
  ⟨comp, caches, ups, c.locations, resetServers s.servers c.servers, n2⟩

def fresh (c : Cfg) : St := update init c

/-- what requests can observe -/
structure Obs where
  levels : Str → Int × Int
  cacheExists : Str → Bool
  upstream : Str → Option Str
  locations : List Str
  server : Str → Option SrvOpt

def obs (s : St) : Obs :=
  ⟨fun n => (s.compress.get n).getD defaultLevels, fun n => (s.caches.get n).isSome,
   fun n => (s.upstreams.get n).map (·.1), s.locations, fun a => s.servers.get a⟩

end Reconfig
end Pike
