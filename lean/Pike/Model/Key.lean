import Pike.Base.Str
import Pike.Facts
/- server/cache.go getKey: the key is assembled from the extracted layout into a buffer of
the extracted length (a short buffer truncates: Go's `copy` copies what fits). -/
namespace Pike
namespace Key

def seg (sep : Str) (m h u : Str) : String → Str
  | "method" => m
  | "host" => h
  | "uri" => u
  | "sp" => sep
  | _ => []

def keyOf (layout : List String) (sep : Str) (extra : Int) (m h u : Str) : Str :=
  ((layout.map (seg sep m h u)).flatten).take (m.length + h.length + u.length + extra).toNat

/-- the key the current source computes -/
def getKey (m h u : Str) : Str :=
  keyOf Facts.keyLayout Facts.keySeparator.toList Facts.keyExtraLen m h u

/-- the documented key: METHOD SP HOST SP REQUEST-URI -/
def specKey (m h u : Str) : Str := m ++ ' ' :: (h ++ ' ' :: u)

end Key
end Pike
