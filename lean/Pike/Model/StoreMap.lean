import Pike.Base.Str
/-
The persistent store as the cache layer uses it: one partial map per configured store, keyed by the exact key
bytes.  (`Sys.store : Key → Option Rec` is this map for one store; here keys are identified by an index into the
harness's key pool and the store by its index.)
-/
namespace Pike
namespace StoreMap

abbrev K := Nat × Nat          -- (store, key)
abbrev M := List (K × Str)

def get : M → K → Option Str
  | [], _ => none
  | (k', v) :: m, k => if k' = k then some v else get m k
def del : M → K → M
  | [], _ => []
  | (k', v) :: m, k => if k' = k then del m k else (k', v) :: del m k
def set (m : M) (k : K) (v : Str) : M := (k, v) :: del m k

theorem get_del_same (m : M) (k : K) : get (del m k) k = none := by
  induction m with
  | nil => rfl
  | cons e m ih =>
    obtain ⟨k', v⟩ := e
    by_cases h : k' = k
    · simp only [del, h, if_true]; exact ih
    · simp only [del, h, if_false, get]; exact ih

theorem get_del_other (m : M) (k k' : K) (h : k' ≠ k) : get (del m k) k' = get m k' := by
  induction m with
  | nil => rfl
  | cons e m ih =>
    obtain ⟨k0, v⟩ := e
    by_cases h0 : k0 = k
    · have hk : ¬ k0 = k' := fun h2 => h (h2 ▸ h0)
      simp only [del, h0, if_true, get]
      rw [← h0, if_neg hk, h0]; exact ih
    · by_cases hk : k0 = k'
      · subst hk
        simp only [del, if_neg h0, get, if_true]
      · simp only [del, h0, if_false, get, hk]; exact ih

theorem get_set_same (m : M) (k : K) (v : Str) : get (set m k v) k = some v := by
  simp only [set, get, if_true]

theorem get_set_other (m : M) (k k' : K) (v : Str) (h : k' ≠ k) : get (set m k v) k' = get m k' := by
  have : ¬ (k = k') := fun e => h e.symm
  simp only [set, get, this, if_false]
  exact get_del_other m k k' h

end StoreMap
end Pike
