import Pike.Props.C01
/-
C02 — every coalesced request completes: no lost wake-up, no stuck key.
-/
namespace Pike
namespace C02
open Sys Entry

/-- Obligations on the extracted facts that the model's atomic steps rest on:
* a waiter waits with a plain channel receive (it cannot leave the wait while its channel is still
  registered — `Sys.step (.park t)` / `(.send c)`);
* `Cacheable` and `HitForPass` are each ONE critical section of the entry mutex held to the end of the
  function: fields, detached list and the sends to the waiters happen under it (`Sys.step (.complete t _)`
  up to `(.saved t _)`), and the lookup `Get` locks once;
* the location's proxy timeout is attached to the context the reverse proxy uses, so an upstream that
  never answers ends as an error (the `upEnd` event the progress theorems condition on does occur). -/
theorem facts_wait_and_completion :
    Facts.getShape = "ok"
    ∧ "httpCache.Cacheable:httpCache:1:deferred" ∈ Facts.lockSections
    ∧ "httpCache.HitForPass:httpCache:1:deferred" ∈ Facts.lockSections
    ∧ "httpCache.Get:httpCache:1:explicit" ∈ Facts.lockSections
    ∧ Facts.proxyTimeoutAttached = true := by decide

/-- Obligation on the extracted lock scopes (entry, shard, server, location registry): no method takes a mutex of
its own object while a caller up the stack — on the same object — already holds it.  Go's mutexes are not
re-entrant: a nested write lock blocks at once, a nested READ lock blocks as soon as a writer (a configuration
update) queues up between the two acquisitions, and with it the fetcher that sits in the middle of a fetch. The
model's lock is a plain owner field; this is what lets it be one. -/
theorem facts_no_reentrant_locking : Facts.reentrantLocking = [] := by decide

/-- a thread is waiting for the environment: its upstream request is in flight.  The property
conditions on every upstream request ending (the proxy timeout turns a silent upstream into 504) -/
def inUpstream : Pc → Bool
  | .fetchUp _ => true
  | .passUp => true
  | _ => false

def finished : Pc → Bool
  | .idle => true
  | .done _ => true
  | _ => false

def Enabled (s : State) (ev : Event) : Prop := (step Facts.waiterRereadsEntry s ev).isSome = true

/-- a thread step (as opposed to environment events: arrivals, ticks, upstream endings, drops,
purges, crashes) -/
def threadEvent : Event → Bool
  | .lookup _ | .get _ _ | .park _ | .complete _ _ | .send _ | .saved _ _ | .resume _ | .age _ => true
  | _ => false

theorem drain_progress {s : State} (hi : Inv s) (u : Tid) (e : Eid) (o : Outcome) (hpu : s.pc u = .draining e o) :
    ∃ ev, threadEvent ev = true ∧ Enabled s ev := by
  unfold Enabled
  rw [C01.facts_handover.1]
  cases hq : s.queue e with
  | nil => exact ⟨.saved u true, rfl, by simp [step, hpu, hq]⟩
  | cons v rest =>
    have hv := hi.queue_wait v e (by rw [hq]; exact List.mem_cons_self)
    cases hpv : s.pc v <;> simp [hpv] at hv
    · subst hv; exact ⟨.park v, rfl, by simp [step, hpv]⟩
    · subst hv; exact ⟨.send u, rfl, by simp [step, hpu, hq, hpv]⟩

theorem lock_progress {s : State} (hi : Inv s) (e : Eid) (hl : s.lock e ≠ none) :
    ∃ ev, threadEvent ev = true ∧ Enabled s ev := by
  cases hlu : s.lock e with
  | none => exact absurd hlu hl
  | some u =>
    have hd := hi.lock_drain u e hlu
    cases hpu : s.pc u <;> simp [hpu] at hd
    subst hd
    exact drain_progress hi u _ _ hpu

/-- FULL STATEMENT (progress).  In every reachable state, if some request is neither idle nor
finished, then some thread step is enabled, or some upstream request is still in flight.  So no
state is a deadlock: not between requests, completions (including a completer blocked on a
waiter that registered but has not started to wait: then that waiter's `park` is the enabled
step), purges or evictions. -/
theorem progress {s : State} (h : Reachable Facts.waiterRereadsEntry s) (t : Tid) (hnf : finished (s.pc t) = false) :
    (∃ ev, threadEvent ev = true ∧ Enabled s ev) ∨ (∃ u, inUpstream (s.pc u) = true) := by
  have hi := C01.reach_inv h
  have hf := C01.facts_handover.1
  have complete_enabled : ∀ u e o, s.pc u = .fetchDone e o → ∃ ev, threadEvent ev = true ∧ Enabled s ev := by
    intro u e o hpu
    have hown := hi.fetch_owner u e (by simp [hpu])
    have hfet := hi.owner_fetching e (by simp [hown])
    have hl : s.lock e = none := by
      cases hl : s.lock e with
      | none => rfl
      | some x => exact absurd hfet (hi.locked_status e (by simp [hl])).1
    exact ⟨.complete u 0, rfl, by unfold Enabled; rw [hf]; simp [step, hpu, hl]⟩
  cases hp : s.pc t with
  | idle => simp [hp, finished] at hnf
  | done a => simp [hp, finished] at hnf
  | arrived k =>
    left; refine ⟨.lookup t, rfl, ?_⟩
    unfold Enabled; rw [hf]; simp only [step, hp]; cases s.shard k <;> simp
  | looked e =>
    by_cases hl : s.lock e = none
    · left; exact ⟨.get t .noStore, rfl, by unfold Enabled; rw [hf]; simp [step, hp, hl]⟩
    · left; exact lock_progress hi e hl
  | registered e => left; exact ⟨.park t, rfl, by unfold Enabled; rw [hf]; simp [step, hp]⟩
  | parked e =>
    rcases hi.wait_where t e (by simp [hp]) with hw | hq
    · have hfet := (hi.entry_ok e).waiters_fetching (by intro hnil; rw [hnil] at hw; simp at hw)
      have hown := hi.fetching_owner e hfet
      cases ho : s.owner e with
      | none => exact absurd ho hown
      | some u =>
        have hfu := hi.owner_fetch u e ho
        cases hpu : s.pc u <;> simp [hpu] at hfu
        · right; exact ⟨u, by simp [hpu, inUpstream]⟩
        · subst hfu; left; exact complete_enabled u _ _ hpu
    · left
      exact lock_progress hi e (hi.queue_locked e (by intro hnil; rw [hnil] at hq; simp at hq))
  | woken e st r => left; exact ⟨.resume t, rfl, by unfold Enabled; rw [hf]; simp [step, hp]⟩
  | fetchUp e => right; exact ⟨t, by simp [hp, inUpstream]⟩
  | fetchDone e o => left; exact complete_enabled t e o hp
  | draining e o => left; exact drain_progress hi t e o hp
  | passUp => right; exact ⟨t, by simp [hp, inUpstream]⟩
  | hitServe e r =>
    by_cases hl : s.lock e = none
    · left; exact ⟨.age t, rfl, by unfold Enabled; rw [hf]; simp [step, hp, hl]⟩
    · left; exact lock_progress hi e hl

/-- how far a request is from being answered -/
def rank : Pc → Nat
  | .idle => 0
  | .done _ => 0
  | .arrived _ => 12
  | .looked _ => 11
  | .fetchUp _ => 10
  | .fetchDone _ _ => 9
  | .registered _ => 8
  | .parked _ => 7
  | .woken _ _ _ => 6
  | .draining _ _ => 4
  | .passUp => 3
  | .hitServe _ _ => 2

/-- the detached waiter lists still to be sent to -/
def pending (s : State) (es : List Eid) : Nat := (es.map fun e => (s.queue e).length).sum

/-- FULL STATEMENT (no livelock, no lost wake-up).  Every thread step and every upstream
ending strictly lowers the rank of the acting request or wakes a waiter (lowering that waiter's
rank), and no step of anybody ever raises the rank of another request; ticks, drops and purges
change no rank.  Hence with finitely many arrivals every schedule consists of finitely many
thread steps and (by `progress`) ends with every request answered once the upstream requests
have ended. -/
theorem rank_decreases {s s' : State} (ev : Event)
    (hs : step Facts.waiterRereadsEntry s ev = some s') (hi : Inv s) :
    (∀ u, rank (s'.pc u) ≤ rank (s.pc u) ∨ (∃ k, ev = .arrive u k) ∨ ev = .arrivePass u)
    ∧ ((threadEvent ev = true ∨ ∃ t o, ev = .upEnd t o) → ∃ u, rank (s'.pc u) < rank (s.pc u)) := by
  rw [C01.facts_handover.1] at hs
  cases ev with
  | arrive t k =>
    simp only [step] at hs; split at hs
    · simp only [Option.some.injEq] at hs; subst hs
      refine ⟨fun u => ?_, by simp [threadEvent]⟩
      by_cases hu : u = t
      · subst hu; exact Or.inr (Or.inl ⟨k, rfl⟩)
      · left; simp [upd_other _ _ _ _ hu]
    · simp at hs
  | arrivePass t =>
    simp only [step] at hs; split at hs
    · simp only [Option.some.injEq] at hs; subst hs
      refine ⟨fun u => ?_, by simp [threadEvent]⟩
      by_cases hu : u = t
      · subst hu; exact Or.inr (Or.inr rfl)
      · left; simp [upd_other _ _ _ _ hu]
    · simp at hs
  | lookup t =>
    simp only [step] at hs; split at hs
    · rename_i k hp
      split at hs <;>
      · simp only [Option.some.injEq] at hs; subst hs
        refine ⟨fun u => Or.inl ?_, fun _ => ⟨t, by simp [hp, rank]⟩⟩
        by_cases hu : u = t
        · subst hu; simp [hp, rank]
        · simp [upd_other _ _ _ _ hu]
    · simp at hs
  | drop k => simp only [step, Option.some.injEq] at hs; subst hs; exact ⟨fun u => Or.inl (Nat.le_refl _), by simp [threadEvent]⟩
  | purge k d => simp only [step, Option.some.injEq] at hs; subst hs; exact ⟨fun u => Or.inl (Nat.le_refl _), by simp [threadEvent]⟩
  | get t so =>
    simp only [step] at hs; split at hs
    · rename_i e hp
      split at hs
      · generalize Entry.get t s.now so (s.entries e) = g at hs
        obtain ⟨en, got⟩ := g
        simp only [Option.some.injEq] at hs; subst hs
        refine ⟨fun u => Or.inl ?_, fun _ => ⟨t, by cases got <;> simp [hp, rank]⟩⟩
        by_cases hu : u = t
        · subst hu; cases got <;> simp [hp, rank]
        · simp [upd_other _ _ _ _ hu]
      · simp at hs
    · simp at hs
  | park t =>
    simp only [step] at hs; split at hs
    · rename_i e hp
      simp only [Option.some.injEq] at hs; subst hs
      refine ⟨fun u => Or.inl ?_, fun _ => ⟨t, by simp [hp, rank]⟩⟩
      by_cases hu : u = t
      · subst hu; simp [hp, rank]
      · simp [upd_other _ _ _ _ hu]
    · simp at hs
  | upEnd t o =>
    simp only [step] at hs; split at hs
    · rename_i e hp
      split at hs
      · split at hs
        · simp only [Option.some.injEq] at hs; subst hs
          refine ⟨fun u => Or.inl ?_, fun _ => ⟨t, by simp [hp, rank]⟩⟩
          by_cases hu : u = t
          · subst hu; simp [hp, rank]
          · simp [upd_other _ _ _ _ hu]
        · simp at hs
      · simp only [Option.some.injEq] at hs; subst hs
        refine ⟨fun u => Or.inl ?_, fun _ => ⟨t, by simp [hp, rank]⟩⟩
        by_cases hu : u = t
        · subst hu; simp [hp, rank]
        · simp [upd_other _ _ _ _ hu]
    · rename_i hp
      simp only [Option.some.injEq] at hs; subst hs
      refine ⟨fun u => Or.inl ?_, fun _ => ⟨t, by simp [hp, rank]⟩⟩
      by_cases hu : u = t
      · subst hu; simp [hp, rank]
      · simp [upd_other _ _ _ _ hu]
    · simp at hs
  | complete t hfp =>
    simp only [step] at hs; split at hs
    · rename_i e o hp
      split at hs
      · simp only [Option.some.injEq] at hs; subst hs
        refine ⟨fun u => Or.inl ?_, fun _ => ⟨t, by simp [hp, rank]⟩⟩
        by_cases hu : u = t
        · subst hu; simp [hp, rank]
        · simp [upd_other _ _ _ _ hu]
      · simp at hs
    · simp at hs
  | send t =>
    simp only [step] at hs; split at hs
    · rename_i e o hp
      split at hs
      · rename_i v rest hq
        split at hs
        · rename_i hpv
          simp only [Option.some.injEq] at hs; subst hs
          refine ⟨fun u => Or.inl ?_, fun _ => ⟨v, by simp [hpv, rank]⟩⟩
          by_cases hu : u = v
          · subst hu; simp [hpv, rank]
          · simp [upd_other _ _ _ _ hu]
        · simp at hs
      · simp at hs
    · simp at hs
  | saved t ok =>
    simp only [step] at hs; split at hs
    · rename_i e o hp
      split at hs
      · simp at hs
      · simp only [Option.some.injEq] at hs; subst hs
        refine ⟨fun u => Or.inl ?_, fun _ => ⟨t, by simp [hp, rank]⟩⟩
        by_cases hu : u = t
        · subst hu; simp [hp, rank]
        · simp [upd_other _ _ _ _ hu]
    · simp at hs
  | resume t =>
    simp only [step] at hs; split at hs
    · rename_i e st r hp
      have hst := hi.woken_status t e st r hp
      simp only [Bool.false_eq_true, if_false, Option.some.injEq] at hs; subst hs
      refine ⟨fun u => Or.inl ?_, fun _ => ⟨t, by rcases hst with rfl | rfl <;> simp [hp, rank]⟩⟩
      by_cases hu : u = t
      · subst hu; rcases hst with rfl | rfl <;> simp [hp, rank]
      · simp [upd_other _ _ _ _ hu]
    · simp at hs
  | age t =>
    simp only [step] at hs; split at hs
    · rename_i e r hp
      split at hs
      · simp only [Option.some.injEq] at hs; subst hs
        refine ⟨fun u => Or.inl ?_, fun _ => ⟨t, by simp [hp, rank]⟩⟩
        by_cases hu : u = t
        · subst hu; simp [hp, rank]
        · simp [upd_other _ _ _ _ hu]
      · simp at hs
    · simp at hs
  | tick d =>
    simp only [step] at hs; split at hs
    · simp only [Option.some.injEq] at hs; subst hs; exact ⟨fun u => Or.inl (Nat.le_refl _), by simp [threadEvent]⟩
    · simp at hs
  | crash =>
    simp only [step, Option.some.injEq] at hs; subst hs
    exact ⟨fun u => Or.inl (by simp [rank]), by simp [threadEvent]⟩

/-- FULL STATEMENT (released on every outcome).  Whatever way the fetch ends — cacheable, or
the deferred hit-for-pass that covers uncacheable, nil response, upstream error, proxy timeout
and a panic in the handler — the completer detaches the WHOLE waiter list, the entry leaves the
`fetching` state in that same step, and each detached waiter is woken by a `send`. -/
theorem released_on_every_outcome {s s' : State} (h : Reachable Facts.waiterRereadsEntry s) (t : Tid) (e : Eid)
    (o : Outcome) (hfp : Int) (hp : s.pc t = .fetchDone e o)
    (hs : step Facts.waiterRereadsEntry s (.complete t hfp) = some s') :
    s'.queue e = (s.entries e).waiters ∧ (s'.entries e).waiters = []
    ∧ (s'.entries e).status ≠ .fetching ∧ (s'.entries e).status ≠ .unknown
    ∧ (∀ u, waitOf (s.pc u) = some e → u ∈ s'.queue e) := by
  have hi := C01.reach_inv h
  rw [C01.facts_handover.1] at hs
  simp only [step, hp] at hs
  split at hs
  · rename_i hl
    simp only [Option.some.injEq] at hs; subst hs
    have hpos : (o = .fail ∨ ∃ ttl r, o = .cacheable ttl r ∧ 0 < ttl) := by
      cases o with
      | fail => exact Or.inl rfl
      | cacheable ttl r => exact Or.inr ⟨ttl, r, rfl, hi.done_pos t e ttl r hp⟩
    obtain ⟨_, hw, hnf, hnu, _⟩ := completeEntry_ok o s.now hfp (s.entries e) hi.now_nonneg hpos
    refine ⟨by simp, by simpa using hw, by simpa using hnf, by simpa using hnu, fun u hu => ?_⟩
    simp only [upd_same]
    rcases hi.wait_where u e hu with h1 | h1
    · exact h1
    · have := hi.queue_locked e (by intro hnil; rw [hnil] at h1; simp at h1)
      exact absurd hl this
  · simp at hs

/-- FULL STATEMENT (never stuck fetching).  An entry is `fetching` only while its owner exists
and is in its upstream phase or about to complete; and after a failed fetch the next request
is served normally: it is passed to the upstream at once (hit-for-pass), it does not queue. -/
theorem never_stuck_fetching {s : State} (h : Reachable Facts.waiterRereadsEntry s) (e : Eid)
    (hf : (s.entries e).status = .fetching) :
    ∃ u, s.owner e = some u ∧ (s.pc u = .fetchUp e ∨ ∃ o, s.pc u = .fetchDone e o) := by
  have hi := C01.reach_inv h
  have hown := hi.fetching_owner e hf
  cases ho : s.owner e with
  | none => exact absurd ho hown
  | some u =>
    have hfu := hi.owner_fetch u e ho
    refine ⟨u, rfl, ?_⟩
    cases hpu : s.pc u <;> simp [hpu] at hfu
    · subst hfu; exact Or.inl rfl
    · subst hfu; exact Or.inr ⟨_, rfl⟩

theorem after_failed_fetch_pass (t : Tid) (now now' ttl : Int) (so : Load) (e : Entry)
    (hle : now' ≤ now + hfpTtl ttl) :
    (Entry.get t now' so (Entry.hitForPass now ttl e)).2 = .pass := by
  have h1 : Entry.load (Entry.hitForPass now ttl e) so = Entry.hitForPass now ttl e :=
    Entry.load_keeps so (by simp [Entry.hitForPass])
  have h2 : Entry.expireIf now' (Entry.hitForPass now ttl e) = Entry.hitForPass now ttl e := by
    unfold Entry.expireIf
    rw [if_neg]
    intro hc
    have : (Entry.hitForPass now ttl e).expiredAt = now + hfpTtl ttl := rfl
    omega
  unfold Entry.get
  rw [h1, h2]
  rfl

/-- total distance of the requests in `ts` from being answered -/
def total (ts : List Tid) (s : State) : Nat := (ts.map fun t => rank (s.pc t)).sum

/-- events that make progress: thread steps and upstream endings -/
def workEvent (ev : Event) : Bool :=
  threadEvent ev || (match ev with | .upEnd _ _ => true | _ => false)

def isArrival : Event → Bool
  | .arrive _ _ => true
  | .arrivePass _ => true
  | _ => false

theorem sum_le_of_pointwise {α : Type} (l : List α) (f g : α → Nat) (h : ∀ a ∈ l, f a ≤ g a) :
    (l.map f).sum ≤ (l.map g).sum := by
  induction l with
  | nil => simp
  | cons a l ih =>
    simp only [List.map_cons, List.sum_cons]
    have := h a List.mem_cons_self
    have := ih (fun b hb => h b (List.mem_cons_of_mem _ hb))
    omega

theorem sum_lt_of_pointwise {α : Type} (l : List α) (f g : α → Nat) (h : ∀ a ∈ l, f a ≤ g a)
    (a : α) (ha : a ∈ l) (hlt : f a < g a) : (l.map f).sum + 1 ≤ (l.map g).sum := by
  induction l with
  | nil => simp at ha
  | cons b l ih =>
    simp only [List.map_cons, List.sum_cons]
    have hb := h b List.mem_cons_self
    have hrest := sum_le_of_pointwise l f g (fun c hc => h c (List.mem_cons_of_mem _ hc))
    rcases List.mem_cons.mp ha with e | e
    · subst e; omega
    · have := ih (fun c hc => h c (List.mem_cons_of_mem _ hc)) e
      omega


/-- BOUNDED COMPLETION (trace level).  Take any finite set `ts` of requests containing every
request that is under way.  Along ANY schedule without new arrivals — thread steps, upstream
endings, clock ticks, evictions, purges and store outcomes interleaved in any order — the number
of thread steps and upstream endings performed is at most the total distance `total ts` the
requests had at the start (≤ 12 per request): the system cannot spin, wake-ups cannot be lost
into extra work, and together with `progress` (some thread step is always enabled while a
request is unanswered and no upstream call is pending) every request is answered after finitely
many — explicitly bounded — steps. -/
theorem bounded_completion (ts : List Tid) :
    ∀ (evs : List Event) (s s' : State), Inv s → (∀ u, u ∉ ts → rank (s.pc u) = 0) →
      (∀ ev ∈ evs, isArrival ev = false) → run Facts.waiterRereadsEntry s evs = some s' →
      (evs.filter workEvent).length + total ts s' ≤ total ts s := by
  intro evs
  induction evs with
  | nil =>
    intro s s' _ _ _ hr
    simp only [run, Option.some.injEq] at hr
    subst hr; simp
  | cons ev evs ih =>
    intro s s' hi hout hna hr
    simp only [run] at hr
    cases hst : step Facts.waiterRereadsEntry s ev with
    | none => rw [hst] at hr; simp at hr
    | some s1 =>
      rw [hst] at hr
      have hnarr : isArrival ev = false := hna ev List.mem_cons_self
      obtain ⟨hmono, hdec⟩ := rank_decreases ev hst hi
      have hmono' : ∀ u, rank (s1.pc u) ≤ rank (s.pc u) := by
        intro u
        rcases hmono u with h | ⟨k, h⟩ | h
        · exact h
        · subst h; simp [isArrival] at hnarr
        · subst h; simp [isArrival] at hnarr
      have hi1 : Inv s1 := by
        have := hst; rw [C01.facts_handover.1] at this
        exact inv_step hi ev this
      have hout1 : ∀ u, u ∉ ts → rank (s1.pc u) = 0 := fun u hu => by
        have := hmono' u; rw [hout u hu] at this; omega
      have ih' := ih s1 s' hi1 hout1 (fun e he => hna e (List.mem_cons_of_mem _ he)) hr
      have hle : total ts s1 ≤ total ts s := sum_le_of_pointwise ts _ _ (fun u _ => hmono' u)
      by_cases hw : workEvent ev = true
      · have hw' : threadEvent ev = true ∨ ∃ t o, ev = .upEnd t o := by
          unfold workEvent at hw
          rcases Bool.or_eq_true _ _ |>.mp hw with h | h
          · exact Or.inl h
          · right; cases ev <;> simp at h; exact ⟨_, _, rfl⟩
        obtain ⟨u, hu⟩ := hdec hw'
        have hmem : u ∈ ts := by
          apply Classical.byContradiction
          intro hn; have := hout u hn; omega
        have hlt : total ts s1 + 1 ≤ total ts s := sum_lt_of_pointwise ts _ _ (fun u _ => hmono' u) u hmem hu
        simp only [List.filter_cons, hw, if_true, List.length_cons]
        omega
      · simp only [List.filter_cons, hw]
        simp only [Bool.false_eq_true, if_false]
        omega

/-- the bound in numbers: at most 12 work steps per request -/
theorem rank_le_12 (p : Pc) : rank p ≤ 12 := by cases p <;> simp [rank]

theorem total_le (ts : List Tid) (s : State) : total ts s ≤ 12 * ts.length := by
  unfold total
  induction ts with
  | nil => simp
  | cons t ts ih => simp only [List.map_cons, List.sum_cons, List.length_cons]; have := rank_le_12 (s.pc t); omega

end C02
end Pike
