import Pike.Model.Proxy
import Pike.Model.Query
import Pike.Model.Conditional
import Pike.Lemmas.Header
import Pike.Lemmas.Rewrite
import Pike.Spec.Skeleton
import Pike.Facts
/-
C15 — requests and responses cross the proxy with only the configured changes (PARTIAL: the
transport — net/http, httputil.ReverseProxy — and rewrite rules that are general regular
expressions are outside; the documented wildcard forms are modelled).
-/
namespace Pike
namespace C15
open Proxy Str

/-- Obligation on the regenerated statement skeletons of `mergeHeader` and `AddQuery`: configured headers are ADDED value by value (`dst.Add`), configured query parameters appended to the raw query. -/
theorem skeleton_transcribed :
    Facts.skel_Location_mergeHeader = Spec.Skeleton.Location_mergeHeader
    ∧ Facts.skel_Location_AddQuery = Spec.Skeleton.Location_AddQuery := by
  refine ⟨?_, ?_⟩ <;> rfl

/-- Obligation on the regenerated statement skeleton of `server.Start`: the middleware chain a listening server
runs every request through — error handler, the default `fresh` middleware (it is what turns a full answer into the
client's 304, for `If-None-Match` and for `If-Modified-Since` alike), responder, cache, proxy — is, item for item and in
this order, the chain the harness pipelines are built from.  The suites that do not start a real listener observe
pike through that replica; this obligation is what makes the replica a faithful one.  (Suite `fault` goes through
`server.Start` itself.) -/
theorem pipeline_is_server_start : Facts.skel_server_Start = Spec.Skeleton.server_Start := by rfl

/-- Obligation on the extracted facts: for a `fetching` request the proxy withholds the validators
AND the range headers. -/
theorem facts_ok :
    (["If-Modified-Since", "If-None-Match", "Range", "If-Range"].all fun k => Facts.strippedOnFetch.contains k) = true := by decide

theorem addAll_values_other (h : Header) (kvs : List (Str × Str)) (k : Str) (hk : ∀ kv ∈ kvs, kv.1 ≠ k) :
    (addAll h kvs).values k = h.values k := by
  unfold addAll
  induction kvs generalizing h with
  | nil => rfl
  | cons kv kvs ih =>
    simp only [List.foldl_cons]
    rw [ih _ (fun x hx => hk x (List.mem_cons_of_mem _ hx))]
    exact Header.values_add_other h kv.1 k kv.2 (fun h' => hk kv List.mem_cons_self h'.symm)

/-- method and body are never touched by the proxy middleware -/
theorem method_body_untouched (f : Bool) (l : LocCfg) (ae : Str) (r : Req) :
    (upstreamRequest f l ae r).method = r.method ∧ (upstreamRequest f l ae r).body = r.body := ⟨rfl, rfl⟩

/-- FULL STATEMENT (headers).  Every client header that is not one of the withheld ones (for a
fetching request), not Accept-Encoding when the upstream configures one, and not a key the
location adds, reaches the upstream with exactly the client's values. -/
theorem other_headers_preserved (f : Bool) (l : LocCfg) (ae : Str) (r : Req) (k : Str)
    (hs : f = true → ¬ stripped.contains k = true) (hadd : ∀ kv ∈ l.reqHeaders, kv.1 ≠ k)
    (hae : ae.isEmpty = true ∨ k ≠ hAcceptEncoding) :
    (upstreamRequest f l ae r).header.values k = r.header.values k := by
  unfold upstreamRequest
  simp only
  have h1 : (addAll (withhold f r.header) l.reqHeaders).values k = r.header.values k := by
    rw [addAll_values_other _ _ _ hadd]
    unfold withhold
    split
    · rename_i hf
      apply Header.values_filter_other
      intro e _ he
      have := hs hf
      rw [he]
      have hc : stripped.contains k = false := by simpa using this
      show (!(stripped.contains k && !(e.2.headD []).isEmpty)) = true
      rw [hc]; rfl
    · rfl
  split
  · exact h1
  · rename_i hne
    rcases hae with h | h
    · exact absurd h hne
    · rw [Header.values_set_other _ _ _ _ h]; exact h1

/-- FULL STATEMENT (conditionals and ranges withheld).  For a fetching request every header entry
the upstream is sent under a withheld name has an empty first value — unless the location itself
adds that header: the full response is fetched whatever validators or ranges the client sent. -/
theorem conditionals_withheld (h : Header) :
    ∀ e ∈ withhold true h, stripped.contains e.1 = true → (e.2.headD []).isEmpty = true := by
  intro e he hs
  unfold withhold at he
  simp only [if_true] at he
  have := (List.mem_filter.mp he).2
  simp only [hs, Bool.true_and, Bool.not_not] at this
  exact this

/-- the added request headers are sent -/
theorem added_request_header_sent (h : Header) (k v : Str) : v ∈ (h.add k v).values k := by
  unfold Header.add
  split
  · rename_i hany
    induction h with
    | nil => simp at hany
    | cons e h ih =>
      obtain ⟨a, vs⟩ := e
      simp only [List.map_cons]
      by_cases ha : a = k
      · simp [ha, Header.values]
      · simp only [ha, if_false, Header.values]
        simp only [List.any_cons, ha, decide_false, Bool.false_or] at hany
        exact ih hany
  · rw [Header.values_append]; simp [Header.values]

/-- FULL STATEMENT (query).  The client's raw query reaches the upstream byte for byte; the
location's parameters, if any, are appended after it. -/
theorem query_kept (l : LocCfg) (raw : Str) :
    raw <+: addQuery l raw ∧ (l.query.isEmpty = true → addQuery l raw = raw)
    ∧ (l.query.isEmpty = false → l.query <:+ addQuery l raw) := by
  unfold addQuery
  refine ⟨?_, fun h => by simp [h], fun h => ?_⟩
  · split
    · exact List.prefix_refl _
    · split
      · rename_i hr; simp at hr; rw [hr]; exact List.nil_prefix
      · exact List.prefix_append _ _
  · simp only [h, Bool.false_eq_true, if_false]
    split
    · exact List.suffix_refl _
    · exact ⟨raw ++ ['&'], by simp⟩

theorem splitAt_prefix (p rest : Str) : splitAt p (p ++ rest) = some ([], rest) := by
  cases hp : p ++ rest with
  | nil =>
    have : p = [] ∧ rest = [] := by simpa using hp
    simp [splitAt, this.1, this.2]
  | cons c cs =>
    have hpre : hasPrefix p (c :: cs) = true := by rw [← hp]; exact hasPrefix_iff.mpr (List.prefix_append _ _)
    simp only [splitAt, hpre, if_true]
    rw [← hp]; simp

/-- FULL STATEMENT (rewrite, documented form `PREFIX*:VALUE`).  A path that starts with the prefix
is replaced by the value with `$1` standing for the rest of the path (up to the first blank). -/
theorem rewrite_star (p value rest : Str) (hr : takeNonSpace rest = rest) :
    rewrite1 (p ++ rest) (p ++ ['*'], value) = subst1 value rest := by
  unfold rewrite1
  simp only [List.reverse_append, List.reverse_cons, List.reverse_nil, List.nil_append, List.singleton_append,
    List.reverse_reverse]
  rw [splitAt_prefix]
  simp only [hr]

/-- FULL STATEMENT (rewrite, any wildcard placement, e.g. the documented `/rest/*/user/*:/$1/$2`).
When a rule with k stars fires, the upstream path is the rule's value with `$1…$k` replaced by
k pieces of the CLIENT'S OWN path: from the match position on, the client's path reads literal₀,
piece₁, literal₁, …, pieceₖ, literalₖ, and no piece contains a blank.  When it does not fire the
path is forwarded as the client sent it. -/
theorem rewrite_wildcards (path : Str) (rule : Str × Str)
    (hl : 2 ≤ (splitStars rule.1).length ∧ (splitStars rule.1).length ≤ 10) :
    rewriteG path rule = path
      ∨ ∃ (i : Nat) (caps : List Str), rewriteG path rule = substN caps rule.2
          ∧ caps.length + 1 = (splitStars rule.1).length
          ∧ interleave (splitStars rule.1) caps <+: path.drop i
          ∧ ∀ c ∈ caps, takeNonSpace c = c := by
  unfold rewriteG
  simp only
  split
  · rename_i h; omega
  · cases hm : matchAny (splitStars rule.1) path with
    | none => exact Or.inl rfl
    | some caps =>
      right
      unfold matchAny at hm
      obtain ⟨i, _, hi⟩ := List.exists_of_findSome?_eq_some hm
      obtain ⟨h1, h2, h3⟩ := matchHere_sound _ _ caps (by intro e; rw [e] at hl; simp at hl) hi
      exact ⟨i, caps, rfl, h1, h2, h3⟩

/-- FULL STATEMENT for the documented two-wildcard form `A*B*:VALUE` in the unambiguous case.
If the client's path is `A x B y` without blanks and `B` does not occur again further right, the
upstream path is VALUE with `$1 := x` and `$2 := y`. -/
theorem rewrite_two_stars (a b x y value : Str)
    (hsp : takeNonSpace (x ++ b ++ y) = x ++ b ++ y)
    (huniq : ∀ n, x.length < n → n ≤ (x ++ b ++ y).length → hasPrefix b ((x ++ b ++ y).drop n) = false)
    (ha : '*' ∉ a) (hb : '*' ∉ b) :
    rewriteG (a ++ x ++ b ++ y) (a ++ '*' :: b ++ ['*'], value) = substN [x, y] value := by
  have hstars := splitStars_two a b ha hb
  unfold rewriteG
  simp only [hstars, List.length_cons, List.length_nil]
  have h1 : ¬ (0 + 1 + 1 + 1 ≤ 1 ∨ 0 + 1 + 1 + 1 > 10) := by omega
  rw [if_neg h1]
  have hm : matchAny [a, b, []] (a ++ x ++ b ++ y) = some [x, y] := by
    unfold matchAny
    rw [List.range_succ_eq_map, List.findSome?_cons]
    have hp : hasPrefix a (a ++ x ++ b ++ y) = true := by
      rw [hasPrefix_iff]; exact ⟨x ++ b ++ y, by simp [List.append_assoc]⟩
    have hdrop : List.drop a.length (a ++ x ++ b ++ y) = x ++ b ++ y := by
      simp [List.append_assoc]
    have : matchHere [a, b, []] (List.drop 0 (a ++ x ++ b ++ y)) = some [x, y] := by
      rw [List.drop_zero]
      show (if hasPrefix a (a ++ x ++ b ++ y) then _ else none) = _
      rw [if_pos hp]
      simp only [hdrop, hsp]
      apply findSome_rev_range _ _ x.length [x, y] (by simp)
      · intro n h1 h2
        rw [matchHere_last_star, huniq n h1 h2]
        rfl
      · have hb : hasPrefix b (List.drop x.length (x ++ b ++ y)) = true := by
          rw [hasPrefix_iff]; exact ⟨y, by simp [List.append_assoc]⟩
        have hdrop2 : List.drop b.length (List.drop x.length (x ++ b ++ y)) = y := by
          simp [List.append_assoc]
        have hy : takeNonSpace y = y := by
          have : takeNonSpace ((x ++ b) ++ y) = (x ++ b) ++ y := hsp
          exact takeNonSpace_append_left this
        rw [matchHere_last_star, if_pos hb, hdrop2, hy]
        simp [List.append_assoc]
    rw [this]
  rw [hm]

/- the documented examples, evaluated (tests of the model, not theorems about all inputs) -/
example : rewriteRule "/rest/v1/user/42".toList ("/rest/*/user/*".toList, "/$1/$2".toList) = "/v1/42".toList := by decide
example : rewriteRule "/api/users/1".toList ("/api/*".toList, "/$1".toList) = "/users/1".toList := by decide
example : rewriteRule "/plain/x".toList ("/rest/*/user/*".toList, "/$1/$2".toList) = "/plain/x".toList := by decide
example : rewriteRule "/rest/a/user/b/user/c".toList ("/rest/*/user/*".toList, "/$1+$2".toList) = "/a/user/b+c".toList := by decide

/-- a rule whose pattern does not occur leaves the path alone -/
theorem rewrite_no_match (path pat value : Str) (h : contains pat path = false) (hstar : pat.reverse.head? ≠ some '*') :
    rewrite1 path (pat, value) = path := by
  unfold rewrite1
  simp only
  split
  · rename_i rp heq; rw [heq] at hstar; simp at hstar
  · simp [h]

/-- FULL STATEMENT (response).  The client-side response header set is the upstream's plus the
location's configured response headers; other keys are untouched. -/
theorem response_headers (l : LocCfg) (up : Header) (k : Str) (hk : ∀ kv ∈ l.respHeaders, kv.1 ≠ k) :
    (responseHeader l up).values k = up.values k := addAll_values_other up l.respHeaders k hk

/-- after the proxy the Accept-Encoding the client sent is back (first value), so the responder
negotiates with the client's own list -/
theorem accept_encoding_restored (f : Bool) (l : LocCfg) (ae : Str) (r : Req) (hne : ae.isEmpty = false) :
    (restoredHeader f l ae r).values hAcceptEncoding = [r.header.get hAcceptEncoding] := by
  unfold restoredHeader
  simp only [hne, Bool.false_eq_true, if_false]
  exact Header.values_set_same _ _ _

/- non-vacuity -/
example :
    let l : LocCfg := ⟨[("X-Via".toList, "pike".toList)], [], "k=v".toList, [("/api/*".toList, "/$1".toList)]⟩
    let r : Req := ⟨"GET".toList, "/api/users/1".toList, "b=2&a=1&flag".toList,
      [("If-None-Match".toList, ["\"x\"".toList]), ("Range".toList, ["bytes=0-9".toList]), ("X-Own".toList, ["1".toList])], []⟩
    let u := upstreamRequest true l "gzip".toList r
    u.path = "/users/1".toList ∧ u.rawQuery = "b=2&a=1&flag&k=v".toList
    ∧ u.header = [("X-Own".toList, ["1".toList]), ("X-Via".toList, ["pike".toList]), ("Accept-Encoding".toList, ["gzip".toList])] := by decide

/-- The location's added query parameters on the wire (`Model/Query.lean`, the function the `proxy` driver computes the
expected query with from the configured pairs): whatever bytes a configured name or value contains — `&`, `=`, `+`, `%`,
space, non-ASCII — the escaping is injective and undone exactly by the standard unescaping, so the upstream reads back
the configured value and nothing of it can be taken for a separator of the client's own query. -/
theorem added_parameter_recoverable (s : Str) (hb : ∀ c ∈ s, c.toNat < 256) :
    Query.unescape (Query.escape s) = some s := Query.unescape_escape s hb

theorem added_parameter_has_no_separator (s : Str) : '&' ∉ Query.escape s ∧ '=' ∉ Query.escape s ∧ ' ' ∉ Query.escape s := by
  induction s with
  | nil => simp [Query.escape]
  | cons c r ih =>
    unfold Query.escape
    by_cases hu : Query.unreserved c = true
    · rw [if_pos hu]
      have h1 : c ≠ '&' := by intro h; subst h; exact absurd hu (by decide)
      have h2 : c ≠ '=' := by intro h; subst h; exact absurd hu (by decide)
      have h3 : c ≠ ' ' := by intro h; subst h; exact absurd hu (by decide)
      simp only [List.mem_cons, not_or]
      exact ⟨⟨fun h => h1 h.symm, ih.1⟩, ⟨fun h => h2 h.symm, ih.2.1⟩, ⟨fun h => h3 h.symm, ih.2.2⟩⟩
    · rw [if_neg hu]
      by_cases hs : c = ' '
      · rw [if_pos hs]; simp only [List.mem_cons, not_or]
        exact ⟨⟨by decide, ih.1⟩, ⟨by decide, ih.2.1⟩, ⟨by decide, ih.2.2⟩⟩
      · rw [if_neg hs]
        have hx : ∀ n, Query.hexU n ≠ '&' ∧ Query.hexU n ≠ '=' ∧ Query.hexU n ≠ ' ' := by
          intro n
          by_cases hn : n < 16
          · have : ∀ m, m < 16 → Query.hexU m ≠ '&' ∧ Query.hexU m ≠ '=' ∧ Query.hexU m ≠ ' ' := by decide
            exact this n hn
          · have : Query.hexU n = '0' := by
              unfold Query.hexU
              rw [if_neg hn]
            rw [this]; decide
        have ha := hx (c.toNat / 16)
        have hb := hx (c.toNat % 16)
        simp only [List.mem_cons, not_or]
        exact ⟨⟨by decide, fun h => ha.1 h.symm, fun h => hb.1 h.symm, ih.1⟩,
               ⟨by decide, fun h => ha.2.1 h.symm, fun h => hb.2.1 h.symm, ih.2.1⟩,
               ⟨by decide, fun h => ha.2.2 h.symm, fun h => hb.2.2 h.symm, ih.2.2⟩⟩

example : Query.escape "a&b=c d%".toList = "a%26b%3Dc+d%25".toList := by decide

/-- "… yet the client itself still gets a 304 when its validators match" (`Model/Conditional.lean`: the decision of the
`fresh` step of `server.Start`'s chain, compared on every `cond` history of the `fault` suite — cold key and hit — with what
a real listening server answers): the client gets a 304 if and only if it sent at least one validator, did not ask for
revalidation (`Cache-Control: no-cache` in the request) and EVERY validator it sent matches the stored full answer —
`If-None-Match` by ETag (weak comparison, token list, `*`), `If-Modified-Since` by Last-Modified. -/
theorem client_304_iff_validators_match (imsPresent : Bool) (ims lm : Nat) (inm cc etag : Str)
    (hcc : Conditional.hasNoCache cc = false) :
    Conditional.check imsPresent ims inm cc lm etag = true ↔
      ((imsPresent = true ∨ inm ≠ []) ∧ Conditional.inmOK inm etag = true ∧ Conditional.imsOK imsPresent ims lm = true) :=
  ⟨Conditional.check_sound, fun ⟨hv, h1, h2⟩ => Conditional.check_complete hv hcc h1 h2⟩

example : Conditional.check true 1704067200 "\"zz\", W/\"c1\"".toList [] 1704067200 "\"c1\"".toList = true
    ∧ Conditional.check true 1703980800 "\"c1\"".toList [] 1704067200 "\"c1\"".toList = false
    ∧ Conditional.check false 0 "\"c1\"".toList "max-age=0, no-cache".toList 1704067200 "\"c1\"".toList = false := by decide

end C15
end Pike
