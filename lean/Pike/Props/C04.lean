import Pike.Lemmas.SysStore
import Pike.Props.C01
import Pike.Props.C03
import Pike.Spec.Skeleton
/-
C04 — a stored response is never served past its freshness lifetime.
"Obtained" is the instant the entry became a hit (`createdAt`, the `complete` step).
-/
namespace Pike
namespace C04
open Sys Entry

theorem facts_ok : Facts.waiterRereadsEntry = false := C01.facts_handover.1

/-- Obligation on the regenerated statement skeleton of `nowUnix`: the clock every lifetime is measured with is the
wall clock read at each call (`time.Now().Unix()`); the hook in front of it only lets the harness substitute its own
clock.  A cached or ticker-driven clock falls behind whenever the process is stalled, and every "while fewer than T+1
seconds have elapsed" statement of the model is about real seconds. -/
theorem clock_is_wall_clock : Facts.skel_nowUnix = Spec.Skeleton.nowUnix := by rfl

/-- The lifetime T an entry is stored with is the freshness the origin declared (s-maxage, else
max-age) minus the Age the response already had when pike obtained it — for the header-reading
code the source has today (`Fresh.cfgOfFacts`, regenerated), restated from C03. -/
theorem stored_lifetime_is_remaining_freshness {c : Fresh.Cfg} (hc : Fresh.cfgOfFacts = some c)
    (method : Str) (f r : Bool) (h : Header) (T : Int)
    (hs : Fresh.storeDecision c method f r h = some T) : T = Spec.C03.lifetime h ∧ 0 < T := by
  have := C03.stored_imp_shareable hc method f r h T hs
  unfold Spec.C03.shareableOK at this
  simp only [Bool.and_eq_true, decide_eq_true_eq] at this
  exact ⟨this.2, this.1.2⟩


/-- FULL STATEMENT (lookups).  With a store that never returns data that was not written to it
(it may fail or lose data at will), in every state reachable by any schedule — concurrent or
sequential, across any number of expiry/refetch epochs, evictions, purges and restarts — a lookup
at time `now` is answered from cache with response `r` only if `r` was fetched for that very key
by a fetch that completed at some time `c` with lifetime `x - c`, and `now ≤ x`: fewer than T+1
whole seconds have passed since pike obtained it. -/
theorem hit_within_lifetime {s s' : State} (h : ReachableH s) (t : Tid) (e : Eid) (so : Load) (r : Option Nat)
    (hpc : s.pc t = .looked e) (hon : Honest s (.get t so))
    (hs : step false s (.get t so) = some s') (hserve : s'.pc t = .hitServe e r) :
    ∃ n c x, r = some n ∧ ((s.entries e).key, n, c, x) ∈ s'.fetched ∧ c < x ∧ s.now ≤ x := by
  obtain ⟨hi, h2⟩ := inv_reachableH h
  have h2' := inv2_step hi h2 _ hon hs
  have hok := hi.entry_ok e
  have hprov := Entry.get_hit_prov t s.now so (s.entries e) hok
  obtain ⟨_, hkey, hcase⟩ := Entry.get_cases t s.now so (s.entries e) hok
  simp only [step, hpc] at hs
  split at hs
  · generalize hg : Entry.get t s.now so (s.entries e) = g at hs hprov hkey hcase
    obtain ⟨en, got⟩ := g
    simp only [Option.some.injEq] at hs
    subst hs
    simp only [upd_same] at hserve
    cases got with
    | hit x =>
      simp only [Pc.hitServe.injEq, true_and] at hserve
      subst hserve
      rcases hcase with ⟨_, hg2, _⟩ | ⟨_, _, _, hr⟩
      · simp at hg2
      · rcases hr with ⟨hg2, _⟩ | ⟨hg2, _⟩ | ⟨x', hx', hst, hres⟩
        · simp at hg2
        · simp at hg2
        · simp only [Got.hit.injEq] at hx'; subst hx'
          obtain ⟨_, hle, _⟩ := hprov hst
          have hp := h2'.entry_prov e
          simp only [upd_same] at hp
          obtain ⟨n, hn, hmem, hlt⟩ := hp hst
          simp only at hkey hres
          refine ⟨n, en.createdAt, en.expiredAt, by rw [← hres]; exact hn, ?_, hlt, hle⟩
          rw [← hkey]; exact hmem
    | fetch => simp at hserve
    | wait => simp at hserve
    | pass => simp at hserve
  · simp at hs

/-- the first lookup after the expiry second goes back to the upstream: the caller becomes the
fetcher (and the completed result then replaces the old triple, `Entry.cacheable`) -/
theorem first_after_expiry_refetches (t : Tid) (now : Int) (so : Load) (e : Entry)
    (hst : e.status = .hit ∨ e.status = .hitForPass) (hx : e.expiredAt ≠ 0) (hexp : e.expiredAt < now) :
    (Entry.get t now so e).2 = .fetch ∧ (Entry.get t now so e).1.status = .fetching := by
  have h1 : Entry.load e so = e := Entry.load_keeps so (by rcases hst with h | h <;> simp [h])
  unfold Entry.get
  rw [h1]
  unfold Entry.expireIf
  rw [if_pos ⟨hx, hexp⟩]
  exact ⟨rfl, rfl⟩

/-- hits never extend the lifetime: a lookup answered from cache leaves the entry's timestamps
and response untouched -/
theorem hits_do_not_extend (t : Tid) (now : Int) (so : Load) (e : Entry) (h : Entry.OK e)
    (hst : e.status = .hit) (hh : (Entry.get t now so e).1.status = .hit) :
    (Entry.get t now so e).1.createdAt = e.createdAt ∧ (Entry.get t now so e).1.expiredAt = e.expiredAt
    ∧ (Entry.get t now so e).1.resp = e.resp := by
  obtain ⟨hsrc, _, _⟩ := Entry.get_hit_prov t now so e h hh
  rcases hsrc with ⟨_, h2, h3, h4⟩ | ⟨hu, _⟩
  · exact ⟨h3, h4, h2⟩
  · rw [hst] at hu; simp at hu

/-- PARTIAL (see `age_stmt`).  The Age a hit reports is the whole seconds since the entry became
a hit and is at most the lifetime — provided the clock does not tick and the entry is not
refetched between the request's lookup (`get`) and its separate `Age()` call. -/
theorem age_le_T_partial (t : Tid) (now : Int) (so : Load) (e : Entry) (h : Entry.OK e)
    (hh : (Entry.get t now so e).1.status = .hit) :
    Entry.age now (Entry.get t now so e).1 ≤ (Entry.get t now so e).1.expiredAt - (Entry.get t now so e).1.createdAt := by
  obtain ⟨_, hle, _⟩ := Entry.get_hit_prov t now so e h hh
  unfold Entry.age; omega

/-- the statement without the proviso; it is FALSE of model and code (next theorem) -/
def age_stmt : Prop :=
  ∀ s, Reachable false s → ∀ t r a, s.pc t = .done (.hit r a) →
    ∀ k n c x, (k, n, c, x) ∈ s.fetched → r = some n → a ≤ x - c

/-- witness: lifetime 1, lookup in the last valid second, one tick before `Age()`: Age = 2 -/
def ageWitness : List Event :=
  let k : Key := ⟨0⟩; let a : Tid := ⟨0⟩; let b : Tid := ⟨1⟩
  [.arrive a k, .lookup a, .get a .noStore, .upEnd a (.cacheable 1 7), .complete a 0, .saved a true,
   .tick 1, .arrive b k, .lookup b, .get b .noStore, .tick 1, .age b]

theorem age_can_exceed :
    (match run false (init 100 false) ageWitness with
     | some s => decide (s.pc ⟨1⟩ = .done (.hit (some 7) 2)) && decide (s.fetched = [(⟨0⟩, 7, 100, 101)])
     | none => false) = true := by decide

/-- int64 overflow of `createdAt + ttl`: the wrapped expiry lies in the past, so such an entry
is refetched by the very next lookup — never served -/
theorem overflow_never_served (now ttl : Int) (h1 : 0 < now) (h2 : now < 4611686018427387904)
    (h3 : 0 < ttl) (h4 : ttl ≤ 9223372036854775807) (hov : now + ttl ≥ 9223372036854775808) :
    Entry.expiryWrap now ttl ≠ 0 ∧ Entry.expiryWrap now ttl < now := by
  unfold Entry.expiryWrap
  simp only
  split <;> omega

/- non-vacuity: a schedule with a fetch, a hit inside the lifetime, an expiry and a refetch -/
example :
    (match run false (init 100 false)
      [.arrive ⟨0⟩ ⟨0⟩, .lookup ⟨0⟩, .get ⟨0⟩ .noStore, .upEnd ⟨0⟩ (.cacheable 2 7), .complete ⟨0⟩ 0, .saved ⟨0⟩ true,
       .tick 2, .arrive ⟨1⟩ ⟨0⟩, .lookup ⟨1⟩, .get ⟨1⟩ .noStore, .age ⟨1⟩,
       .tick 1, .arrive ⟨2⟩ ⟨0⟩, .lookup ⟨2⟩, .get ⟨2⟩ .noStore] with
     | some s => decide (s.pc ⟨1⟩ = .done (.hit (some 7) 2)) && decide (s.pc ⟨2⟩ = .fetchUp ⟨0⟩)
     | none => false) = true := by decide

end C04
end Pike
