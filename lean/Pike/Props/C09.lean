import Pike.Lemmas.Codec
import Pike.Facts
import Pike.Spec.Skeleton
/-
C09 — the persistence format round-trips exactly and rejects garbage safely.
`c : HCodec H` bundles the library behaviour the format relies on: the JSON encoding of the
header (`enc`/`dec`) and `regexp.Compile` on the filter source (`reOK`); what is assumed of it
is stated per theorem (`RespWF.hdrRT`, `RespWF.filterOK`).
-/
namespace Pike
namespace C09
open Codec

variable {H : Type}

/-- Obligation on the regenerated statement skeletons of the record encoders/decoders (field order, 32/64-bit big-endian length and time fields, `Next(size)` slicing): they are what `Codec.encodeEntry/decodeEntry/encodeResp/decodeResp` transcribe. -/
theorem skeleton_transcribed :
    Facts.skel_HTTPResponse_Bytes = Spec.Skeleton.HTTPResponse_Bytes
    ∧ Facts.skel_HTTPResponse_FromBytes = Spec.Skeleton.HTTPResponse_FromBytes
    ∧ Facts.skel_httpCache_Bytes = Spec.Skeleton.httpCache_Bytes
    ∧ Facts.skel_httpCache_FromBytes = Spec.Skeleton.httpCache_FromBytes
    ∧ Facts.skel_readUint32ToInt = Spec.Skeleton.readUint32ToInt
    ∧ Facts.skel_readUint64ToInt64 = Spec.Skeleton.readUint64ToInt64
    ∧ Facts.skel_uint32ToBytes = Spec.Skeleton.uint32ToBytes
    ∧ Facts.skel_uint64ToBytes = Spec.Skeleton.uint64ToBytes := by
  refine ⟨?_, ?_, ?_, ?_, ?_, ?_, ?_, ?_⟩ <;> rfl

/-- FULL STATEMENT (round trip).  For every entry whose field sizes fit the 32-bit length
prefixes, whose timestamps are int64, whose header survives the JSON round trip and whose filter
source compiles: decoding the encoding gives the entry back — every field, every body variant
of any size including empty — except that an absent response (hit-for-pass marker) comes back
as the empty response, which no lookup reads. -/
theorem decode_encode (c : HCodec H) (e : Entry H) (wf : EntryWF c e) :
    decodeEntry c (encodeEntry c e) = some (normalize c e) :=
  decodeEntry_encodeEntry c e wf

/-- a second round trip changes nothing -/
theorem roundtrip_stable (c : HCodec H) (e : Entry H) (wf : EntryWF c (normalize c e)) :
    decodeEntry c (encodeEntry c (normalize c e)) = some (normalize c e) := by
  have := decodeEntry_encodeEntry c (normalize c e) wf
  simpa [normalize] using this

/-- FULL STATEMENT (truncation).  Every strict prefix of every record is reported as an
error — for all entries and all cut points. -/
theorem truncated_is_error (c : HCodec H) (e : Entry H)
    (hfit : ∀ r, e.resp = some r → (encodeResp c r).length < 4294967296)
    (k : Nat) (hk : k < (encodeEntry c e).length) :
    decodeEntry c ((encodeEntry c e).take k) = none :=
  decodeEntry_truncated c e hfit k hk

/-- the 2^32 bound is forced by the format: a size that does not fit is stored modulo 2^32 -/
theorem size_wraps : u32 4294967296 = u32 0 ∧ u32 4294967297 = u32 1 := by decide

/-- Decoding is total (it is a Lean function: no panic, no hang, for ALL byte strings) and
never manufactures bytes: each variable-length field of a decoded response is a slice of the
input, so the result is never larger than the input. -/
theorem decode_bounded (c : HCodec H) (data : Str) (r : Resp H) (h : decodeResp c data = some r) :
    r.compressSrv.length + r.filter.length + r.gzip.length + r.br.length + r.raw.length ≤ data.length := by
  unfold decodeResp at h
  split at h
  · simp only [Option.some.injEq] at h; rw [← h]; simp [zeroResp]
  · split at h; · simp at h
    rename_i srv r1 h1
    split at h; · simp at h
    rename_i ml r2 h2
    split at h; · simp at h
    rename_i fl r3 h3
    split at h; · simp at h
    split at h; · simp at h
    rename_i hj r4 h4
    split at h; · simp at h
    split at h; · simp at h
    rename_i code r5 h5
    split at h; · simp at h
    rename_i gz r6 h6
    split at h; · simp at h
    rename_i br r7 h7
    split at h; · simp at h
    rename_i raw r8 h8
    simp only [Option.some.injEq] at h
    rw [← h]
    simp only
    have len (s a r : Str) (hh : readField s = some (a, r)) : a.length + r.length + 4 ≤ s.length := by
      obtain ⟨n, r0, h0, ha, hr⟩ := readField_some hh
      have := (readU32_some h0).1
      rw [ha, hr, List.length_take, List.length_drop]; omega
    have l1 := len _ _ _ h1
    have l2 := (readU32_some h2).1
    have l3 := len _ _ _ h3
    have l4 := len _ _ _ h4
    have l5 := (readU32_some h5).1
    have l6 := len _ _ _ h6
    have l7 := len _ _ _ h7
    have l8 := len _ _ _ h8
    omega

/- non-vacuity: a concrete entry (identity header codec) meets the hypotheses and round-trips;
   a concrete garbage record is rejected -/
def idc : HCodec Str := ⟨id, some, [], fun _ => true⟩
example :
    let e : Entry Str := ⟨3, some ⟨"bestCompression".toList, 1024, "text|json".toList, "{}".toList, 200, "gz".toList, [], []⟩, 1700000000, 1700000060⟩
    decodeEntry idc (encodeEntry idc e) = some e := by decide
example : decodeEntry idc [Char.ofNat 0, Char.ofNat 0, Char.ofNat 0, Char.ofNat 3] = none := by decide

end C09
end Pike
