import Pike.Lemmas.LZ4
import Pike.Facts
/-
C12 — compression codecs are exact inverses for every input and level (PARTIAL BY NATURE).
The codecs are libraries; what is pike's own is proved here: level handling, finalisation before
the bytes are read, and the LZ4 wrapper's destination policy against the block format.  The
round trips of gzip/br/zstd/snappy themselves are the `Resp.CodecsOK` assumption and are
exercised (not proved) by the `codecs` suite.
-/
namespace Pike
namespace C12
open LZ4

/-- Obligation on the extracted facts: pike's own code uses no `sync.Pool` — what an encoder or decoder returned stays what it was after later calls (the models treat them as immutable values). -/
theorem facts_no_pooled_buffers : Facts.syncPoolSites = [] := by decide

/-- FULL STATEMENT (levels).  For EVERY integer level the level handed to the gzip library is the
default (-1) or in 1..9 — a level the library accepts — and a configured level in 1..9 is used as
is; likewise 1..11 (default 6) for brotli.  Out-of-range levels fall back to the defaults. -/
theorem levels_valid (l : Int) :
    (Facts.gzipLevel l = -1 ∨ (1 ≤ Facts.gzipLevel l ∧ Facts.gzipLevel l ≤ 9))
    ∧ (1 ≤ l → l ≤ 9 → Facts.gzipLevel l = l)
    ∧ (1 ≤ Facts.brotliLevel l ∧ Facts.brotliLevel l ≤ 11)
    ∧ (1 ≤ l → l ≤ 11 → Facts.brotliLevel l = l)
    ∧ ((l ≤ 0 ∨ 9 < l) → Facts.gzipLevel l = -1) ∧ ((l ≤ 0 ∨ 11 < l) → Facts.brotliLevel l = 6) := by
  unfold Facts.gzipLevel Facts.brotliLevel
  simp only []
  refine ⟨?_, ?_, ?_, ?_, ?_, ?_⟩ <;> (try intros) <;> split <;> omega

/-- Obligation on the extracted shape: the writer's `Close` is deferred inside the encoder
function, which itself never reads the buffer; the caller reads it after that function returned
(i.e. after the deferred `Close` flushed the stream): the bytes returned are the complete stream. -/
theorem finalised_before_read :
    Facts.gzipLevel_closeDeferred = true ∧ Facts.gzipLevel_readsBufferBeforeClose = false ∧ Facts.gzipCallerReadsAfter = true
    ∧ Facts.brotliLevel_closeDeferred = true ∧ Facts.brotliLevel_readsBufferBeforeClose = false ∧ Facts.brotliCallerReadsAfter = true
    ∧ Facts.gzipLevel_shape = "ok" ∧ Facts.brotliLevel_shape = "ok" := by decide

/-- FULL STATEMENT (LZ4 format).  Every LZ4 block the format decoder accepts decodes to at most
255 times its own length — whatever the block. -/
theorem lz4_out_le_255x (block d : Str) (hb : IsBytes block) (h : decodeBlock block = some d) :
    d.length ≤ 255 * block.length := decodeBlock_bound block d hb h

/-- Obligation on the extracted policy of `doLZ4Decode`: it starts at 10× and grows to the
format's maximum ratio. -/
theorem lz4_policy : Facts.lz4InitialFactor = 10 ∧ Facts.lz4MaxRatio = 255 ∧ Facts.lz4Grows = true := by decide

theorem go_complete (block d : Str) (hd : decodeBlock block = some d) (maxSize : Nat)
    (hlen : d.length ≤ maxSize) (fuel size : Nat)
    (hfuel : size * 4 ^ (fuel - 1) ≥ maxSize) (hf : 0 < fuel) :
    wrapperGo false maxSize block fuel size = some d := by
  induction fuel generalizing size with
  | zero => omega
  | succ fuel ih =>
    unfold wrapperGo lib
    simp only [Bool.false_eq_true, false_and, if_false, hd]
    by_cases hfit : d.length ≤ size
    · simp [hfit]
    · simp only [hfit, if_false]
      have hlt : ¬ size ≥ maxSize := by omega
      simp only [hlt, if_false]
      cases fuel with
      | zero => simp at hfuel; omega
      | succ f =>
        apply ih
        · simp only [Nat.add_sub_cancel] at hfuel ⊢
          by_cases hc : size * 4 ≤ maxSize
          · rw [Nat.min_eq_left hc]
            rw [Nat.pow_succ] at hfuel
            calc size * 4 * 4 ^ f = size * (4 ^ f * 4) := by rw [Nat.mul_assoc, Nat.mul_comm 4]
              _ ≥ maxSize := hfuel
          · rw [Nat.min_eq_right (by omega)]
            exact Nat.le_mul_of_pos_right _ (Nat.pow_pos (by omega))
        · omega

/-- FULL STATEMENT (wrapper).  For every block the format decoder accepts, pike's wrapper
(destination 10×, growing ×4 up to 255×, library without the empty-block quirk) returns exactly
the decoded bytes — regardless of compression ratio. -/
theorem lz4_wrapper_complete (block d : Str) (hb : IsBytes block) (hd : decodeBlock block = some d) :
    wrapper false 10 255 block = some d := by
  have hlen := decodeBlock_bound block d hb hd
  unfold wrapper
  apply go_complete block d hd (255 * block.length) hlen 8 (10 * block.length)
  · have : (4 : Nat) ^ (8 - 1) = 16384 := by decide
    rw [this]; omega
  · omega

/-- the empty payload: the format accepts the one-byte block `00`; the pinned library does not
(finding D13), which is the only effect of the `quirk` switch -/
theorem lz4_empty_block :
    decodeBlock [Char.ofNat 0] = some [] ∧ wrapper false 10 255 [Char.ofNat 0] = some []
    ∧ wrapper true 10 255 [Char.ofNat 0] = none := by decide

/-- the pinned tree's defect as a witness: with a fixed 10× destination a valid block that
expands more (here: 40 bytes from 3) is rejected -/
theorem fixed10x_variant_violates :
    let block : Str := [Char.ofNat 0x1f, 'a', Char.ofNat 1, Char.ofNat 0, Char.ofNat 60]
    (decodeBlock block).map List.length = some 80 ∧ wrapperGo false (10 * block.length) block 1 (10 * block.length) = none := by
  decide

/- non-vacuity: a literal-only block and a run-length block -/
example : decodeBlock [Char.ofNat 0x30, 'a', 'b', 'c'] = some ['a', 'b', 'c'] := by decide
example : decodeBlock [Char.ofNat 0x11, 'a', Char.ofNat 2, Char.ofNat 0] = none := by decide   -- offset beyond the output

end C12
end Pike
