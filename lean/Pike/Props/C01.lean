import Pike.Lemmas.SysDrain
import Pike.Spec.Skeleton
/-
C01 — single flight: one upstream fetch per cold or expired cache key.
The statements quantify over `Reachable Facts.waiterRereadsEntry`: every state the system can
be in after ANY schedule of ANY number of threads on ANY keys, with clock ticks between any two
steps (also between a waiter's wake-up and its resumption), any store and upstream behaviour,
purges, evictions, crashes — for the post-wake behaviour the source has today.
-/
namespace Pike
namespace C01
open Sys Entry

/-- Obligation on the extracted facts: a woken waiter uses what was handed over with the
wake-up and does not read entry fields after the channel receive. -/
theorem facts_handover : Facts.waiterRereadsEntry = false ∧ Facts.getShape = "ok" := by decide

/-- Obligation on the extracted lock scopes (cache/dispatcher.go): the dispatcher's get-or-create
is ONE critical section of the shard mutex, held to the end of the function, and the lookup and
the insert of the shard's LRU happen under it — which is why `Sys.step (.lookup t)` may treat
"find the resident entry or create and install a new one" as a single atomic step. -/
theorem facts_get_or_create_atomic :
    "dispatcher.GetHTTPCache:httpLRUCache:1:deferred" ∈ Facts.lockSections
      ∧ (Facts.accessTable.filter fun a => a.typ = "httpLRUCache" ∧ a.field = "cache").all (fun a => a.lockW) = true := by
  decide

/-- Obligation on the regenerated statement skeletons: the entry state machine and the dispatcher's
get-or-create / purge in the Go source are, statement for statement (conditions, field updates,
calls, sends, in source order), what `Entry` and `Sys.step` were transcribed from — see
`Pike/Spec/Skeleton.lean` for the mapping.  Any edit of these functions other than logging or hook
calls breaks this obligation, whether or not a property is affected; the suites then look for an
input on which one fails. -/
theorem skeleton_transcribed :
    Facts.skel_Get = Spec.Skeleton.Get ∧ Facts.skel_get = Spec.Skeleton.get
    ∧ Facts.skel_HitForPass = Spec.Skeleton.HitForPass ∧ Facts.skel_Cacheable = Spec.Skeleton.Cacheable
    ∧ Facts.skel_initFromStore = Spec.Skeleton.initFromStore ∧ Facts.skel_saveToStore = Spec.Skeleton.saveToStore
    ∧ Facts.skel_Age = Spec.Skeleton.Age ∧ Facts.skel_GetStatus = Spec.Skeleton.GetStatus
    ∧ Facts.skel_IsExpired = Spec.Skeleton.IsExpired
    ∧ Facts.skel_disp_GetHTTPCache = Spec.Skeleton.disp_GetHTTPCache
    ∧ Facts.skel_disp_RemoveHTTPCache = Spec.Skeleton.disp_RemoveHTTPCache := by
  refine ⟨?_, ?_, ?_, ?_, ?_, ?_, ?_, ?_, ?_, ?_, ?_⟩ <;> rfl

theorem reach_inv {s : State} (h : Reachable Facts.waiterRereadsEntry s) : Inv s := by
  rw [facts_handover.1] at h; exact inv_reachable h

/-- FULL STATEMENT (1).  In every reachable state at most one thread is in the fetch role of
an entry: two requests are never in flight to the upstream for the same entry. -/
theorem single_owner {s : State} (h : Reachable Facts.waiterRereadsEntry s) (t u : Tid) (e : Eid)
    (ht : fetchOf (s.pc t) = some e) (hu : fetchOf (s.pc u) = some e) : t = u := by
  have hi := reach_inv h
  have h1 := hi.fetch_owner t e ht
  have h2 := hi.fetch_owner u e hu
  rw [h1] at h2; exact Option.some.inj h2

/-- ... and requests of one key share one entry as long as it is neither evicted nor purged:
a lookup returns the resident entry, which was created for that key. -/
theorem same_entry_per_key {s s' : State} (h : Reachable Facts.waiterRereadsEntry s) (t : Tid) (k : Key) (e : Eid)
    (hpc : s.pc t = .arrived k) (hres : s.shard k = some e)
    (hs : step Facts.waiterRereadsEntry s (.lookup t) = some s') :
    s'.pc t = .looked e ∧ (s.entries e).key = k := by
  have hi := reach_inv h
  simp only [step, hpc, hres, Option.some.injEq] at hs
  subst hs
  exact ⟨by simp, (hi.shard_alloc k e hres).2⟩

/-- FULL STATEMENT (2).  A request that looks the entry up while a fetch is in flight becomes a
registered waiter; it does not go upstream. -/
theorem arrivals_wait {s s' : State} (h : Reachable Facts.waiterRereadsEntry s) (t : Tid) (e : Eid) (so : Load)
    (hpc : s.pc t = .looked e) (hf : (s.entries e).status = .fetching)
    (hs : step Facts.waiterRereadsEntry s (.get t so) = some s') :
    s'.pc t = .registered e ∧ t ∈ (s'.entries e).waiters := by
  have hi := reach_inv h
  obtain ⟨_, _, hc⟩ := Entry.get_cases t s.now so (s.entries e) (hi.entry_ok e)
  simp only [step, hpc] at hs
  split at hs
  · rcases hc with ⟨_, hg, he⟩ | ⟨hne, _⟩
    · generalize Entry.get t s.now so (s.entries e) = g at hs hg he
      obtain ⟨en, got⟩ := g
      simp only at hg he
      subst hg; subst he
      simp only [Option.some.injEq] at hs; subst hs
      simp
    · exact absurd hf hne
  · simp at hs

/-- A waiter never contacts the upstream as a fetcher before or after it is woken: no step takes
a registered, parked or woken thread into the fetch role. -/
theorem waiter_never_fetches {s s' : State} (h : Reachable Facts.waiterRereadsEntry s) (ev : Event) (t : Tid)
    (hw : waitOf (s.pc t) ≠ none ∨ ∃ e st r, s.pc t = .woken e st r)
    (hs : step Facts.waiterRereadsEntry s ev = some s') : fetchOf (s'.pc t) = none := by
  have hi := reach_inv h
  rw [facts_handover.1] at hs
  have hnf : fetchOf (s.pc t) = none := by
    rcases hw with hw | ⟨e, st, r, hw⟩
    · cases hp : s.pc t <;> simp_all
    · simp [hw]
  have hnd : ∀ e o, s.pc t ≠ .fetchDone e o := by intro e o hh; simp [hh] at hnf
  have hnl : ∀ e, s.pc t ≠ .looked e := by
    intro e hh
    rcases hw with hw | ⟨e', st, r, hw⟩
    · simp [hh] at hw
    · simp [hh] at hw
  cases ev with
  | arrive u k =>
    simp only [step] at hs; split at hs
    · simp only [Option.some.injEq] at hs; subst hs; simp only; grind
    · simp at hs
  | arrivePass u =>
    simp only [step] at hs; split at hs
    · simp only [Option.some.injEq] at hs; subst hs; simp only; grind
    · simp at hs
  | lookup u =>
    simp only [step] at hs; split at hs
    · split at hs <;> (simp only [Option.some.injEq] at hs; subst hs; simp only; grind)
    · simp at hs
  | drop k => simp only [step, Option.some.injEq] at hs; subst hs; simp only; grind
  | purge k d => simp only [step, Option.some.injEq] at hs; subst hs; simp only; grind
  | get u so =>
    simp only [step] at hs; split at hs
    · split at hs
      · generalize Entry.get u s.now so (s.entries _) = g at hs
        obtain ⟨en, got⟩ := g
        simp only [Option.some.injEq] at hs; subst hs; simp only
        cases got <;> grind
      · simp at hs
    · simp at hs
  | park u =>
    simp only [step] at hs; split at hs
    · simp only [Option.some.injEq] at hs; subst hs; simp only; grind
    · simp at hs
  | upEnd u o =>
    simp only [step] at hs; split at hs
    · split at hs
      · split at hs
        · simp only [Option.some.injEq] at hs; subst hs; simp only; grind
        · simp at hs
      · simp only [Option.some.injEq] at hs; subst hs; simp only; grind
    · simp only [Option.some.injEq] at hs; subst hs; simp only; grind
    · simp at hs
  | complete u hfp =>
    simp only [step] at hs; split at hs
    · split at hs
      · simp only [Option.some.injEq] at hs; subst hs; simp only; grind
      · simp at hs
    · simp at hs
  | send u =>
    simp only [step] at hs; split at hs
    · split at hs
      · split at hs
        · simp only [Option.some.injEq] at hs; subst hs; simp only; grind
        · simp at hs
      · simp at hs
    · simp at hs
  | saved u ok =>
    simp only [step] at hs; split at hs
    · split at hs
      · simp at hs
      · simp only [Option.some.injEq] at hs; subst hs; simp only; grind
    · simp at hs
  | resume u =>
    simp only [step] at hs; split at hs
    · rename_i e st r hpu
      have := hi.woken_status u e st r hpu
      simp only [Bool.false_eq_true, if_false, Option.some.injEq] at hs; subst hs; simp only
      cases st <;> grind
    · simp at hs
  | age u =>
    simp only [step] at hs; split at hs
    · split at hs
      · simp only [Option.some.injEq] at hs; subst hs; simp only; grind
      · simp at hs
    · simp at hs
  | tick d =>
    simp only [step] at hs; split at hs
    · simp only [Option.some.injEq] at hs; subst hs; simp only; grind
    · simp at hs
  | crash => simp only [step, Option.some.injEq] at hs; subst hs; simp

/-- FULL STATEMENT (3).  If the fetch turns out cacheable with response `r`, every waiter the
completer sends to is handed `(hit, r)`, and on resuming serves exactly `r` — without any
upstream contact (previous theorem) — no matter how the clock moves in between. -/
theorem answered_from_fetch {s s1 s2 : State} (h : Reachable Facts.waiterRereadsEntry s) (t u : Tid) (e : Eid)
    (ttl : Int) (r : Nat) (rest : List Tid)
    (hpc : s.pc t = .draining e (.cacheable ttl r)) (hq : s.queue e = u :: rest)
    (hs1 : step Facts.waiterRereadsEntry s (.send t) = some s1) :
    s1.pc u = .woken e .hit (some r)
    ∧ (∀ sx, sx.pc u = .woken e .hit (some r) → step Facts.waiterRereadsEntry sx (.resume u) = some s2 →
        s2.pc u = .hitServe e (some r)) := by
  have hr : Reachable false s := by rw [facts_handover.1] at h; exact h
  have hd := invD_reachable hr
  obtain ⟨hst, hresp⟩ := hd.drain_hit t e ttl r hpc
  rw [facts_handover.1] at hs1 ⊢
  refine ⟨?_, ?_⟩
  · simp only [step, hpc, hq] at hs1
    split at hs1
    · simp only [Option.some.injEq] at hs1; subst hs1
      simp [hst, hresp]
    · simp at hs1
  · intro sx hx hs2
    simp only [step, hx, Bool.false_eq_true, if_false, Option.some.injEq] at hs2
    subst hs2; simp

/-- FULL STATEMENT (4), the burst: while a fetch is in flight on an entry, any number N of other
threads that look the entry up are all waiters of that entry and none of them is in the fetch
role — so N identical cold requests cost exactly the one upstream request of the owner. -/
theorem burst_one_upstream {s : State} (h : Reachable Facts.waiterRereadsEntry s) (e : Eid) (owner : Tid)
    (ho : fetchOf (s.pc owner) = some e) :
    ∀ u, u ≠ owner → fetchOf (s.pc u) ≠ some e := by
  intro u hne hu
  exact hne (single_owner h u owner e hu ho)

/-- The defect of the pinned tree, as a theorem about the variant in which the woken waiter
re-reads the entry without the lock: A fetches, B waits, A completes with lifetime 1 and wakes B,
two seconds pass, C finds the entry expired and becomes the fetcher, B resumes and reads
`fetching` — two threads in the fetch role of one entry. -/
def rereadWitness : List Event :=
  let k : Key := ⟨0⟩; let a : Tid := ⟨0⟩; let b : Tid := ⟨1⟩; let c : Tid := ⟨2⟩
  [.arrive a k, .lookup a, .get a .noStore, .arrive b k, .lookup b, .get b .noStore, .park b,
   .upEnd a (.cacheable 1 7), .complete a 0, .send a, .saved a true, .tick 2,
   .arrive c k, .lookup c, .get c .noStore, .resume b]

theorem reread_variant_violates :
    (match run true (init 100 false) rereadWitness with
     | some s => fetchOf (s.pc ⟨1⟩) == some ⟨0⟩ && fetchOf (s.pc ⟨2⟩) == some ⟨0⟩
     | none => false) = true := by decide

/-- the same schedule is harmless with the hand-over -/
theorem handover_same_schedule :
    (match run false (init 100 false) rereadWitness with
     | some s => fetchOf (s.pc ⟨1⟩) == none && fetchOf (s.pc ⟨2⟩) == some ⟨0⟩
     | none => false) = true := by decide

end C01
end Pike
