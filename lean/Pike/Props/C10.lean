import Pike.Props.C02
import Pike.Facts
import Pike.Spec.Skeleton
/-
C10 — store failures degrade to memory-only caching, never to client errors.
In `Sys` every store call carries its outcome as an event parameter (`get t so`, `saved t ok`,
`purge k deleted`), so "reachable" already quantifies over every sequence of per-call store
faults: errors, missing keys, arbitrary (garbled) records, lost writes and deletes.
-/
namespace Pike
namespace C10
open Sys Entry

/-- Obligation on the regenerated statement skeletons of the three store back ends (store/redis.go, mongo.go,
badger.go): Get, Set and Delete of each address a record by THE SAME function of the key (redis: prefix + key in all
three; mongo: `Key = string(key)` in all three; badger: the key itself, Delete removing that one key), a miss is reported
as `ErrNotFound`, and a value is copied out before the transaction ends.  This is what lets `StoreMap` / `Sys.store`
treat a store as one partial map; the `store` suite checks it against real badger stores, redis and mongo cannot be
run in the sandbox, so for them this obligation is the tie. -/
theorem store_backends_transcribed :
    Facts.skel_redisStore_getKey = Spec.Skeleton.redisStore_getKey
    ∧ Facts.skel_redisStore_Get = Spec.Skeleton.redisStore_Get
    ∧ Facts.skel_redisStore_Set = Spec.Skeleton.redisStore_Set
    ∧ Facts.skel_redisStore_Delete = Spec.Skeleton.redisStore_Delete
    ∧ Facts.skel_mongoStore_Get = Spec.Skeleton.mongoStore_Get
    ∧ Facts.skel_mongoStore_Set = Spec.Skeleton.mongoStore_Set
    ∧ Facts.skel_mongoStore_Delete = Spec.Skeleton.mongoStore_Delete
    ∧ Facts.skel_badgerStore_Get = Spec.Skeleton.badgerStore_Get
    ∧ Facts.skel_badgerStore_Set = Spec.Skeleton.badgerStore_Set
    ∧ Facts.skel_badgerStore_Delete = Spec.Skeleton.badgerStore_Delete := by
  refine ⟨?_, ?_, ?_, ?_, ?_, ?_, ?_, ?_, ?_, ?_⟩ <;> rfl

/-- Obligation on the extracted facts (store/*.go): every store constructor returns the interface type
`Store`, so a store that fails to open yields a nil interface and `NewDispatcher` falls back to
memory-only caching (a concrete pointer result would make the failed open a non-nil interface
holding a nil pointer, and the first lookup would dereference it under the entry mutex). -/
theorem facts_store_constructors_return_interface :
    Facts.storeConstructorResults.all (fun s => s = "Store") = true ∧ Facts.storeConstructorResults ≠ [] := by decide

/-- FULL STATEMENT (protocol).  Whatever the store does, every reachable state satisfies the
protocol invariant; hence single flight (C01), progress, release of all waiters on every
outcome and no stuck key (C02) hold under every fault sequence.  (`Reachable` puts no
constraint on `so`, `ok`, `deleted`.) -/
theorem inv_under_faults {s : State} (h : Reachable Facts.waiterRereadsEntry s) : Inv s := C01.reach_inv h

/-- waiters are released before the store is written (`saved` is enabled only once the detached
list is empty), and a failing write still unlocks the entry and changes nothing else -/
theorem save_failure_harmless (s : State) (t : Tid) (e : Eid) (o : Outcome)
    (hpc : s.pc t = .draining e o) (hq : s.queue e = []) :
    ∃ s', step Facts.waiterRereadsEntry s (.saved t false) = some s' ∧ s'.lock e = none ∧ s'.entries = s.entries
      ∧ s'.store = s.store ∧ s'.pc t = .done (.fetched o) := by
  rw [C01.facts_handover.1]
  simp only [step, hpc, hq, ne_eq, not_true_eq_false, if_false, Bool.false_eq_true, and_false]
  exact ⟨_, rfl, by simp, rfl, rfl, by simp⟩

theorem saved_needs_empty_queue {s s' : State} (t : Tid) (e : Eid) (o : Outcome) (ok : Bool)
    (hpc : s.pc t = .draining e o) (hs : step Facts.waiterRereadsEntry s (.saved t ok) = some s') :
    s.queue e = [] := by
  rw [C01.facts_handover.1] at hs
  simp only [step, hpc] at hs
  split at hs
  · simp at hs
  · rename_i h; simpa using h

/-- FULL STATEMENT (bad records).  A record that does not decode (`error`) or is not a
well-formed hit / hit-for-pass marker — wrong status word, hit without a response, no expiry —
leaves the entry exactly as a not-found answer does: it is a miss. -/
theorem bad_record_is_miss (e : Entry) (rec : Rec) (hbad : Rec.valid rec = false) :
    Entry.load e (.record rec) = Entry.load e .notFound ∧ Entry.load e .error = Entry.load e .notFound
    ∧ Entry.load e .notFound = e := by
  unfold Entry.load
  simp [hbad]

/-- responses cached in memory keep being served: an entry that is not `unknown` never consults
the store -/
theorem memory_hits_survive (t : Tid) (now : Int) (so so' : Load) (e : Entry) (h : e.status ≠ .unknown) :
    Entry.get t now so e = Entry.get t now so' e := by
  unfold Entry.get
  rw [Entry.load_keeps so h, Entry.load_keeps so' h]

/-- FULL STATEMENT (no immortal entry, no permanent error).  In every reachable state an entry
that answers from cache or passes has a non-zero expiry (so it lapses), and a hit has a response. -/
theorem no_immortal {s : State} (h : Reachable Facts.waiterRereadsEntry s) (e : Eid) :
    (((s.entries e).status = .hit ∨ (s.entries e).status = .hitForPass) → (s.entries e).expiredAt ≠ 0)
    ∧ ((s.entries e).status = .hit → (s.entries e).resp ≠ none) :=
  ⟨(C01.reach_inv h).entry_ok e |>.exp_nonzero, (C01.reach_inv h).entry_ok e |>.hit_resp⟩

/-- The defect of the pinned tree, as a witness about the variant that takes a restored record
without validating it: the record `00 00 00 03` (status hit, nothing else) became an immortal hit
with no response; status `fetching` parked the request forever. -/
def loadUnvalidated (e : Entry) (r : Rec) : Entry :=
  if e.status = .unknown then { e with status := r.status, resp := r.resp, createdAt := r.createdAt, expiredAt := r.expiredAt } else e

theorem unvalidated_variant_violates :
    let bad : Rec := ⟨.hit, none, 0, 0⟩
    let e := loadUnvalidated { key := ⟨0⟩ } bad
    (∀ now : Int, (Entry.getCore ⟨0⟩ (Entry.expireIf now e)).2 = .hit none)
    ∧ (Entry.getCore ⟨0⟩ (loadUnvalidated { key := ⟨0⟩ } ⟨.fetching, none, 0, 0⟩)).2 = .wait := by
  refine ⟨fun now => ?_, by decide⟩
  simp [loadUnvalidated, Entry.expireIf, Entry.getCore]

/- non-vacuity: store errors on load, a garbled record, a lost write and a failed delete in one run -/
example :
    (match run false (init 100 true)
      [.arrive ⟨0⟩ ⟨0⟩, .lookup ⟨0⟩, .get ⟨0⟩ .error, .arrive ⟨1⟩ ⟨0⟩, .lookup ⟨1⟩, .get ⟨1⟩ (.record ⟨.hit, none, 5, 0⟩), .park ⟨1⟩,
       .upEnd ⟨0⟩ (.cacheable 60 3), .complete ⟨0⟩ 0, .send ⟨0⟩, .saved ⟨0⟩ false, .purge ⟨0⟩ false, .resume ⟨1⟩, .age ⟨1⟩] with
     | some s => decide (s.pc ⟨1⟩ = .done (.hit (some 3) 0)) && decide (s.pc ⟨0⟩ = .done (.fetched (.cacheable 60 3)))
     | none => false) = true := by decide

end C10
end Pike
