import Pike.Props.C04
import Pike.Props.C09
import Pike.Facts
import Pike.Spec.Skeleton
/-
C08 — persisted entries survive eviction, restart and kill: never stale, never corrupt.
Assumption (stated, exercised by the `crash` suite, not proved): the store is an atomic map —
a `Set` is either entirely there or not, and it never returns bytes that were not written to it
(`Sys.Honest`); badger's own durability and recovery are trusted.
-/
namespace Pike
namespace C08
open Sys Entry

/-- Obligation on the regenerated statement skeleton of `main.main` (a graceful stop): on a signal the servers are
closed gracefully and the process exits — nothing is written, flushed or deleted on the way out, so after a graceful
stop the store holds exactly what the completed `saved` steps put there, as after a kill (which `Sys.step .crash` and
the `crash` suite cover). -/
theorem graceful_stop_transcribed : Facts.skel_main = Spec.Skeleton.main_main := by rfl

/-- Obligation on the regenerated statement skeletons of the three store back ends (store/redis.go, mongo.go,
badger.go): Get, Set and Delete of each address a record by THE SAME function of the key (redis: prefix + key in all
three; mongo: `Key = string(key)` in all three; badger: the key itself, Delete removing that one key), a miss is reported
as `ErrNotFound`, and a value is copied out before the transaction ends.  This is what lets `StoreMap` / `Sys.store`
treat a store as one partial map; the `store` suite checks it against real badger stores, redis and mongo cannot be
run in the sandbox, so for them this obligation is the tie. -/
theorem store_backends_transcribed :
    Facts.skel_redisStore_getKey = Spec.Skeleton.redisStore_getKey
    ∧ Facts.skel_redisStore_Get = Spec.Skeleton.redisStore_Get
    ∧ Facts.skel_redisStore_Set = Spec.Skeleton.redisStore_Set
    ∧ Facts.skel_redisStore_Delete = Spec.Skeleton.redisStore_Delete
    ∧ Facts.skel_mongoStore_Get = Spec.Skeleton.mongoStore_Get
    ∧ Facts.skel_mongoStore_Set = Spec.Skeleton.mongoStore_Set
    ∧ Facts.skel_mongoStore_Delete = Spec.Skeleton.mongoStore_Delete
    ∧ Facts.skel_badgerStore_Get = Spec.Skeleton.badgerStore_Get
    ∧ Facts.skel_badgerStore_Set = Spec.Skeleton.badgerStore_Set
    ∧ Facts.skel_badgerStore_Delete = Spec.Skeleton.badgerStore_Delete := by
  refine ⟨?_, ?_, ?_, ?_, ?_, ?_, ?_, ?_, ?_, ?_⟩ <;> rfl

/-- Obligation on the extracted facts: pike's own code uses no `sync.Pool` — the bytes of a record handed to the store are not a view of a buffer another save reuses (the models treat them as immutable values). -/
theorem facts_no_pooled_buffers : Facts.syncPoolSites = [] := by decide

/-- Obligation on the extracted facts (store/*.go): every store constructor returns the interface type
`Store`: "pike always starts and serves" also when the store cannot be opened after a stop or kill
(directory still locked, unreadable) — a nil interface makes the dispatcher memory-only. -/
theorem facts_store_constructors_return_interface :
    Facts.storeConstructorResults.all (fun s => s = "Store") = true ∧ Facts.storeConstructorResults ≠ [] := by decide

/-- FULL STATEMENT (records are genuine).  In every state reachable by any schedule with any
kill points (`crash` may occur between ANY two atomic steps: before/during/after fetch, drain,
save, purge), evictions and concurrent writers, every hit record in the store is the
(response, createdAt, expiredAt) triple of a fetch that completed for that very key. -/
theorem store_records_genuine {s : State} (h : ReachableH s) (k : Key) (rec : Rec)
    (hr : s.store k = some rec) (hh : rec.status = .hit) :
    ∃ n, rec.resp = some n ∧ (k, n, rec.createdAt, rec.expiredAt) ∈ s.fetched ∧ rec.createdAt < rec.expiredAt :=
  (inv_reachableH h).2.store_prov k rec hr hh

/-- FULL STATEMENT (after restart or eviction).  After `crash` (or a `drop` of the key) a request
for the key gets a fresh entry and loads the record.  If it is answered from cache, the response
is the one originally fetched for that key, unchanged, `now` is not past the ORIGINAL expiry, and
the Age it reports continues from the original fetch (`now - original createdAt`) — without any
upstream contact; otherwise it refetches.  It is never served altered or after its expiry. -/
theorem restored_served_or_refetched {s s' : State} (h : ReachableH s) (t : Tid) (e : Eid) (so : Load)
    (hpc : s.pc t = .looked e) (hfresh : (s.entries e).status = .unknown)
    (hon : Honest s (.get t so)) (hs : step false s (.get t so) = some s') :
    (∃ n c x, s'.pc t = .hitServe e (some n) ∧ ((s.entries e).key, n, c, x) ∈ s'.fetched ∧ s.now ≤ x
        ∧ (s'.entries e).createdAt = c ∧ (s'.entries e).expiredAt = x)
    ∨ s'.pc t = .fetchUp e ∨ s'.pc t = .passUp := by
  obtain ⟨hi, h2⟩ := inv_reachableH h
  have h2' := inv2_step hi h2 _ hon hs
  have hok := hi.entry_ok e
  have hprov := Entry.get_hit_prov t s.now so (s.entries e) hok
  obtain ⟨_, hkey, hcase⟩ := Entry.get_cases t s.now so (s.entries e) hok
  simp only [step, hpc] at hs
  split at hs
  · generalize hg : Entry.get t s.now so (s.entries e) = g at hs hprov hkey hcase
    obtain ⟨en, got⟩ := g
    simp only [Option.some.injEq] at hs
    subst hs
    simp only [upd_same]
    rcases hcase with ⟨hf, _, _⟩ | ⟨_, _, _, hr⟩
    · rw [hfresh] at hf; simp at hf
    · rcases hr with ⟨hg2, _⟩ | ⟨hg2, _⟩ | ⟨x', hx', hst, hres⟩
      · simp only at hg2; subst hg2; exact Or.inr (Or.inl rfl)
      · simp only at hg2; subst hg2; exact Or.inr (Or.inr rfl)
      · simp only at hx' hst hres; subst hx'
        left
        obtain ⟨_, hle, _⟩ := hprov hst
        have hp := h2'.entry_prov e
        simp only [upd_same] at hp
        obtain ⟨n, hn, hmem, _⟩ := hp hst
        simp only at hkey
        refine ⟨n, en.createdAt, en.expiredAt, by rw [← hres, hn], ?_, hle, rfl, rfl⟩
        rw [← hkey]; exact hmem
  · simp at hs

/-- the record is written after the waiters are released: a kill between the two loses only the
persistence, never a waiter -/
theorem saved_after_release {s s' : State} (t : Tid) (e : Eid) (o : Outcome) (ok : Bool)
    (hpc : s.pc t = .draining e o) (hs : step false s (.saved t ok) = some s') : s.queue e = [] := by
  simp only [step, hpc] at hs
  split at hs
  · simp at hs
  · rename_i h; simpa using h

/-- hit-for-pass markers are persisted under the same rules: what is written is the entry as
completed, and only well-formed markers are taken back -/
theorem markers_persisted (s : State) (t : Tid) (e : Eid) (o : Outcome)
    (hpc : s.pc t = .draining e o) (hq : s.queue e = []) (hst : s.hasStore = true) :
    ∃ s', step false s (.saved t true) = some s' ∧ s'.store (s.entries e).key = some (Entry.toRec (s.entries e)) := by
  simp only [step, hpc, hq, ne_eq, not_true_eq_false, if_false, hst, and_self, if_true]
  exact ⟨_, rfl, by simp⟩

/-- bytes level: what is restored is exactly what was written (C09), so "unchanged" extends to
status line, headers and every body variant -/
theorem bytes_roundtrip {H : Type} (c : Codec.HCodec H) (e : Codec.Entry H) (wf : Codec.EntryWF c e) :
    Codec.decodeEntry c (Codec.encodeEntry c e) = some (Codec.normalize c e) := C09.decode_encode c e wf

/- non-vacuity: fetch, save, crash, restart: served from the record with Age continuing; later
   past the original expiry: refetched -/
example :
    (match run false (init 100 true)
      [.arrive ⟨0⟩ ⟨0⟩, .lookup ⟨0⟩, .get ⟨0⟩ .notFound, .upEnd ⟨0⟩ (.cacheable 10 7), .complete ⟨0⟩ 0, .saved ⟨0⟩ true,
       .crash, .tick 4, .arrive ⟨1⟩ ⟨0⟩, .lookup ⟨1⟩, .get ⟨1⟩ (.record ⟨.hit, some 7, 100, 110⟩), .age ⟨1⟩,
       .crash, .tick 7, .arrive ⟨2⟩ ⟨0⟩, .lookup ⟨2⟩, .get ⟨2⟩ (.record ⟨.hit, some 7, 100, 110⟩)] with
     | some s => decide (s.pc ⟨2⟩ = .fetchUp ⟨2⟩) && decide (s.store ⟨0⟩ = some ⟨.hit, some 7, 100, 110⟩)
     | none => false) = true := by decide

end C08
end Pike
