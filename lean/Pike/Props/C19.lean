import Pike.Model.Upstream
import Pike.Facts
/-
C19 — traffic goes only to healthy upstream servers, backups last (PARTIAL: the health vector is
an input here; how fast the checker updates it is runtime behaviour exercised by the suite).
-/
namespace Pike
namespace C19
open Upstream

/-- Obligation on the extracted facts (upstream/upstream.go): every upstream gets one synchronous
health check when it is created and then the periodic checker, started unconditionally — the
health vector `next` reads is therefore kept current for every configuration (whether or not a
health-check path is configured), which is what "traffic resumes by itself" rests on.  How fast
the checker reacts is runtime behaviour, exercised by the `settle` mode of the suite. -/
theorem facts_checker_started :
    Facts.healthCheckOnCreate = true ∧ Facts.healthCheckLoopUnconditional = true := by decide

/-- Obligation on the extracted facts (main.go): the status callback that the health checker calls between the
check of one server and the next does nothing synchronously but logging — the alarm (an HTTP POST without a
time-out) is handed to a goroutine.  A callback that blocks would freeze the health vector `next` reads. -/
theorem facts_status_callback_does_not_block :
    Facts.statusCallbackSyncCalls = [] ∧ Facts.statusCallbackGoCalls = ["doAlarm"] := by decide

theorem mem_candidates {ss : List Server} {i : Nat} (h : i ∈ candidates ss) :
    ∃ s, ss[i]? = some s ∧ s.healthy = true
      ∧ (s.backup = true → ∀ (j : Nat) (s' : Server), ss[j]? = some s' → s'.healthy = true → s'.backup = true) := by
  unfold candidates at h
  split at h
  · obtain ⟨_, hf⟩ := List.mem_filter.mp h
    unfold isPrim at hf
    cases hs : ss[i]? with
    | none => simp [hs] at hf
    | some s =>
      simp only [hs, Bool.and_eq_true, Bool.not_eq_true'] at hf
      exact ⟨s, rfl, hf.1, fun hb => by rw [hf.2] at hb; simp at hb⟩
  · rename_i hp
    obtain ⟨_, hf⟩ := List.mem_filter.mp h
    unfold isBack at hf
    cases hs : ss[i]? with
    | none => simp [hs] at hf
    | some s =>
      simp only [hs, Bool.and_eq_true] at hf
      refine ⟨s, rfl, hf.1, fun _ j s' hj hh => ?_⟩
      have hemp : (List.range ss.length).filter (isPrim ss) = [] := by simpa using hp
      cases hb : s'.backup with
      | true => rfl
      | false =>
        exfalso
        have hjlt : j < ss.length := by
          rcases Nat.lt_or_ge j ss.length with h1 | h1
          · exact h1
          · rw [List.getElem?_eq_none h1] at hj; simp at hj
        have : j ∈ (List.range ss.length).filter (isPrim ss) :=
          List.mem_filter.mpr ⟨List.mem_range.mpr hjlt, by simp [isPrim, hj, hh, hb]⟩
        rw [hemp] at this; simp at this

theorem leastIdx_mem (ss : List Server) (cs : List Nat) (i : Nat) (h : leastIdx ss cs = some i) : i ∈ cs := by
  unfold leastIdx at h
  have key : ∀ (l : List Nat) (b : Option Nat) (r : Nat),
      List.foldl (fun best i =>
        match best with
        | none => some i
        | some b => if (ss[i]?.map (·.conns)).getD 0 < (ss[b]?.map (·.conns)).getD 0 then some i else some b) b l = some r →
      r ∈ l ∨ b = some r := by
    intro l
    induction l with
    | nil => intro b r h; exact Or.inr (by simpa using h)
    | cons a l ih =>
      intro b r h
      simp only [List.foldl_cons] at h
      rcases ih _ r h with h1 | h1
      · exact Or.inl (List.mem_cons_of_mem _ h1)
      · cases b with
        | none => simp only [Option.some.injEq] at h1; exact Or.inl (h1 ▸ List.mem_cons_self)
        | some b0 =>
          simp only at h1
          split at h1
          · simp only [Option.some.injEq] at h1; exact Or.inl (h1 ▸ List.mem_cons_self)
          · exact Or.inr h1
  rcases key cs none i h with h1 | h1
  · exact h1
  · simp at h1

/-- FULL STATEMENT (selection).  Whatever the policy, the round-robin counter, the random draw and
the connection counts: the chosen server exists and is currently healthy, and it is a backup only
if no primary server is healthy. -/
theorem next_healthy (p : Policy) (ss : List Server) (rr rnd i : Nat) (h : (next p ss rr rnd).1 = some i) :
    ∃ s, ss[i]? = some s ∧ s.healthy = true
      ∧ (s.backup = true → ∀ (j : Nat) (s' : Server), ss[j]? = some s' → s'.healthy = true → s'.backup = true) := by
  apply mem_candidates
  unfold next at h
  simp only at h
  split at h
  · simp at h
  · cases p with
    | first => exact List.mem_of_getElem? h
    | random => exact List.mem_of_getElem? h
    | roundRobin => exact List.mem_of_getElem? h
    | leastconn => exact leastIdx_mem ss _ i h

/-- no server is chosen exactly when none is healthy (the proxy then answers 503), and as soon as
one is healthy again a server is chosen: selection depends only on the CURRENT vector -/
theorem none_iff_none_healthy (p : Policy) (ss : List Server) (rr rnd : Nat) :
    (next p ss rr rnd).1 = none ↔ ∀ s ∈ ss, s.healthy = false := by
  have hc : candidates ss = [] ↔ ∀ s ∈ ss, s.healthy = false := by
    constructor
    · intro h s hs
      obtain ⟨i, hi, hget⟩ := List.mem_iff_getElem.mp hs
      cases hh : s.healthy with
      | false => rfl
      | true =>
        exfalso
        unfold candidates at h
        split at h
        · rename_i hp; rw [h] at hp; simp at hp
        · rename_i hp
          have hp' : (List.range ss.length).filter (isPrim ss) = [] := by simpa using hp
          have hget' : ss[i]? = some s := by rw [List.getElem?_eq_getElem hi, hget]
          cases hb : s.backup with
          | false =>
            have : i ∈ (List.range ss.length).filter (isPrim ss) :=
              List.mem_filter.mpr ⟨List.mem_range.mpr hi, by simp [isPrim, hget', hh, hb]⟩
            rw [hp'] at this; simp at this
          | true =>
            have : i ∈ (List.range ss.length).filter (isBack ss) :=
              List.mem_filter.mpr ⟨List.mem_range.mpr hi, by simp [isBack, hget', hh, hb]⟩
            rw [h] at this; simp at this
    · intro h
      cases hcs : candidates ss with
      | nil => rfl
      | cons i r =>
        obtain ⟨s, hs, hh, _⟩ := mem_candidates (ss := ss) (i := i) (by rw [hcs]; exact List.mem_cons_self)
        have := h s (List.mem_of_getElem? hs)
        rw [this] at hh; simp at hh
  rw [← hc]
  unfold next
  simp only
  constructor
  · intro h
    split at h
    · rename_i hn; exact List.length_eq_zero_iff.mp hn
    · rename_i hn
      have hpos : 0 < (candidates ss).length := Nat.pos_of_ne_zero hn
      exfalso
      cases p with
      | first => simp only at h; rw [List.getElem?_eq_getElem hpos] at h; simp at h
      | random => simp only at h; rw [List.getElem?_eq_getElem (Nat.mod_lt _ hpos)] at h; simp at h
      | roundRobin => simp only at h; rw [List.getElem?_eq_getElem (Nat.mod_lt _ hpos)] at h; simp at h
      | leastconn =>
        simp only at h
        cases hcs : candidates ss with
        | nil => simp [hcs] at hn
        | cons a l =>
          rw [hcs] at h
          unfold leastIdx at h
          simp only [List.foldl_cons] at h
          -- after the first element the accumulator is `some _` and stays so
          have stay : ∀ (l : List Nat) (b : Nat), (List.foldl (fun best i =>
              match best with
              | none => some i
              | some b => if (ss[i]?.map (·.conns)).getD 0 < (ss[b]?.map (·.conns)).getD 0 then some i else some b) (some b) l) ≠ none := by
            intro l
            induction l with
            | nil => intro b; simp
            | cons x l ih => intro b; simp only [List.foldl_cons]; split <;> exact ih _
          exact stay l a h
  · intro h
    rw [h]; simp

/-- round robin visits the healthy candidates in turn: in any window of n consecutive calls
(n = number of candidates, no 2³² counter wrap inside the window) every candidate is chosen
exactly once — hence over any number of sequential requests the per-server counts differ by at
most one -/
theorem rr_window_injective (n a j1 j2 : Nat) (hn : 0 < n) (h1 : j1 < n) (h2 : j2 < n)
    (h : (a + j1) % n = (a + j2) % n) : j1 = j2 := by
  have key : ∀ x d, 0 < d → d < n → (x + d) % n ≠ x % n := by
    intro x d hd hdn heq
    have hx : x % n < n := Nat.mod_lt _ hn
    rw [Nat.add_mod, Nat.mod_eq_of_lt hdn] at heq
    by_cases hlt : x % n + d < n
    · rw [Nat.mod_eq_of_lt hlt] at heq; omega
    · have : (x % n + d) % n = x % n + d - n := by
        rw [Nat.mod_eq_sub_mod (by omega), Nat.mod_eq_of_lt (by omega)]
      rw [this] at heq; omega
  rcases Nat.lt_trichotomy j1 j2 with hlt | heq | hgt
  · exfalso
    have := key (a + j1) (j2 - j1) (by omega) (by omega)
    rw [show a + j1 + (j2 - j1) = a + j2 by omega] at this
    exact this h.symm
  · exact heq
  · exfalso
    have := key (a + j2) (j1 - j2) (by omega) (by omega)
    rw [show a + j2 + (j1 - j2) = a + j1 by omega] at this
    exact this h

theorem rr_periodic (n a j : Nat) : (a + j + n) % n = (a + j) % n := Nat.add_mod_right _ _

theorem add_mod_self_mul (n c r : Nat) (hr : r < n) : (n * c + r) % n = r := by
  rw [Nat.mul_add_mod, Nat.mod_eq_of_lt hr]

/-- every residue is hit in a window of n consecutive counters -/
theorem rr_window_surj (n a r : Nat) (hr : r < n) : ∃ j, j < n ∧ (a + j) % n = r := by
  have hn : 0 < n := by omega
  have ha := Nat.div_add_mod a n
  have hm : a % n < n := Nat.mod_lt _ hn
  generalize hq : a / n = q at ha
  generalize hmm : a % n = m at ha hm
  by_cases hge : m ≤ r
  · refine ⟨r - m, by omega, ?_⟩
    have : a + (r - m) = n * q + r := by omega
    rw [this]; exact add_mod_self_mul n q r hr
  · refine ⟨r + n - m, by omega, ?_⟩
    have : a + (r + n - m) = n * (q + 1) + r := by rw [Nat.mul_add, Nat.mul_one]; omega
    rw [this]; exact add_mod_self_mul n (q + 1) r hr

/-- slots chosen by k consecutive round-robin calls starting at counter a over n candidates -/
def slots (n a k : Nat) : List Nat := (List.range k).map (fun j => (a + j) % n)

theorem slots_window_nodup (n a : Nat) (hn : 0 < n) : (slots n a n).Nodup := by
  unfold slots List.Nodup
  rw [List.pairwise_map]
  exact List.Pairwise.imp_of_mem (fun {x y} hx hy hne heq =>
    hne (rr_window_injective n a x y hn (List.mem_range.mp hx) (List.mem_range.mp hy) heq)) List.nodup_range

theorem slots_window_count (n a r : Nat) (hr : r < n) : (slots n a n).count r = 1 := by
  rw [(slots_window_nodup n a (by omega)).count]
  obtain ⟨j, hj, he⟩ := rr_window_surj n a r hr
  have : r ∈ slots n a n := List.mem_map.mpr ⟨j, List.mem_range.mpr hj, he⟩
  simp [this]

theorem slots_add (n a k m : Nat) : slots n a (k + m) = slots n a k ++ slots n (a + k) m := by
  unfold slots
  rw [List.range_add, List.map_append, List.map_map]
  congr 1
  apply List.map_congr_left
  intro j _
  simp [Nat.add_assoc]

theorem slots_count_le_one (n a k r : Nat) (hn : 0 < n) (hk : k ≤ n) : (slots n a k).count r ≤ 1 := by
  have h := slots_add n a k (n - k)
  rw [show k + (n - k) = n by omega] at h
  have hnd := List.nodup_iff_count.mp (slots_window_nodup n a hn) r
  rw [h, List.count_append] at hnd
  omega

/-- FAIRNESS.  Over any number k of sequential round-robin calls the per-slot counts of any two of
the n candidates differ by at most one. -/
theorem slots_balanced (n : Nat) (hn : 0 < n) : ∀ (k a r1 r2 : Nat), r1 < n → r2 < n →
    (slots n a k).count r1 ≤ (slots n a k).count r2 + 1 := by
  intro k
  induction k using Nat.strongRecOn with
  | _ k ih =>
    intro a r1 r2 h1 h2
    by_cases hk : k ≤ n
    · have := slots_count_le_one n a k r1 hn hk; omega
    · have hs := slots_add n a n (k - n)
      rw [show n + (k - n) = k by omega] at hs
      rw [hs, List.count_append, List.count_append, slots_window_count n a r1 h1, slots_window_count n a r2 h2]
      have := ih (k - n) (by omega) (a + n) r1 r2 h1 h2
      omega



theorem candidates_nodup (ss : List Server) : (candidates ss).Nodup := by
  unfold candidates
  split <;> exact List.Pairwise.filter _ List.nodup_range

/-- k sequential round-robin requests against a fixed health vector, threading the counter -/
def rrRun (ss : List Server) : Nat → Nat → List (Option Nat)
  | 0, _ => []
  | k + 1, rr => (next .roundRobin ss rr 0).1 :: rrRun ss k (next .roundRobin ss rr 0).2

theorem rrRun_eq_slots (ss : List Server) (hn : (candidates ss).length ≠ 0) :
    ∀ (k rr : Nat), rr + k < 4294967296 →
      rrRun ss k rr = (slots (candidates ss).length (rr + 1) k).map (fun j => (candidates ss)[j]?) := by
  intro k
  induction k with
  | zero => intro rr _; simp [rrRun, slots]
  | succ k ih =>
    intro rr h
    have hs := slots_add (candidates ss).length (rr + 1) 1 k
    rw [show 1 + k = k + 1 by omega] at hs
    have hm : (rr + 1) % 4294967296 = rr + 1 := Nat.mod_eq_of_lt (by omega)
    rw [hs, rrRun]
    have hnext : next .roundRobin ss rr 0 = ((candidates ss)[(rr + 1) % (candidates ss).length]?, rr + 1) := by
      unfold next; simp only [hn, if_false, hm]
    rw [hnext, ih (rr + 1) (by omega)]
    simp [slots]

theorem count_map_inj {g : Nat → Option Nat} {n i : Nat} (hi : i < n)
    (hinj : ∀ x, x < n → g x = g i → x = i) :
    ∀ l : List Nat, (∀ x ∈ l, x < n) → (l.map g).count (g i) = l.count i := by
  intro l
  induction l with
  | nil => intro _; rfl
  | cons x l ih =>
    intro h
    rw [List.map_cons, List.count_cons, List.count_cons, ih (fun y hy => h y (List.mem_cons_of_mem _ hy))]
    have hx := h x List.mem_cons_self
    by_cases he : x = i
    · subst he; simp
    · have : g x ≠ g i := fun hg => he (hinj x hx hg)
      simp [he, this]

theorem slots_lt (n a k : Nat) (hn : 0 < n) : ∀ x ∈ slots n a k, x < n := by
  intro x hx
  obtain ⟨j, _, rfl⟩ := List.mem_map.mp hx
  exact Nat.mod_lt _ hn

/-- FAIRNESS of round robin (full statement, no counter wrap inside the run): over k sequential
requests against a fixed health vector, the numbers of requests sent to any two candidate servers
differ by at most one. -/
theorem rr_fair (ss : List Server) (k rr c1 c2 : Nat) (hw : rr + k < 4294967296)
    (h1 : c1 ∈ candidates ss) (h2 : c2 ∈ candidates ss) :
    (rrRun ss k rr).count (some c1) ≤ (rrRun ss k rr).count (some c2) + 1 := by
  obtain ⟨i1, hi1, he1⟩ := List.mem_iff_getElem.mp h1
  obtain ⟨i2, hi2, he2⟩ := List.mem_iff_getElem.mp h2
  have hn : (candidates ss).length ≠ 0 := by omega
  have hnd := candidates_nodup ss
  have g1 : (candidates ss)[i1]? = some c1 := by rw [List.getElem?_eq_getElem hi1, he1]
  have g2 : (candidates ss)[i2]? = some c2 := by rw [List.getElem?_eq_getElem hi2, he2]
  rw [rrRun_eq_slots ss hn k rr hw, ← g1, ← g2]
  rw [count_map_inj (g := fun j => (candidates ss)[j]?) hi1
        (fun x hx hg => (List.getElem?_inj hx hnd).mp hg) _ (slots_lt _ _ _ (by omega)),
      count_map_inj (g := fun j => (candidates ss)[j]?) hi2
        (fun x hx hg => (List.getElem?_inj hx hnd).mp hg) _ (slots_lt _ _ _ (by omega))]
  exact slots_balanced _ (by omega) k (rr + 1) i1 i2 hi1 hi2

/-- and nothing else is ever chosen -/
theorem rr_only_candidates (ss : List Server) : ∀ (k rr c : Nat), some c ∈ rrRun ss k rr → c ∈ candidates ss := by
  intro k
  induction k with
  | zero => intro rr c h; simp [rrRun] at h
  | succ k ih =>
    intro rr c h
    rw [rrRun] at h
    rcases List.mem_cons.mp h with h | h
    · have := h.symm
      unfold next at this
      simp only at this
      split at this
      · simp at this
      · exact List.mem_of_getElem? this
    · exact ih _ c h

example : rrRun [⟨true, false, 0⟩, ⟨false, false, 0⟩, ⟨true, false, 0⟩] 5 0 = [some 2, some 0, some 2, some 0, some 2] := by decide

/- non-vacuity -/
example : (next .roundRobin [⟨true, false, 0⟩, ⟨false, false, 0⟩, ⟨true, false, 0⟩, ⟨true, true, 0⟩] 0 0).1 = some 2 := by decide
example : (next .first [⟨false, false, 0⟩, ⟨true, true, 0⟩] 0 0).1 = some 1 := by decide
example : (next .leastconn [⟨true, false, 3⟩, ⟨true, false, 1⟩, ⟨true, false, 1⟩] 0 0).1 = some 1 := by decide
example : (next .random [⟨false, false, 0⟩, ⟨false, true, 0⟩] 5 7).1 = none := by decide

end C19
end Pike
