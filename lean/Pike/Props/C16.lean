import Pike.Lemmas.Reconfig
import Pike.Spec.Skeleton
/-
C16 — live reconfiguration equals a fresh start and disturbs nothing unchanged.
`Reconfig.update` is main.go's update(); `fresh c = update init c` is a process started with `c`.
-/
namespace Pike
namespace C16
open Reconfig

/-- Obligation on the regenerated statement skeleton of `main.run`: the configuration watcher is running before the
first `update()` starts, so a configuration saved while that first update is still being applied triggers another
update — the running instance ends up with the configuration that was saved last, as a fresh start would. -/
theorem watch_before_first_update : Facts.skel_run = Spec.Skeleton.run := by rfl

/-- Obligation on the regenerated statement skeleton of `main.update`, which `Reconfig.update` and the harness's
`applyLikeMainUpdate` transcribe: read the saved configuration; compress profiles, caches, upstreams (with the status
callback), locations, servers in this order; start what does not listen yet. -/
theorem update_transcribed : Facts.skel_update = Spec.Skeleton.main_update := by rfl

/-- Obligation on the regenerated statement skeletons of the server registry's life cycle (server/server.go):
`servers.Reset` (close what is gone, update what stays, create what is new), `server.Update` (all settings replaced
together under the write lock, the location list by a new slice), `server.Close` (graceful close, THEN the listener
itself) and `convertConfig` (one option per server, the filter regexp per iteration) are what `Reconfig.resetServers`
/ `effective` and the `reconf` suite's expectations were transcribed from. -/
theorem server_lifecycle_transcribed :
    Facts.skel_servers_Reset = Spec.Skeleton.servers_Reset
    ∧ Facts.skel_server_Update = Spec.Skeleton.server_Update
    ∧ Facts.skel_server_Close = Spec.Skeleton.server_Close
    ∧ Facts.skel_convertConfig = Spec.Skeleton.convertConfig := by
  refine ⟨?_, ?_, ?_, ?_⟩ <;> rfl

/-- Obligation on the extracted facts: reload order, the min-length default in both NewServer
and Update, delete-stale / keep-existing for dispatchers, add-then-remove for upstreams, a single
slice swap for locations, delete-stale / update-in-place for servers. -/
theorem facts_ok :
    Facts.reloadOrder = ["compress.Reset", "cache.ResetDispatchers", "upstream.ResetWithOnStats", "location.Reset", "server.Reset", "server.Start"]
    ∧ Facts.newServerAppliesDefaultMinLength = true ∧ Facts.updateAppliesDefaultMinLength = true
    ∧ Facts.defaultCompressMinLength = 1024
    ∧ Facts.dispatchersResetDeletesAbsent = true ∧ Facts.dispatchersResetKeepsExisting = true
    ∧ Facts.upstreamsResetDeletesAbsent = true ∧ Facts.upstreamsResetStoresBeforeDestroy = true
    ∧ Facts.locationsSetSingleSwap = true
    ∧ Facts.serversResetDeletesAbsent = true ∧ Facts.serversResetUpdatesExisting = true := by decide

/-- Obligation on the extracted facts (all non-test files): no `go`/`defer` closure inside a loop
refers to the loop's own iteration variables while the module's language version shares them
between iterations — so the goroutines a reload starts (closing each removed server, destroying
each removed upstream) each act on the element of THEIR iteration, as `Reconfig` models it. -/
theorem facts_closures_own_their_element :
    Facts.loopVarPerIteration = true ∨ Facts.closureLoopCaptures = [] := by decide

/-- a server gets the same effective options whether it is created or updated in place -/
theorem effective_same (o : SrvOpt) (b : Bool) : effective b o = effective true o := by
  unfold effective
  cases b <;> simp [facts_ok.2.1, facts_ok.2.2.1]

theorem servers_get (cs : List (Str × SrvOpt)) (m : Map SrvOpt) (a : Str) :
    (cs.foldl (fun m e => m.put e.1 (effective (m.get e.1).isNone e.2)) m).get a
      = ((lookup cs a).map (effective true)).or (m.get a) := by
  induction cs generalizing m with
  | nil => simp [lookup]
  | cons e cs ih =>
    simp only [List.foldl_cons]
    rw [ih, get_put, effective_same]
    simp only [lookup]
    cases lookup cs a with
    | some v => simp
    | none =>
      by_cases h : e.1 = a
      · simp [h]
      · have : ¬ a = e.1 := fun h' => h h'.symm
        simp [h, this]

theorem upstreams_get (cs : List (Str × Str)) (acc : Map (Str × Nat) × Nat) (n : Str) :
    ((cs.foldl (fun (acc : Map (Str × Nat) × Nat) e => (acc.1.put e.1 (e.2, acc.2), acc.2 + 1)) acc).1.get n).map (·.1)
      = (lookup cs n).or ((acc.1.get n).map (·.1)) := by
  induction cs generalizing acc with
  | nil => simp [lookup]
  | cons e cs ih =>
    simp only [List.foldl_cons]
    rw [ih]
    simp only [get_put, lookup]
    cases lookup cs n with
    | some v => simp
    | none =>
      by_cases h : e.1 = n
      · simp [h]
      · have : ¬ n = e.1 := fun h' => h h'.symm
        simp [h, this]

theorem caches_get (cs : List (Str × Nat)) (acc : Map (Nat × Nat) × Nat) (n : Str) :
    ((cs.foldl (fun (acc : Map (Nat × Nat) × Nat) e =>
        if (acc.1.get e.1).isSome then acc else (acc.1.put e.1 (e.2, acc.2), acc.2 + 1)) acc).1.get n).isSome
      = ((lookup cs n).isSome || (acc.1.get n).isSome)
    ∧ ((acc.1.get n).isSome →
        (cs.foldl (fun (acc : Map (Nat × Nat) × Nat) e =>
          if (acc.1.get e.1).isSome then acc else (acc.1.put e.1 (e.2, acc.2), acc.2 + 1)) acc).1.get n = acc.1.get n) := by
  induction cs generalizing acc with
  | nil => simp [lookup]
  | cons e cs ih =>
    simp only [List.foldl_cons]
    by_cases hp : (acc.1.get e.1).isSome = true
    · simp only [hp, if_true]
      obtain ⟨h1, h2⟩ := ih acc
      refine ⟨?_, h2⟩
      rw [h1]
      simp only [lookup]
      cases hl : lookup cs n with
      | some v => simp
      | none =>
        by_cases h : e.1 = n
        · subst h; simp [hp]
        · simp [h]
    · simp only [hp, Bool.false_eq_true, if_false]
      obtain ⟨h1, h2⟩ := ih (acc.1.put e.1 (e.2, acc.2), acc.2 + 1)
      refine ⟨?_, ?_⟩
      · rw [h1]
        simp only [get_put, lookup]
        cases hl : lookup cs n with
        | some v => simp
        | none =>
          by_cases h : e.1 = n
          · simp [h]
          · have : ¬ n = e.1 := fun h' => h h'.symm
            simp [h, this]
      · intro hn
        have hne : n ≠ e.1 := by intro heq; subst heq; exact hp hn
        have := h2 (by simp only [get_put, hne, if_false]; exact hn)
        rw [this]
        simp [get_put, hne]

/-- PARTIAL (see `update_eq_fresh_stmt`).  After ANY configuration history `s`, applying `c` gives
the same observable routing, cache binding, upstream set, server settings (incl. the min-length
default) as a process freshly started with `c`; compression levels are the same for every profile
named in `c` and for every name whose registration in `s` is the start-up one.  What is missing:
a profile that an earlier configuration defined and `c` no longer names keeps its old levels
(compressSrvs.Reset never deletes) — finding D9. -/
theorem update_eq_fresh_partial (s : St) (c : Cfg) :
    (obs (update s c)).cacheExists = (obs (fresh c)).cacheExists
    ∧ (obs (update s c)).upstream = (obs (fresh c)).upstream
    ∧ (obs (update s c)).locations = (obs (fresh c)).locations
    ∧ (obs (update s c)).server = (obs (fresh c)).server
    ∧ ∀ n, ((c.compresses.map (·.1)).contains n = true ∨ s.compress.get n = init.compress.get n) →
        (obs (update s c)).levels n = (obs (fresh c)).levels n := by
  have hdel : Facts.compressResetDeletesAbsent = false := by decide
  refine ⟨?_, ?_, rfl, ?_, ?_⟩
  · funext n
    simp only [obs, fresh, update, resetCaches]
    rw [(caches_get _ _ n).1, (caches_get _ _ n).1, get_stale, get_stale, ← lookup_isSome_iff]
    cases hl : (lookup c.caches n).isSome <;> simp [hl, init, Map.get]
  · funext n
    simp only [obs, fresh, update, resetUpstreams]
    rw [upstreams_get, upstreams_get, get_stale, get_stale, ← lookup_isSome_iff]
    cases hl : lookup c.upstreams n <;> simp [init, Map.get]
  · funext a
    simp only [obs, fresh, update, resetServers]
    rw [servers_get, servers_get, get_stale, get_stale, ← lookup_isSome_iff]
    cases hl : lookup c.servers a <;> simp [init, Map.get]
  · intro n hn
    simp only [obs, fresh, update, resetCompress, hdel, Bool.false_eq_true, if_false]
    rw [get_foldl_put, get_foldl_put]
    rcases hn with hn | hn
    · rw [← lookup_isSome_iff] at hn
      cases hl : lookup c.compresses n with
      | none => rw [hl] at hn; simp at hn
      | some v => simp
    · rw [hn]

/-- the full statement; FALSE today for compression levels (next theorem) -/
def update_eq_fresh_stmt : Prop := ∀ s c, (∃ cs : List Cfg, s = cs.foldl update init) → (obs (update s c)).levels = (obs (fresh c)).levels

/-- witness: a configuration overrides the built-in bestCompression profile (gzip 1), the next
one drops the override: the running instance keeps gzip 1, a fresh one has gzip 9 -/
theorem compress_override_persists :
    let c1 : Cfg := ⟨[(bestName, (1, 2))], [], [], [], []⟩
    let c2 : Cfg := ⟨[], [], [], [], []⟩
    (obs (update (update init c1) c2)).levels bestName = (1, 2) ∧ (obs (fresh c2)).levels bestName = (9, -1) := by
  decide

/-- FULL STATEMENT (nothing unchanged is disturbed, per micro-step).  Deleting stale keys never
touches a key the new configuration names, and a store replaces a value atomically: a name that is
registered before the update and named by the new configuration resolves in EVERY intermediate
state of the update. -/
theorem unchanged_resolves_throughout {V : Type} (m : Map V) (k : Str) (hk : (m.get k).isSome = true) :
    (∀ d, d ≠ k → ((m.del d).get k).isSome = true) ∧ (∀ a v, ((m.put a v).get k).isSome = true) := by
  refine ⟨fun d hd => ?_, fun a v => ?_⟩
  · rw [get_del]; simp [Ne.symm hd, hk]
  · rw [get_put]; by_cases h : k = a <;> simp [h, hk]

/-- a dispatcher whose name survives is the same object (identity, entries, original options) -/
theorem surviving_cache_identity (s : St) (c : Cfg) (n : Str)
    (hs : (s.caches.get n).isSome = true) (hc : (c.caches.map (·.1)).contains n = true) :
    (update s c).caches.get n = s.caches.get n := by
  simp only [update, resetCaches]
  have hst : ((stale s.caches fun n => (c.caches.map (·.1)).contains n).get n) = s.caches.get n := by
    rw [get_stale, if_pos hc]
  rw [(caches_get _ _ n).2 (by rw [hst]; exact hs)]
  exact hst

/-- a removed server is gone (its listener is closed by the caller of MapDelete), a removed cache
and upstream likewise -/
theorem removed_is_gone (s : St) (c : Cfg) (a : Str) :
    ((c.servers.map (·.1)).contains a = false → (update s c).servers.get a = none)
    ∧ ((c.caches.map (·.1)).contains a = false → (update s c).caches.get a = none)
    ∧ ((c.upstreams.map (·.1)).contains a = false → ((update s c).upstreams.get a).map (·.1) = none) := by
  refine ⟨fun h => ?_, fun h => ?_, fun h => ?_⟩
  · simp only [update, resetServers]
    rw [servers_get, get_stale]
    rw [← lookup_isSome_iff] at h
    cases hl : lookup c.servers a with
    | some v => rw [hl] at h; simp at h
    | none =>
      rw [lookup_isSome_iff] at h
      rw [if_neg (by rw [h]; simp)]
      rfl
  · simp only [update, resetCaches]
    have := (caches_get c.caches (stale s.caches fun n => (c.caches.map (·.1)).contains n, s.next) a).1
    rw [get_stale, ← lookup_isSome_iff] at this
    rw [← lookup_isSome_iff] at h
    simp only [h, Bool.false_eq_true, if_false, Option.isSome_none, Bool.or_false] at this
    cases hg : (List.foldl (fun (acc : Map (Nat × Nat) × Nat) e =>
        if (acc.1.get e.1).isSome then acc else (acc.1.put e.1 (e.2, acc.2), acc.2 + 1))
        (stale s.caches fun n => (c.caches.map (·.1)).contains n, s.next) c.caches).1.get a with
    | none => rfl
    | some v => rw [hg] at this; simp at this
  · simp only [update, resetUpstreams]
    rw [upstreams_get, get_stale]
    rw [← lookup_isSome_iff] at h
    cases hl : lookup c.upstreams a with
    | some v => rw [hl] at h; simp at h
    | none =>
      rw [lookup_isSome_iff] at h
      rw [if_neg (by rw [h]; simp)]
      rfl

/- non-vacuity -/
example :
    let c1 : Cfg := ⟨[("zip".toList, (6, 5))], [("c1".toList, 100)], [("u1".toList, "rr".toList)], ["l1".toList],
      [(":80".toList, ⟨["l1".toList], "c1".toList, "zip".toList, 0, []⟩)]⟩
    let c2 : Cfg := { c1 with caches := [("c1".toList, 999), ("c2".toList, 5)] }
    (obs (update (fresh c1) c2)).server ":80".toList = some ⟨["l1".toList], "c1".toList, "zip".toList, 1024, []⟩
    ∧ (update (fresh c1) c2).caches.get "c1".toList = some (100, 0) := by decide

end C16
end Pike
