import Pike.Props.C04
import Pike.Model.LRU
import Pike.Model.StoreMap
import Pike.Spec.Skeleton
/-
C18 — purge removes the entry everywhere and touches nothing else.
-/
namespace Pike
namespace C18
open Sys Entry

/-- Obligation on the regenerated statement skeletons of the three store back ends (store/redis.go, mongo.go,
badger.go): Get, Set and Delete of each address a record by THE SAME function of the key (redis: prefix + key in all
three; mongo: `Key = string(key)` in all three; badger: the key itself, Delete removing that one key), a miss is reported
as `ErrNotFound`, and a value is copied out before the transaction ends.  This is what lets `StoreMap` / `Sys.store`
treat a store as one partial map; the `store` suite checks it against real badger stores, redis and mongo cannot be
run in the sandbox, so for them this obligation is the tie. -/
theorem store_backends_transcribed :
    Facts.skel_redisStore_getKey = Spec.Skeleton.redisStore_getKey
    ∧ Facts.skel_redisStore_Get = Spec.Skeleton.redisStore_Get
    ∧ Facts.skel_redisStore_Set = Spec.Skeleton.redisStore_Set
    ∧ Facts.skel_redisStore_Delete = Spec.Skeleton.redisStore_Delete
    ∧ Facts.skel_mongoStore_Get = Spec.Skeleton.mongoStore_Get
    ∧ Facts.skel_mongoStore_Set = Spec.Skeleton.mongoStore_Set
    ∧ Facts.skel_mongoStore_Delete = Spec.Skeleton.mongoStore_Delete
    ∧ Facts.skel_badgerStore_Get = Spec.Skeleton.badgerStore_Get
    ∧ Facts.skel_badgerStore_Set = Spec.Skeleton.badgerStore_Set
    ∧ Facts.skel_badgerStore_Delete = Spec.Skeleton.badgerStore_Delete := by
  refine ⟨?_, ?_, ?_, ?_, ?_, ?_, ?_, ?_, ?_, ?_⟩ <;> rfl

/-- Obligation on the extracted lock scopes (regenerated from cache/dispatcher.go): the store
delete of a purge is issued while the shard mutex is held, and the get-or-create of a lookup
holds the same mutex — so for every request of that shard the removal from memory and from the
store is one atomic step, which is what the single `purge` event of `Sys.step` assumes. -/
theorem facts_purge_atomic :
    "dispatcher.RemoveHTTPCache:Delete:httpLRUCache" ∈ Facts.storeCalls
      ∧ (Facts.accessTable.filter fun a => a.typ = "httpLRUCache" ∧ a.field = "cache").all (fun a => a.lockW) = true := by
  decide

/-- FULL STATEMENT (effect).  Once `purge k` has completed (with the store delete acknowledged)
the key has no resident entry and no persisted record; other keys keep entry and record. -/
theorem purge_effect (s : State) (k : Key) :
    ∃ s', step Facts.waiterRereadsEntry s (.purge k true) = some s'
      ∧ s'.shard k = none ∧ s'.store k = none
      ∧ (∀ k', k' ≠ k → s'.shard k' = s.shard k' ∧ s'.store k' = s.store k')
      ∧ s'.entries = s.entries ∧ s'.pc = s.pc ∧ s'.queue = s.queue ∧ s'.lock = s.lock := by
  refine ⟨_, rfl, by simp, by simp, fun k' hk => ?_, rfl, rfl, rfl, rfl⟩
  simp [upd_other _ _ _ _ hk]

/-- a purge never blocks (it takes only the shard mutex: `step` is defined in every state) and
never strands waiters: threads, waiter lists and the completer's detached list are untouched, so
the owner of a purged entry still drains them (C02 holds for orphaned entries too) -/
theorem no_block (s : State) (k : Key) (d : Bool) :
    ∃ s', step Facts.waiterRereadsEntry s (.purge k d) = some s' ∧ s'.pc = s.pc ∧ s'.entries = s.entries
      ∧ s'.queue = s.queue ∧ s'.lock = s.lock ∧ s'.owner = s.owner := ⟨_, rfl, rfl, rfl, rfl, rfl, rfl⟩

/-- purging an absent key is a no-op -/
theorem absent_noop (s : State) (k : Key) (h1 : s.shard k = none) (h2 : s.store k = none) (d : Bool) :
    step Facts.waiterRereadsEntry s (.purge k d) = some s := by
  have e1 : upd s.shard k none = s.shard := by
    funext x; by_cases hx : x = k
    · subst hx; simp [h1]
    · simp [upd_other _ _ _ _ hx]
  have e2 : upd s.store k none = s.store := by
    funext x; by_cases hx : x = k
    · subst hx; simp [h2]
    · simp [upd_other _ _ _ _ hx]
  simp only [step, e1, e2]
  cases d <;> rfl

/-- FULL STATEMENT (next request).  After a completed purge, the next request for the key gets a
brand-new entry, an honest store has nothing to return for it, so the request becomes the
fetcher: it goes to the upstream and is not answered from the purged entry.  (A fetch of the key
that was in flight at purge time may still persist its result afterwards; for that case the
property only demands that nothing blocks — `no_block`.) -/
theorem next_goes_upstream {s s1 s2 : State} (h : Reachable Facts.waiterRereadsEntry s) (t : Tid) (k : Key) (so : Load)
    (hpc : s.pc t = .arrived k) (hsh : s.shard k = none)
    (hso : ∀ rec, so ≠ .record rec)     -- the record is gone: the store cannot honestly return one
    (h1 : step Facts.waiterRereadsEntry s (.lookup t) = some s1)
    (h2 : step Facts.waiterRereadsEntry s1 (.get t so) = some s2) :
    s1.pc t = .looked ⟨s.next⟩ ∧ s2.pc t = .fetchUp ⟨s.next⟩ := by
  have hi := C01.reach_inv h
  have hp := hi.pristine ⟨s.next⟩ (Nat.le_refl _)
  rw [C01.facts_handover.1] at h1 h2
  simp only [step, hpc, hsh, Option.some.injEq] at h1
  subst h1
  refine ⟨by simp, ?_⟩
  simp only [step, upd_same] at h2
  have hl : s.lock ⟨s.next⟩ = none := hp.2.2.2.2.1
  simp only [hl, if_true] at h2
  have hg : Entry.get t s.now so { key := k } = ({ key := k, status := .fetching }, .fetch) := by
    unfold Entry.get Entry.load
    cases so with
    | record rec => exact absurd rfl (hso rec)
    | noStore => rfl
    | notFound => rfl
    | error => rfl
  rw [hg] at h2
  simp only [Option.some.injEq] at h2
  subst h2
  simp

/-- a purge without a cache name clears the key in every cache; with a name only there; an
unknown name is a no-op (registry level, `LRU.Reg`) -/
theorem unnamed_all_caches (r : LRU.Reg) (key : Str) (hv : Nat) :
    (∀ c ∈ r.purge [] key hv, LRU.find (c.disp.shards (hv % c.disp.zones)) key = none ∧ (∀ s, c.store = some s → key ∉ s)) := by
  intro c hc
  unfold LRU.Reg.purge at hc
  simp only [true_or, if_true, List.mem_map] at hc
  obtain ⟨c0, _, rfl⟩ := hc
  refine ⟨?_, ?_⟩
  · simp only [LRU.Cache.purge, LRU.remove, LRU.updF_same]
    unfold LRU.find LRU.erase
    rw [List.find?_eq_none]
    intro it hit
    have := (List.mem_filter.mp hit).2
    simpa using this
  · intro s hs
    simp only [LRU.Cache.purge] at hs
    cases hcs : c0.store with
    | none => simp [hcs] at hs
    | some s0 =>
      simp only [hcs, Option.map_some, Option.some.injEq] at hs
      subst hs
      intro hm
      have := (List.mem_filter.mp hm).2
      simp at this

theorem named_only_there (r : LRU.Reg) (name key : Str) (hv : Nat) (hn : name ≠ []) :
    (r.purge name key hv).length = r.length
    ∧ ∀ c ∈ r, c.name ≠ name → c ∈ r.purge name key hv := by
  refine ⟨by simp [LRU.Reg.purge], fun c hc hne => ?_⟩
  unfold LRU.Reg.purge
  refine List.mem_map.mpr ⟨c, hc, ?_⟩
  simp [hn, hne]

theorem unknown_cache_noop (r : LRU.Reg) (name key : Str) (hv : Nat) (hn : name ≠ [])
    (hno : ∀ c ∈ r, c.name ≠ name) : r.purge name key hv = r := by
  unfold LRU.Reg.purge
  have : ∀ c ∈ r, (if name = [] ∨ c.name = name then c.purge key hv else c) = c := by
    intro c hc; simp [hn, hno c hc]
  rw [List.map_congr_left this]; simp

/-- The persisted copy (the map the `store` suite replays every real badger operation on): a completed delete leaves
no record for that key of that store and leaves every other record as it was. -/
theorem store_delete_exact (m : StoreMap.M) (k k' : StoreMap.K) (h : k' ≠ k) :
    StoreMap.get (StoreMap.del m k) k = none ∧ StoreMap.get (StoreMap.del m k) k' = StoreMap.get m k' :=
  ⟨StoreMap.get_del_same m k, StoreMap.get_del_other m k k' h⟩

example : StoreMap.get (StoreMap.del (StoreMap.set (StoreMap.set [] (0, 8) "a".toList) (0, 9) "b".toList) (0, 8)) (0, 9) = some "b".toList := by decide

end C18
end Pike
