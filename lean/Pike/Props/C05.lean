import Pike.Lemmas.Resp
import Pike.Lemmas.Tokens
import Pike.Lemmas.Codec
import Pike.Spec.Skeleton
import Pike.Facts
/-
C05 — bodies, status and headers are delivered unaltered for every encoding mix.
`k : Codecs` is the bundle of compression libraries, assumed to satisfy `CodecsOK`
(round trips, non-empty output); everything else is pike's own logic.
-/
namespace Pike
namespace C05
open Resp Str

/-- Obligation on the extracted facts: pike's own code uses no `sync.Pool` — bodies and headers of a stored response are values: what one client was sent or what the entry holds is not a view of a buffer that a later compression or decompression reuses (the models treat them as immutable values). -/
theorem facts_no_pooled_buffers : Facts.syncPoolSites = [] := by decide

/-- Obligation on the regenerated statement skeletons of `GetRawBody`, `Compress` and `Fill`: they are what `Resp.rawBody`, `Resp.compressStore` and `Resp.fill` transcribe (identity body from the gzip, else br variant; both variants made and the raw body dropped when stored; headers merged, then Content-Encoding set). -/
theorem skeleton_transcribed :
    Facts.skel_HTTPResponse_GetRawBody = Spec.Skeleton.HTTPResponse_GetRawBody
    ∧ Facts.skel_HTTPResponse_Compress = Spec.Skeleton.HTTPResponse_Compress
    ∧ Facts.skel_HTTPResponse_Fill = Spec.Skeleton.HTTPResponse_Fill := by
  refine ⟨?_, ?_, ?_⟩ <;> rfl

/-- the documented content codings a client may list -/
def alphabet : List Str :=
  ["gzip", "br", "deflate", "identity", "zstd", "compress", "x-gzip", "*", "lz4", "snz", "zst"].map String.toList

/-- in the documented alphabet only `br` contains "br" and only `gzip`/`x-gzip` contain "gzip" -/
theorem alphabet_unambiguous :
    (∀ t ∈ alphabet, contains encBr t = true → t = encBr)
    ∧ (∀ t ∈ alphabet, contains encGzip t = true → t = encGzip ∨ t = "x-gzip".toList) := by decide

/-- the upstream's decoded body; gzip/br data is kept as received, and an empty body needs no
decoding -/
def upstreamBody (k : Codecs) (enc data : Str) : Option Str :=
  if (enc = encGzip ∨ enc = encBr) ∧ data.isEmpty then some [] else decompress k enc data

/-- the response object built from an upstream answer represents the upstream's decoded body,
for each of the documented encodings (and `newResponse` fails for any other) -/
theorem newResponse_rep (k : Codecs) (code : Nat) (h : Header) (enc data srv : Str) (ml : Nat) (f : Option MiniRe.Alt)
    (r : R) (body : Str) (hr : newResponse k code h enc data srv ml f = some r)
    (hb : upstreamBody k enc data = some body) : Rep k r body := by
  unfold upstreamBody at hb
  unfold newResponse at hr
  simp only at hr
  by_cases hgz : enc = encGzip
  · rw [if_pos hgz] at hr
    simp only [Option.some.injEq] at hr; subst hr
    refine ⟨fun h => by simp at h, fun hg => ?_, fun h => by simp at h, fun _ hg _ => ?_⟩
    · simp only at hg
      rw [if_neg (by simp [hg])] at hb
      simpa [decompress, hgz] using hb
    · simp only at hg
      rw [if_pos ⟨Or.inl hgz, hg⟩] at hb
      simpa using hb.symm
  · rw [if_neg hgz] at hr
    by_cases hbr : enc = encBr
    · rw [if_pos hbr] at hr
      simp only [Option.some.injEq] at hr; subst hr
      refine ⟨fun h => by simp at h, fun h => by simp at h, fun hg => ?_, fun _ _ hg => ?_⟩
      · simp only at hg
        rw [if_neg (by simp [hg])] at hb
        have : (encBr = encGzip) = False := by simp [(by decide : encBr ≠ encGzip)]
        simpa [decompress, hbr, this] using hb
      · simp only at hg
        rw [if_pos ⟨Or.inr hbr, hg⟩] at hb
        simpa using hb.symm
    · rw [if_neg hbr] at hr
      rw [if_neg (fun hh => by rcases hh.1 with h1 | h1 <;> contradiction)] at hb
      by_cases hid : enc = []
      · rw [if_pos hid] at hr
        simp only [Option.some.injEq] at hr; subst hr
        have hbody : data = body := by
          have : ([] : Str) ≠ encGzip ∧ ([] : Str) ≠ encBr ∧ ([] : Str) ≠ "lz4".toList
              ∧ ([] : Str) ≠ "snz".toList ∧ ([] : Str) ≠ "zst".toList := by decide
          simpa [decompress, hid, this] using hb
        refine ⟨fun _ => hbody, fun h => by simp at h, fun h => by simp at h, fun hg _ _ => ?_⟩
        simp only at hg
        rw [← hbody]; simpa using hg
      · rw [if_neg hid, hb] at hr
        simp only [Option.some.injEq] at hr; subst hr
        refine ⟨fun _ => rfl, fun h => by simp at h, fun h => by simp at h, fun hg _ _ => ?_⟩
        simpa using hg

/-- FULL STATEMENT.  For every status code, header set, upstream encoding among the
documented six, upstream data valid for that encoding, server settings (service, min-length,
filter), cacheable or not, persisted and restored or not, and every client Accept-Encoding
that is a plain list of documented codings:
the client gets a body that decodes (per the returned Content-Encoding) to exactly the upstream's
decoded body, the Content-Encoding is absent or one of the tokens the client listed, and the
status code and the stored headers are those of the upstream minus the four hop/representation
headers.  `path` selects: fresh response, after pre-compression (cacheable / hit / waiter), after
a store round trip. -/
theorem negotiate_sound (k : Codecs) (ok : CodecsOK k)
    (code : Nat) (h : Header) (enc data srv : Str) (ml : Nat) (f : Option MiniRe.Alt)
    (r : R) (body ae : Str)
    (hr : newResponse k code h enc data srv ml f = some r)
    (hb : upstreamBody k enc data = some body)
    (hae : ∀ t ∈ tokens ae, t ∈ alphabet)
    (r' : R) (hpath : r' = r ∨ r' = forCache k r) :
    ∃ e out src, negotiate k r' ae = some (e, out, src)
      ∧ decodeFor k e out = some body
      ∧ (e = [] ∨ e ∈ tokens ae ∨ (e = encGzip ∧ "x-gzip".toList ∈ tokens ae))
      ∧ r'.code = code ∧ r'.header = cloneAndIgnore h := by
  have hrep : Rep k r body := newResponse_rep k code h enc data srv ml f r body hr hb
  have hrep' : Rep k r' body := by
    rcases hpath with rfl | rfl
    · exact hrep
    · exact forCache_rep ok hrep
  have hfields : r.code = code ∧ r.header = cloneAndIgnore h := by
    unfold newResponse at hr
    simp only at hr
    split at hr
    · simp only [Option.some.injEq] at hr; subst hr; exact ⟨rfl, rfl⟩
    · split at hr
      · simp only [Option.some.injEq] at hr; subst hr; exact ⟨rfl, rfl⟩
      · split at hr
        · simp only [Option.some.injEq] at hr; subst hr; exact ⟨rfl, rfl⟩
        · split at hr
          · simp only [Option.some.injEq] at hr; subst hr; exact ⟨rfl, rfl⟩
          · simp at hr
  have hfields' : r'.code = code ∧ r'.header = cloneAndIgnore h := by
    rcases hpath with rfl | rfl
    · exact hfields
    · have : (forCache k r).code = r.code ∧ (forCache k r).header = r.header := by
        unfold forCache compress
        simp only
        split
        · exact ⟨rfl, rfl⟩
        · split
          · exact ⟨rfl, rfl⟩
          · split
            · exact ⟨rfl, rfl⟩
            · split <;> exact ⟨rfl, rfl⟩
      rw [this.1, this.2]; exact hfields
  have htot := negotiate_total hrep' ae
  obtain ⟨⟨e, out, src⟩, hn⟩ := Option.isSome_iff_exists.mp htot
  obtain ⟨hdec, hacc⟩ := Resp.negotiate_sound ok hrep' hn
  refine ⟨e, out, src, hn, hdec, ?_, hfields'.1, hfields'.2⟩
  rcases hacc with h0 | ⟨rfl, hc⟩ | ⟨rfl, hc⟩
  · exact Or.inl h0
  · obtain ⟨t, ht, hin⟩ := contains_token (by decide) (by decide) (by decide) hc
    have := alphabet_unambiguous.1 t (hae t ht) (contains_iff.mpr hin)
    exact Or.inr (Or.inl (this ▸ ht))
  · obtain ⟨t, ht, hin⟩ := contains_token (by decide) (by decide) (by decide) hc
    rcases alphabet_unambiguous.2 t (hae t ht) (contains_iff.mpr hin) with h1 | h1
    · exact Or.inr (Or.inl (h1 ▸ ht))
    · exact Or.inr (Or.inr ⟨rfl, h1 ▸ ht⟩)

/-- the store round trip (C09) returns the very same fields, so the restored path is the
pre-compressed path: stated on the record codec with the identity header codec -/
theorem restored_same_variants (c : Codec.HCodec Str) (e : Codec.Entry Str) (wf : Codec.EntryWF c e)
    (r : Codec.Resp Str) (he : e.resp = some r) :
    (Codec.decodeEntry c (Codec.encodeEntry c e)).map (·.resp) = some (some r) := by
  rw [Codec.decodeEntry_encodeEntry c e wf]
  simp [Codec.normalize, he]

/-- the empty body and the bodies at the threshold: nothing is compressed at `len = minLength` -/
theorem at_threshold_identity (k : Codecs) (r : R) (ae : Str)
    (hraw : r.gz = [] ∧ r.br = []) (hlen : r.raw.length ≤ r.minLength) :
    negotiate k r ae = some ([], r.raw, .identity) := by
  unfold negotiate
  have hs : shouldCompress r = false := by
    unfold shouldCompress
    simp [hraw.1, hraw.2, hlen]
  simp only [hraw.1, hraw.2, List.isEmpty_nil, Bool.not_true, Bool.false_eq_true, and_false, if_false]
  unfold getRawBody
  cases hr : r.raw with
  | nil => simp [hraw.1, hraw.2, hs]
  | cons a l => simp [hs]

/- non-vacuity: a symbolic codec bundle satisfying CodecsOK, and a concrete run -/
def symK : Codecs :=
  ⟨fun _ b => 'g' :: b, fun _ b => 'b' :: b,
   fun s => match s with | 'g' :: b => some b | _ => none,
   fun s => match s with | 'b' :: b => some b | _ => none,
   fun s => some s, fun s => some s, fun s => some s⟩
example : CodecsOK symK := ⟨fun _ _ => rfl, fun _ _ => rfl, fun _ _ => rfl, fun _ _ => rfl⟩
example :
    (newResponse symK 200 [("Content-Type".toList, ["text/plain".toList]), ("Date".toList, ["x".toList])] [] "hello".toList [] 2 none).map
      (fun r => (negotiate symK (forCache symK r) "gzip, deflate".toList, (forCache symK r).header))
    = some (some (encGzip, "ghello".toList, .stored), [("Content-Type".toList, ["text/plain".toList])]) := by rfl

end C05
end Pike
