import Pike.Model.Location
import Pike.Spec.Skeleton
import Pike.Facts
/-
C14 — routing picks a matching location of the best specificity class.
All statements quantify over every location list and every order the unstable sort may
leave equal-priority locations in (`SortedPerm`).
-/
namespace Pike
namespace C14
open Location Str

/-- Obligation on the regenerated statement skeletons of `Location.Match`, `Locations.Get` and `Locations.Set`: host list then prefix list; first match among the named locations in stored order; sorted by priority BEFORE the list is published under the mutex. -/
theorem skeleton_transcribed :
    Facts.skel_Location_Match = Spec.Skeleton.Location_Match
    ∧ Facts.skel_Locations_Get = Spec.Skeleton.Locations_Get
    ∧ Facts.skel_Locations_Set = Spec.Skeleton.Locations_Set := by
  refine ⟨?_, ?_, ?_⟩ <;> rfl

/-- Obligation on the translated `getPriority` and the extracted comparator: ascending sort,
and the four classes order as prefix+host < prefix < host < unconstrained, whatever the
(non-zero) numbers of prefixes and hosts. -/
theorem classes_ok :
    Facts.locationSort = "asc"
    ∧ ∀ p h : Int, 0 < p → 0 < h →
      Facts.locationPriority p h < Facts.locationPriority p 0
      ∧ Facts.locationPriority p 0 < Facts.locationPriority 0 h
      ∧ Facts.locationPriority 0 h < Facts.locationPriority 0 0 := by
  refine ⟨by decide, fun p h hp hh => ?_⟩
  unfold Facts.locationPriority
  simp only []
  have h1 : p ≠ 0 := by omega
  have h2 : h ≠ 0 := by omega
  simp [h1, h2]

theorem before_iff (a b : Loc) : before a b ↔ a.priority ≤ b.priority := by
  unfold before; rw [if_pos classes_ok.1]

/-- the answer is one of the server's own (named) locations and it matches host and URI -/
theorem get_matches (locs sorted : List Loc) (hs : SortedPerm locs sorted) (host url : Str) (names : List Str)
    (l : Loc) (h : get sorted host url names = some l) :
    l ∈ locs ∧ l.name ∈ names ∧ l.matches host url = true := by
  unfold Location.get at h
  have hm := List.mem_of_find?_eq_some h
  have hp := List.find?_some h
  simp only [Bool.and_eq_true] at hp
  exact ⟨hs.1.subset hm, by simpa using hp.1, hp.2⟩

/-- FULL STATEMENT.  Among the named matching locations the answer is one of the most specific
class: no named matching location has a strictly smaller priority value. -/
theorem get_best_class (locs sorted : List Loc) (hs : SortedPerm locs sorted) (host url : Str) (names : List Str)
    (l : Loc) (h : get sorted host url names = some l)
    (l' : Loc) (hl' : l' ∈ locs) (hn : l'.name ∈ names) (hm : l'.matches host url = true) :
    l.priority ≤ l'.priority := by
  unfold Location.get at h
  obtain ⟨hperm, hsorted⟩ := hs
  have hl's : l' ∈ sorted := hperm.symm.subset hl'
  -- split the sorted list at the found element
  obtain ⟨as, bs, hsplit, hnone⟩ := List.find?_eq_some_iff_append.mp h |>.2
  rw [hsplit] at hl's hsorted
  rcases List.mem_append.mp hl's with hin | hin
  · have := hnone l' hin
    simp [hn, hm] at this
  · rcases List.mem_cons.mp hin with rfl | hin
    · exact Int.le_refl _
    · have hp := (List.pairwise_append.mp hsorted).2.1
      have := (List.pairwise_cons.mp hp).1 l' hin
      exact (before_iff _ _).mp this

/-- `none` exactly when no named location matches (the pipeline then answers 5xx without
contacting any upstream: `Pipeline.no_location_no_upstream`) -/
theorem none_iff (locs sorted : List Loc) (hs : SortedPerm locs sorted) (host url : Str) (names : List Str) :
    get sorted host url names = none ↔ ∀ l ∈ locs, ¬ (l.name ∈ names ∧ l.matches host url = true) := by
  unfold Location.get
  rw [List.find?_eq_none]
  constructor
  · intro h l hl
    have := h l (hs.1.symm.subset hl)
    simpa using this
  · intro h l hl
    have := h l (hs.1.subset hl)
    simpa using this

/-- locations not listed on the server are never used -/
theorem only_listed (locs sorted : List Loc) (hs : SortedPerm locs sorted) (host url : Str) (names : List Str)
    (l : Loc) (h : get sorted host url names = some l) : l.name ∈ names :=
  (get_matches locs sorted hs host url names l h).2.1

/-- the executable answer set used by the correspondence judge is exactly what the theorems
allow: whatever the sort did, the answer is in `allowed` -/
theorem get_in_allowed (locs sorted : List Loc) (hs : SortedPerm locs sorted) (host url : Str) (names : List Str)
    (l : Loc) (h : get sorted host url names = some l) : l ∈ allowed locs host url names := by
  obtain ⟨h1, h2, h3⟩ := get_matches locs sorted hs host url names l h
  unfold allowed candidates
  simp only [List.mem_filter, List.all_eq_true, Bool.and_eq_true, decide_eq_true_eq]
  refine ⟨⟨h1, by simpa using h2, h3⟩, fun l' hl' => ?_⟩
  exact get_best_class locs sorted hs host url names l h l' hl'.1 (by simpa using hl'.2.1) hl'.2.2

/- non-vacuity: a concrete configuration where all four classes compete -/
example :
    let locs : List Loc := [⟨"any".toList, [], [], []⟩, ⟨"h".toList, ["a.test".toList], [], []⟩,
      ⟨"p".toList, [], ["/api".toList], []⟩, ⟨"ph".toList, ["a.test".toList], ["/api".toList], []⟩]
    (allowed locs "a.test".toList "/api/x".toList (locs.map (·.name))).map (·.name) = ["ph".toList]
    ∧ (allowed locs "b.test".toList "/api/x".toList (locs.map (·.name))).map (·.name) = ["p".toList]
    ∧ (allowed locs "a.test".toList "/x".toList (locs.map (·.name))).map (·.name) = ["h".toList]
    ∧ (allowed locs "b.test".toList "/x".toList ["h".toList, "p".toList]) = [] := by decide

end C14
end Pike
