import Pike.Lemmas.Resp
import Pike.Spec.Skeleton
import Pike.Facts
/-
C13 — content-encoding negotiation follows the documented decision table (docs/response.md).
-/
namespace Pike
namespace C13
open Resp Str MiniRe

/-- Obligation on the regenerated statement skeletons of `shouldCompressed` and `getBodyByAcceptEncoding`: they are, statement for statement, the decision procedure `Resp.negotiate` transcribes (stored br, stored gzip, size/type test, br before gzip, identity). -/
theorem skeleton_transcribed :
    Facts.skel_HTTPResponse_shouldCompressed = Spec.Skeleton.HTTPResponse_shouldCompressed
    ∧ Facts.skel_HTTPResponse_getBodyByAcceptEncoding = Spec.Skeleton.HTTPResponse_getBodyByAcceptEncoding := by
  refine ⟨?_, ?_⟩ <;> rfl

/-- the rows of the documented table -/
inductive Choice | storedBr | storedGzip | identity | freshBr | freshGzip
deriving Repr, DecidableEq

/-- docs/response.md, "从HTTP Response中响应数据", row by row -/
def table (acceptBr acceptGzip hasBr hasGzip should : Bool) : Choice :=
  if acceptBr && hasBr then .storedBr
  else if acceptGzip && hasGzip then .storedGzip
  else if !should then .identity
  else if acceptBr then .freshBr
  else if acceptGzip then .freshGzip
  else .identity

def choiceOf (e : Str) (s : Src) : Option Choice :=
  if e = encBr ∧ s = .stored then some .storedBr
  else if e = encGzip ∧ s = .stored then some .storedGzip
  else if e = encBr ∧ s = .fresh then some .freshBr
  else if e = encGzip ∧ s = .fresh then some .freshGzip
  else if e = [] ∧ s = .identity then some .identity
  else none

/-- FULL STATEMENT.  On all inputs, whenever a body can be produced, the encoding decision is
the documented table applied to (client accepts br, client accepts gzip, br stored, gzip stored,
"should compress"), and the body is the stored variant / the raw body / a fresh compression
accordingly. -/
theorem table_followed (k : Codecs) (r : R) (ae e out : Str) (s : Src)
    (h : negotiate k r ae = some (e, out, s)) :
    choiceOf e s = some (table (contains encBr ae) (contains encGzip ae)
      (!r.br.isEmpty) (!r.gz.isEmpty) (shouldCompress r))
    ∧ (s = .stored → (e = encBr → out = r.br) ∧ (e = encGzip → out = r.gz))
    ∧ (s ≠ .stored → ∃ raw, getRawBody k r = some raw ∧
        (s = .identity → out = raw) ∧ (s = .fresh → (e = encBr → out = k.brotli r.srv raw) ∧ (e = encGzip → out = k.gzip r.srv raw))) := by
  have d1 : encGzip ≠ encBr := by decide
  have d2 : encBr ≠ ([] : Str) := by decide
  have d3 : encGzip ≠ ([] : Str) := by decide
  unfold negotiate at h
  simp only at h
  generalize contains encBr ae = aBr at h ⊢
  generalize contains encGzip ae = aGz at h ⊢
  generalize shouldCompress r = sc at h ⊢
  generalize hbe : r.br.isEmpty = bE at h ⊢
  generalize hge : r.gz.isEmpty = gE at h ⊢
  cases hraw : getRawBody k r with
  | none =>
    rw [hraw] at h
    cases aBr <;> cases aGz <;> cases bE <;> cases gE <;>
      simp only [Bool.false_eq_true, Bool.not_false, Bool.not_true, and_self, and_true, and_false, false_and, true_and,
        if_true, if_false, Option.some.injEq, Prod.mk.injEq, reduceCtorEq] at h <;>
      (try (obtain ⟨rfl, rfl, rfl⟩ := h)) <;>
      simp [choiceOf, table, d1, d1.symm, d2, d2.symm, d3, d3.symm]
  | some raw =>
    rw [hraw] at h
    cases aBr <;> cases aGz <;> cases bE <;> cases gE <;> cases sc <;>
      simp only [Bool.false_eq_true, Bool.not_false, Bool.not_true, and_self, and_true, and_false, false_and, true_and,
        if_true, if_false, Option.some.injEq, Prod.mk.injEq] at h <;>
      obtain ⟨rfl, rfl, rfl⟩ := h <;>
      simp [choiceOf, table, d1, d1.symm, d2, d2.symm, d3, d3.symm]

/-- "should compress" = some variant strictly longer than the minimum length AND the content
type matches the filter (the response's own, else the default); AT the threshold nothing is
compressed -/
theorem should_iff (r : R) (f : Alt) (hf : effectiveFilter r = some f) :
    shouldCompress r = true ↔
      (r.raw.length > r.minLength ∨ r.gz.length > r.minLength ∨ r.br.length > r.minLength)
      ∧ f.matches (r.header.get hContentType) = true := by
  unfold shouldCompress
  constructor
  · intro h
    split at h
    · simp at h
    · rename_i hc
      rw [hf] at h
      exact ⟨by omega, h⟩
  · intro ⟨h1, h2⟩
    rw [if_neg (by omega)]
    rw [hf]
    exact h2

/-- a client accepting neither br nor gzip always gets identity -/
theorem neither_identity (k : Codecs) (r : R) (ae e out : Str) (s : Src)
    (hb : contains encBr ae = false) (hg : contains encGzip ae = false)
    (h : negotiate k r ae = some (e, out, s)) : e = [] ∧ s = .identity := by
  unfold negotiate at h
  simp only [hb, hg, Bool.false_eq_true, false_and, if_false] at h
  split at h
  · simp at h
  · split at h <;> simp only [Option.some.injEq, Prod.mk.injEq] at h <;> exact ⟨h.1.symm, h.2.2.symm⟩

/-- the default content-type filter is the documented list, and the profile used when an entry
becomes cacheable is `bestCompression` -/
theorem filter_and_profile :
    defaultFilter = some ⟨false, ["text", "javascript", "json", "wasm", "xml", "font"].map String.toList⟩
    ∧ Facts.cacheableProfile = "BestCompression" ∧ Facts.bestCompressionName = "bestCompression" := by decide

/-- Cacheable compressible responses are compressed once when stored, and not again per
request: after `forCache` both variants are present and the raw body is dropped, and every
later negotiation for a client accepting br or gzip returns a stored variant (no codec call). -/
theorem precompressed_once (k : Codecs) (ok : CodecsOK k) (r : R) (raw : Str)
    (hone : r.gz.isEmpty = true ∨ r.br.isEmpty = true)   -- as built by `newResponse`: at most one compressed variant
    (hs : shouldCompress r = true) (hraw : getRawBody k r = some raw) (hne : raw.isEmpty = false) :
    (forCache k r).gz.isEmpty = false ∧ (forCache k r).br.isEmpty = false ∧ (forCache k r).raw = []
    ∧ (forCache k r).srv = Facts.bestCompressionName.toList
    ∧ ∀ ae e out s, (contains encBr ae = true ∨ contains encGzip ae = true) →
        negotiate k (forCache k r) ae = some (e, out, s) → s = .stored := by
  have hfc : (forCache k r).gz.isEmpty = false ∧ (forCache k r).br.isEmpty = false ∧ (forCache k r).raw = []
      ∧ (forCache k r).srv = Facts.bestCompressionName.toList := by
    unfold forCache compress
    have hs' : shouldCompress { r with srv := Facts.bestCompressionName.toList } = true := hs
    have hraw' : getRawBody k { r with srv := Facts.bestCompressionName.toList } = some raw := hraw
    simp only [hs', Bool.not_true, Bool.false_eq_true, if_false]
    split
    · rename_i hboth
      -- both variants already there: then raw must be empty for the claim; getRawBody gave a non-empty body
      simp only [Bool.not_eq_true'] at hboth
      rcases hone with h1 | h1
      · rw [h1] at hboth; simp at hboth
      · rw [h1] at hboth; simp at hboth
    · rw [hraw']
      simp only [hne, Bool.false_eq_true, if_false]
      refine ⟨?_, ?_, trivial, trivial⟩
      · split
        · exact ok.gz_ne _ _
        · rename_i hg; simpa using hg
      · split
        · exact ok.br_ne _ _
        · rename_i hb; simpa using hb
  refine ⟨hfc.1, hfc.2.1, hfc.2.2.1, hfc.2.2.2, fun ae e out s hacc hn => ?_⟩
  unfold negotiate at hn
  simp only [hfc.1, hfc.2.1, Bool.not_false, and_true] at hn
  rcases hacc with hb | hg
  · simp only [hb, if_true, Option.some.injEq, Prod.mk.injEq] at hn
    exact hn.2.2.symm
  · split at hn
    · simp only [Option.some.injEq, Prod.mk.injEq] at hn; exact hn.2.2.symm
    · simp only [hg, if_true, Option.some.injEq, Prod.mk.injEq] at hn; exact hn.2.2.symm

end C13
end Pike
