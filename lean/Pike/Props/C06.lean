import Pike.Model.Key
import Pike.Lemmas.LRU
import Pike.Facts
import Pike.Model.StoreMap
/-
C06 — cache keys isolate method, host and the full request URI.
-/
namespace Pike
namespace C06
open Key LRU

/-- Obligation on the extracted facts: pike's own code uses no `sync.Pool` — a key, and the entry object looked up for it, is not a view of memory that a later request reuses (the models treat them as immutable values). -/
theorem facts_no_pooled_buffers : Facts.syncPoolSites = [] := by decide

/-- Obligation on the extracted layout of `getKey`: it builds METHOD SP HOST SP URI in a freshly
allocated buffer of exactly the right length. -/
theorem layout_ok :
    Facts.keyShape = "ok" ∧ Facts.keyLayout = ["method", "sp", "host", "sp", "uri"]
    ∧ Facts.keySeparator = " " ∧ Facts.keyExtraLen = 2 ∧ Facts.keyFreshBuffer = true
    ∧ Facts.cachedMethods = ["GET", "HEAD"] := by decide

theorem getKey_eq_spec (m h u : Str) : getKey m h u = specKey m h u := by
  obtain ⟨_, hl, hs, he, _, _⟩ := layout_ok
  unfold getKey keyOf specKey
  rw [hl, hs, he]
  simp only [List.map_cons, List.map_nil, seg, List.flatten_cons, List.flatten_nil, List.append_nil]
  have : ((m.length : Int) + h.length + u.length + 2).toNat = (m ++ (" ".toList ++ (h ++ (" ".toList ++ u)))).length := by
    simp only [List.length_append]
    have : " ".toList.length = 1 := by decide
    omega
  rw [this, List.take_length]
  rfl

theorem split_unique (a a' b b' : Str) (ha : ' ' ∉ a) (ha' : ' ' ∉ a')
    (h : a ++ ' ' :: b = a' ++ ' ' :: b') : a = a' ∧ b = b' := by
  induction a generalizing a' with
  | nil =>
    cases a' with
    | nil => simpa using h
    | cons c cs =>
      simp only [List.nil_append, List.cons_append, List.cons.injEq] at h
      exact absurd (h.1 ▸ List.mem_cons_self) ha'
  | cons c cs ih =>
    cases a' with
    | nil =>
      simp only [List.nil_append, List.cons_append, List.cons.injEq] at h
      exact absurd (h.1 ▸ List.mem_cons_self) ha
    | cons c' cs' =>
      simp only [List.cons_append, List.cons.injEq] at h
      have := ih cs' (fun hm => ha (List.mem_cons_of_mem _ hm)) (fun hm => ha' (List.mem_cons_of_mem _ hm)) h.2
      exact ⟨by rw [h.1, this.1], this.2⟩

/-- Obligation on the extracted facts: no eviction callback hands an evicted entry object on to
another key (the entry a request holds stays the entry of the key it was looked up for, also after
that key has left the shard). -/
theorem facts_entries_not_recycled : Facts.lruOnEvictedSites = [] := by decide

/-- FULL STATEMENT (key level).  For methods and hosts that contain no space (what net/http
delivers), two requests get the same cache key only if method, Host and the whole
request-URI (query string included) are all equal. -/
theorem key_injective (m h u m' h' u' : Str)
    (hm : ' ' ∉ m) (hm' : ' ' ∉ m') (hh : ' ' ∉ h) (hh' : ' ' ∉ h')
    (heq : getKey m h u = getKey m' h' u') : m = m' ∧ h = h' ∧ u = u' := by
  rw [getKey_eq_spec, getKey_eq_spec] at heq
  unfold specKey at heq
  obtain ⟨h1, h2⟩ := split_unique _ _ _ _ hm hm' heq
  obtain ⟨h3, h4⟩ := split_unique _ _ _ _ hh hh' h2
  exact ⟨h1, h3, h4⟩

/-- the no-space hypothesis is necessary (net/http rejects such methods and hosts) -/
theorem space_needed :
    getKey "GET".toList "a b".toList "/".toList = getKey "GET".toList "a".toList "b /".toList := by decide

/-- GET and HEAD of the same URL are separate entries -/
theorem get_head_distinct (h u : Str) : getKey "GET".toList h u ≠ getKey "HEAD".toList h u := by
  rw [getKey_eq_spec, getKey_eq_spec]
  unfold specKey
  intro heq
  have : ("GET".toList ++ ' ' :: (h ++ ' ' :: u)).head? = ("HEAD".toList ++ ' ' :: (h ++ ' ' :: u)).head? := by rw [heq]
  simp at this

/-- FULL STATEMENT (lookup level).  Whatever the hash function (all keys in one shard, any
collisions), after any sequence of lookups, purges and evictions, the entry returned for key
`k` was created for `k` and for no other key. -/
theorem lookup_own_key (hash : Str → Nat) (zones cap : Nat) (ops : List Op) (k : Str) :
    let d := run hash (init zones cap) ops
    let r := lookup d (hash k % d.zones) k
    (r.2.1, k) ∈ r.1.born ∧ ∀ k', (r.2.1, k') ∈ r.1.born → k' = k := by
  intro d r
  have hinv : Inv d := inv_run hash (inv_init _ _) ops
  have hinv' : Inv r.1 := inv_lookup hinv _ _
  have hmem : (r.2.1, k) ∈ r.1.born := by
    show ((lookup d (hash k % d.zones) k).2.1, k) ∈ (lookup d (hash k % d.zones) k).1.born
    unfold lookup
    split
    · rename_i it hf
      obtain ⟨hm, hk⟩ := find_some hf
      simp only
      rw [← hk]
      exact hinv.born _ it hm
    · simp
  exact ⟨hmem, fun k' hk' => hinv'.uniq _ _ _ hk' hmem⟩

/-- two lookups of one key with no purge/eviction of it in between return the same entry -/
theorem same_entry_while_resident (d : Disp) (i : Nat) (k : Str) :
    let r1 := lookup d i k
    (lookup r1.1 i k).2.1 = r1.2.1 := by
  intro r1
  have key : ∃ it, find (r1.1.shards i) k = some it ∧ it.eid = r1.2.1 := by
    show ∃ it, find ((lookup d i k).1.shards i) k = some it ∧ it.eid = (lookup d i k).2.1
    unfold lookup
    split
    · rename_i it hf
      obtain ⟨_, hk⟩ := find_some hf
      refine ⟨{ it with stamp := d.clock }, ?_, rfl⟩
      simp only [updF_same, touch, find, List.find?_cons]
      simp [hk]
    · rename_i hf
      refine ⟨⟨k, d.next, d.clock⟩, ?_, rfl⟩
      simp only [updF_same, LRU.insert, find]
      split
      · rename_i hc
        cases hs : d.shards i with
        | nil => simp [hs] at hc
        | cons a l => simp [List.dropLast]
      · simp
  obtain ⟨it, hf, he⟩ := key
  have := C11_resident_is_reused r1.1 i k it hf
  rw [this, he]
where
  C11_resident_is_reused (d : Disp) (i : Nat) (k : Str) (it : Item) (h : find (d.shards i) k = some it) :
      (lookup d i k).2.1 = it.eid := by
    unfold lookup; rw [h]

/-- The persistent side (the map the `store` suite replays every real badger operation on): what is read for a key of
a store is what was last written for exactly that key of exactly that store — writing any other (store, key), however
long a prefix the keys share, does not show. -/
theorem store_keys_isolated (m : StoreMap.M) (k k' : StoreMap.K) (v : Str) (h : k' ≠ k) :
    StoreMap.get (StoreMap.set m k v) k' = StoreMap.get m k' ∧ StoreMap.get (StoreMap.set m k v) k = some v :=
  ⟨StoreMap.get_set_other m k k' v h, StoreMap.get_set_same m k v⟩

example : StoreMap.get (StoreMap.set (StoreMap.set [] (0, 6) "a".toList) (0, 7) "b".toList) (0, 6) = some "a".toList := by decide

end C06
end Pike
