import Pike.Lemmas.LRU
import Pike.Lemmas.LRURefine
import Pike.Lemmas.LRUSurvive
import Pike.Model.Sys
import Pike.Facts
/-
C11 — resident cache entries never exceed the configured size.
`Facts.dispatcherSizes` is the size computation of `NewDispatcher`, translated from the Go
source on every run; `LRU` is the model of the sharded groupcache LRU.
-/
namespace Pike
namespace C11
open LRU

/-- Obligation on the extracted facts: pike's own code uses no `sync.Pool` — the key under which an entry sits in a shard's table is not a view of a buffer that a later request rewrites (a table whose keys change under it no longer finds what the recency list evicts). -/
theorem facts_no_pooled_buffers : Facts.syncPoolSites = [] := by decide

/-- Obligation on the translated size computation: for every configured size S ≥ 1 the zone
count is ≥ 1, the per-zone limit is ≥ 1 (0 would mean "unlimited"), and zones × limit ≤ S. -/
theorem sizes_ok (S : Int) (h : 1 ≤ S) :
    1 ≤ (Facts.dispatcherSizes S).1 ∧ 1 ≤ (Facts.dispatcherSizes S).2
    ∧ (Facts.dispatcherSizes S).1 * (Facts.dispatcherSizes S).2 ≤ S := by
  unfold Facts.dispatcherSizes
  simp only []
  by_cases h0 : S ≤ 0
  · omega
  · rw [if_neg h0]
    by_cases h1 : S < 1024
    · rw [if_pos h1]
      by_cases h2 : S < 8
      · rw [if_pos h2]
        have : S / S = 1 := Int.ediv_self (by omega)
        rw [this]; omega
      · rw [if_neg h2]; omega
    · rw [if_neg h1]
      have : ¬ S < 128 := by omega
      rw [if_neg this]; omega

/-- … and the limit is not smaller than the configuration asks for either: the shards together hold more than
S − zones keys (each shard's limit is the configured size divided by the number of shards, rounded down — not a
fraction of it).  A shard limit that is too small evicts entries whose fetch is still in flight long before the cache is
full, which is what C01's proviso "unless the entry is evicted during the fetch" must not be stretched to cover. -/
theorem capacity_not_wasted (S : Int) (h : 1 ≤ S) :
    S < (Facts.dispatcherSizes S).1 * ((Facts.dispatcherSizes S).2 + 1) := by
  unfold Facts.dispatcherSizes
  simp only []
  by_cases h0 : S ≤ 0
  · omega
  · rw [if_neg h0]
    by_cases h1 : S < 1024
    · rw [if_pos h1]
      by_cases h2 : S < 8
      · rw [if_pos h2]
        have : S / S = 1 := Int.ediv_self (by omega)
        rw [this]; omega
      · rw [if_neg h2]; omega
    · rw [if_neg h1]
      have : ¬ S < 128 := by omega
      rw [if_neg this]; omega

/-- the dispatcher `NewDispatcher` builds for configured size `S` -/
abbrev mk (S : Int) : Disp := ofSize S

/-- FULL STATEMENT.  For every configured size S ≥ 1, every hash function, and every sequence
of lookups and purges (of any length, over any key population), the number of keys held in
memory never exceeds S. -/
theorem resident_le_size (S : Int) (hS : 1 ≤ S) (hash : Str → Nat) (ops : List Op) :
    (resident (run hash (mk S) ops) : Int) ≤ S := by
  obtain ⟨hz, hc, hm⟩ := sizes_ok S hS
  have hinv := inv_run hash (inv_init (Facts.dispatcherSizes S).1.toNat (Facts.dispatcherSizes S).2.toNat) ops
  have hp := run_params hash (mk S) ops
  have hcap : (run hash (mk S) ops).cap ≠ 0 := by
    rw [hp.2]; simp only [mk, ofSize, init]; omega
  have := resident_le hinv hcap
  unfold mk ofSize at hp ⊢
  rw [hp.1, hp.2] at this
  simp only [init] at this
  have h2 : (((Facts.dispatcherSizes S).1.toNat * (Facts.dispatcherSizes S).2.toNat : Nat) : Int)
      = (Facts.dispatcherSizes S).1 * (Facts.dispatcherSizes S).2 := by
    rw [Int.natCast_mul, Int.toNat_of_nonneg (by omega), Int.toNat_of_nonneg (by omega)]
  have h3 : ((resident (run hash (init (Facts.dispatcherSizes S).1.toNat (Facts.dispatcherSizes S).2.toNat) ops) : Nat) : Int)
      ≤ (((Facts.dispatcherSizes S).1.toNat * (Facts.dispatcherSizes S).2.toNat : Nat) : Int) :=
    Int.ofNat_le.mpr this
  omega

/-- The other half of "least recently used": a key that has just been used is NOT the one dropped.  After a
lookup of `k` (whatever happened before), any sequence of lookups and purges of OTHER keys that is shorter than the
per-shard limit leaves `k` resident with the very entry that lookup returned — however the keys hash.  (This is also
the quantitative content of C01's proviso "as long as the key's entry is not evicted during the fetch": an entry
whose fetch is in flight is safe from eviction for the next `cap - 1` other requests of its shard.) -/
theorem recently_used_survives (hash : Str → Nat) (S : Int) (hist : List Op) (k : Str) (ops : List Op)
    (hops : ∀ op ∈ ops, op.mentions k = false) :
    let d0 := run hash (mk S) hist
    let i := hash k % d0.zones
    let r := lookup d0 i k
    ops.length < d0.cap →
      ∃ it, find ((run hash r.1 ops).shards i) k = some it ∧ it.eid = r.2.1 := by
  intro d0 i r hlen
  have hinv0 : Inv d0 := inv_run hash (inv_init _ _) hist
  have hinv1 : Inv r.1 := inv_lookup hinv0 i k
  have hpar := zones_lookup d0 i k
  have h0 : rk (r.1.shards (hash k % r.1.zones)) k = some (0, r.2.1) := by
    show rk ((lookup d0 i k).1.shards (hash k % (lookup d0 i k).1.zones)) k = _
    rw [hpar.1]; exact rk_after_lookup d0 i k
  obtain ⟨q, _, hr⟩ := run_keeps hash hinv1 k ops hops h0 (Or.inr (by
    show 0 + ops.length < (lookup d0 i k).1.cap
    rw [hpar.2]; omega))
  obtain ⟨it, hf, he, _⟩ := rk_find hr
  refine ⟨it, ?_, he⟩
  have : hash k % r.1.zones = i := by show hash k % (lookup d0 i k).1.zones = _; rw [hpar.1]
  rw [this] at hf; exact hf

/-- non-vacuity: a cache of 2048 entries (16 per shard) — fifteen lookups of other keys that all land in the shard of
`k` leave `k`'s entry where it was -/
example : (Facts.dispatcherSizes 2048).2 = 16 := by decide

/-- When a lookup has to make room, the key it drops is the least recently used key of that
shard: its last access precedes the last access of every key that stays. -/
theorem victim_is_lru (hash : Str → Nat) (S : Int) (ops : List Op) (k : Str) (v : Item) :
    let d := run hash (mk S) ops
    let i := hash k % d.zones
    find (d.shards i) k = none →
    victim d.cap (d.shards i) ⟨k, d.next, d.clock⟩ = some v →
    ∀ x ∈ (lookup d i k).1.shards i, v.stamp < x.stamp := by
  intro d i hf hv x hx
  have hinv : Inv d := inv_run hash (inv_init _ _) ops
  unfold lookup at hx
  rw [hf] at hx
  simp only [updF_same] at hx
  exact victim_is_oldest (hinv.shard i) hv x hx

/-- a key that is not resident (never seen, dropped or purged) is simply created again on its
next use: the lookup returns a brand-new entry -/
theorem dropped_is_recreated (d : Disp) (i : Nat) (k : Str) (h : find (d.shards i) k = none) :
    (lookup d i k).2 = (d.next, true) := by
  unfold lookup; rw [h]

/-- and a resident key keeps its entry -/
theorem resident_is_reused (d : Disp) (i : Nat) (k : Str) (it : Item) (h : find (d.shards i) k = some it) :
    (lookup d i k).2 = (it.eid, false) := by
  unfold lookup; rw [h]

/- non-vacuity -/
example : Facts.dispatcherSizes 1 = (1, 1) := by decide
example : Facts.dispatcherSizes 7 = (7, 1) := by decide
example : Facts.dispatcherSizes 100 = (8, 12) := by decide
example : Facts.dispatcherSizes 5000 = (128, 39) := by decide
example : resident (run (fun _ => 0) (mk 1) [.get "a".toList, .get "b".toList, .get "c".toList]) = 1 := by decide

/-- the pinned tree's defect, as a witness about the variant computation (no zone clamp):
per-zone limit 0, i.e. unlimited -/
theorem unclamped_variant_violates :
    let sizes (S : Int) : Int × Int := (if S < 1024 then 8 else 128, S / (if S < 1024 then 8 else 128))
    (sizes 7).2 = 0
    ∧ resident (run (fun _ => 0) (init 8 0) [.get "a".toList, .get "b".toList, .get "c".toList]) = 3 := by
  decide

/-- Obligation on the extracted facts: no eviction callback is installed on the shards' LRU, so an
eviction does nothing but drop the least recently used key (`LRU.insert`): the entry object is
neither re-inserted nor handed to another key. -/
theorem facts_eviction_only_drops : Facts.lruOnEvictedSites = [] := by decide

/-- simulation relation between the sharded LRU and the shard map of the concurrent model -/
def Sim (hash : Str → Nat) (enc : Str → Key) (d : Disp) (s : Sys.State) : Prop :=
  (∀ k, s.shard (enc k) = (absMap hash d k).map Eid.mk) ∧ s.next = d.next

/-- the creating branch of `Sys.step (.lookup t)` -/
def created (s0 : Sys.State) (t : Tid) (k : Key) : Sys.State :=
  { s0 with next := s0.next + 1, entries := Sys.upd s0.entries ⟨s0.next⟩ { key := k },
            shard := Sys.upd s0.shard k (some ⟨s0.next⟩), pc := Sys.upd s0.pc t (.looked ⟨s0.next⟩) }

/-- REFINEMENT.  Whatever the dispatcher does on a lookup — reuse the resident entry, or create a
new one and evict the shard's least recently used key — the concurrent model `Sys` can do with
`drop` (for the victim, if any) followed by `lookup`; the thread ends up holding the same entry id
and the two shard maps stay related.  So every theorem proved over `Sys` for arbitrary `drop`s
(C01, C02, C04, C08, C10, C18, C20) covers the real eviction order. -/
theorem lookup_simulated {reread : Bool} {hash : Str → Nat} {enc : Str → Key} (henc : ∀ a b, enc a = enc b → a = b)
    {d : Disp} {s : Sys.State} (hi : Inv d) (hp : Placed hash d) (hs : Sim hash enc d s)
    (t : Tid) (k : Str) (hpc : s.pc t = .arrived (enc k)) :
    ∃ s1 s2, (s1 = s ∨ ∃ v, Sys.step reread s (.drop (enc v)) = some s1)
      ∧ Sys.step reread s1 (.lookup t) = some s2
      ∧ s2.pc t = .looked ⟨(lookup d (hash k % d.zones) k).2.1⟩
      ∧ Sim hash enc (lookup d (hash k % d.zones) k).1 s2 := by
  cases hf : find (d.shards (hash k % d.zones)) k with
  | some it =>
    obtain ⟨h1, h2⟩ := lookup_resident_refines hi k it hf
    have hsk : s.shard (enc k) = some ⟨it.eid⟩ := by rw [hs.1 k]; simp [absMap, hf]
    refine ⟨s, { s with pc := Sys.upd s.pc t (.looked ⟨it.eid⟩) }, Or.inl rfl, ?_, ?_, ?_⟩
    · simp [Sys.step, hpc, hsk]
    · simp [h2]
    · refine ⟨fun k' => ?_, ?_⟩
      · rw [h1]; exact hs.1 k'
      · simp only [hs.2]; unfold lookup; simp [hf]
  | none =>
    obtain ⟨h1, h2⟩ := lookup_miss_refines hi hp k hf
    have hsk : s.shard (enc k) = none := by rw [hs.1 k]; simp [absMap, hf]
    have hnext : (lookup d (hash k % d.zones) k).1.next = d.next + 1 := by unfold lookup; simp [hf]
    cases hv : victim d.cap (d.shards (hash k % d.zones)) ⟨k, d.next, d.clock⟩ with
    | none =>
      rw [hv] at h1
      refine ⟨s, created s t (enc k), Or.inl rfl, ?_, ?_, ?_⟩
      · simp only [Sys.step, hpc, hsk]; rfl
      · simp [created, h2, hs.2]
      · refine ⟨fun k' => ?_, by simp [created, hnext, hs.2]⟩
        rw [h1]
        by_cases hk : k' = k
        · subst hk; simp [created, updM, hs.2]
        · have : enc k' ≠ enc k := fun e => hk (henc _ _ e)
          simp [created, updM, hk, Sys.upd_other _ _ _ _ this, hs.1 k']
    | some v =>
      rw [hv] at h1
      have hvk : v.key ≠ k := by
        intro e
        unfold victim at hv
        simp only at hv
        split at hv
        · have hvm := List.mem_of_getLast? hv
          cases hsd : d.shards (hash k % d.zones) with
          | nil => rename_i hc; simp [hsd] at hc
          | cons b r =>
            rw [hsd, List.getLast?_cons_cons] at hv
            have : v ∈ d.shards (hash k % d.zones) := hsd ▸ List.mem_of_getLast? hv
            exact find_none hf (List.mem_map.mpr ⟨v, this, e⟩)
        · simp at hv
      have hne : enc k ≠ enc v.key := fun e => hvk (henc _ _ e).symm
      refine ⟨{ s with shard := Sys.upd s.shard (enc v.key) none },
        created { s with shard := Sys.upd s.shard (enc v.key) none } t (enc k), Or.inr ⟨v.key, rfl⟩, ?_, ?_, ?_⟩
      · simp only [Sys.step, hpc, Sys.upd_other _ _ _ _ hne, hsk]; rfl
      · simp [created, h2, hs.2]
      · refine ⟨fun k' => ?_, by simp [created, hnext, hs.2]⟩
        rw [h1]
        by_cases hk : k' = k
        · subst hk; simp [created, updM, hs.2]
        · have h1' : enc k' ≠ enc k := fun e => hk (henc _ _ e)
          simp only [created, updM, hk, if_false, Sys.upd_other _ _ _ _ h1']
          by_cases hkv : k' = v.key
          · subst hkv; simp
          · have h2' : enc k' ≠ enc v.key := fun e => hkv (henc _ _ e)
            simp [hkv, Sys.upd_other _ _ _ _ h2', hs.1 k']

/-- ... and a purge of the dispatcher is the model's `purge` on the shard map -/
theorem purge_simulated {reread : Bool} {hash : Str → Nat} {enc : Str → Key} (henc : ∀ a b, enc a = enc b → a = b)
    {d : Disp} {s : Sys.State} (hs : Sim hash enc d s) (k : Str) (del : Bool) :
    ∃ s', Sys.step reread s (.purge (enc k) del) = some s' ∧ Sim hash enc (remove d (hash k % d.zones) k) s' := by
  refine ⟨_, rfl, fun k' => ?_, by simpa [remove] using hs.2⟩
  rw [remove_refines]
  by_cases hk : k' = k
  · subst hk; simp [updM]
  · have : enc k' ≠ enc k := fun e => hk (henc _ _ e)
    simp [updM, hk, Sys.upd_other _ _ _ _ this, hs.1 k']

/-- the hypotheses of the refinement hold in every reachable dispatcher state -/
theorem refinement_hyps_reachable (hash : Str → Nat) (S : Int) (ops : List Op) :
    Inv (run hash (ofSize S) ops) ∧ Placed hash (run hash (ofSize S) ops) :=
  ⟨inv_run hash (inv_init _ _) ops, placed_run hash (placed_init hash _ _) ops⟩

end C11
end Pike
