import Pike.Lemmas.LRU
import Pike.Facts
/-
C11 — resident cache entries never exceed the configured size.
`Facts.dispatcherSizes` is the size computation of `NewDispatcher`, translated from the Go
source on every run; `LRU` is the model of the sharded groupcache LRU.
-/
namespace Pike
namespace C11
open LRU

/-- Obligation on the translated size computation: for every configured size S ≥ 1 the zone
count is ≥ 1, the per-zone limit is ≥ 1 (0 would mean "unlimited"), and zones × limit ≤ S. -/
theorem sizes_ok (S : Int) (h : 1 ≤ S) :
    1 ≤ (Facts.dispatcherSizes S).1 ∧ 1 ≤ (Facts.dispatcherSizes S).2
    ∧ (Facts.dispatcherSizes S).1 * (Facts.dispatcherSizes S).2 ≤ S := by
  unfold Facts.dispatcherSizes
  simp only []
  by_cases h0 : S ≤ 0
  · omega
  · rw [if_neg h0]
    by_cases h1 : S < 1024
    · rw [if_pos h1]
      by_cases h2 : S < 8
      · rw [if_pos h2]
        have : S / S = 1 := Int.ediv_self (by omega)
        rw [this]; omega
      · rw [if_neg h2]; omega
    · rw [if_neg h1]
      have : ¬ S < 128 := by omega
      rw [if_neg this]; omega

/-- the dispatcher `NewDispatcher` builds for configured size `S` -/
abbrev mk (S : Int) : Disp := ofSize S

/-- FULL STATEMENT.  For every configured size S ≥ 1, every hash function, and every sequence
of lookups and purges (of any length, over any key population), the number of keys held in
memory never exceeds S. -/
theorem resident_le_size (S : Int) (hS : 1 ≤ S) (hash : Str → Nat) (ops : List Op) :
    (resident (run hash (mk S) ops) : Int) ≤ S := by
  obtain ⟨hz, hc, hm⟩ := sizes_ok S hS
  have hinv := inv_run hash (inv_init (Facts.dispatcherSizes S).1.toNat (Facts.dispatcherSizes S).2.toNat) ops
  have hp := run_params hash (mk S) ops
  have hcap : (run hash (mk S) ops).cap ≠ 0 := by
    rw [hp.2]; simp only [mk, ofSize, init]; omega
  have := resident_le hinv hcap
  unfold mk ofSize at hp ⊢
  rw [hp.1, hp.2] at this
  simp only [init] at this
  have h2 : (((Facts.dispatcherSizes S).1.toNat * (Facts.dispatcherSizes S).2.toNat : Nat) : Int)
      = (Facts.dispatcherSizes S).1 * (Facts.dispatcherSizes S).2 := by
    rw [Int.natCast_mul, Int.toNat_of_nonneg (by omega), Int.toNat_of_nonneg (by omega)]
  have h3 : ((resident (run hash (init (Facts.dispatcherSizes S).1.toNat (Facts.dispatcherSizes S).2.toNat) ops) : Nat) : Int)
      ≤ (((Facts.dispatcherSizes S).1.toNat * (Facts.dispatcherSizes S).2.toNat : Nat) : Int) :=
    Int.ofNat_le.mpr this
  omega

/-- When a lookup has to make room, the key it drops is the least recently used key of that
shard: its last access precedes the last access of every key that stays. -/
theorem victim_is_lru (hash : Str → Nat) (S : Int) (ops : List Op) (k : Str) (v : Item) :
    let d := run hash (mk S) ops
    let i := hash k % d.zones
    find (d.shards i) k = none →
    victim d.cap (d.shards i) ⟨k, d.next, d.clock⟩ = some v →
    ∀ x ∈ (lookup d i k).1.shards i, v.stamp < x.stamp := by
  intro d i hf hv x hx
  have hinv : Inv d := inv_run hash (inv_init _ _) ops
  unfold lookup at hx
  rw [hf] at hx
  simp only [updF_same] at hx
  exact victim_is_oldest (hinv.shard i) hv x hx

/-- a key that is not resident (never seen, dropped or purged) is simply created again on its
next use: the lookup returns a brand-new entry -/
theorem dropped_is_recreated (d : Disp) (i : Nat) (k : Str) (h : find (d.shards i) k = none) :
    (lookup d i k).2 = (d.next, true) := by
  unfold lookup; rw [h]

/-- and a resident key keeps its entry -/
theorem resident_is_reused (d : Disp) (i : Nat) (k : Str) (it : Item) (h : find (d.shards i) k = some it) :
    (lookup d i k).2 = (it.eid, false) := by
  unfold lookup; rw [h]

/- non-vacuity -/
example : Facts.dispatcherSizes 1 = (1, 1) := by decide
example : Facts.dispatcherSizes 7 = (7, 1) := by decide
example : Facts.dispatcherSizes 100 = (8, 12) := by decide
example : Facts.dispatcherSizes 5000 = (128, 39) := by decide
example : resident (run (fun _ => 0) (mk 1) [.get "a".toList, .get "b".toList, .get "c".toList]) = 1 := by decide

/-- the pinned tree's defect, as a witness about the variant computation (no zone clamp):
per-zone limit 0, i.e. unlimited -/
theorem unclamped_variant_violates :
    let sizes (S : Int) : Int × Int := (if S < 1024 then 8 else 128, S / (if S < 1024 then 8 else 128))
    (sizes 7).2 = 0
    ∧ resident (run (fun _ => 0) (init 8 0) [.get "a".toList, .get "b".toList, .get "c".toList]) = 3 := by
  decide

end C11
end Pike
