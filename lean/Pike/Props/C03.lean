import Pike.Lemmas.Fresh
import Pike.Spec.Skeleton
import Pike.Lemmas.SysUps
import Pike.Props.C01
/-
C03 — only responses the origin marked shareable are ever stored.
Property theorems only; helper lemmas are in Pike/Lemmas/Fresh.lean.
The configuration `c` is what the Go source denotes *now* (`Fresh.cfgOfFacts`, computed
from the regenerated `Pike.Facts`).
-/
namespace Pike
namespace C03
open Str Fresh

/-- Obligation on the extracted facts: the three regexes and the Set-Cookie test have the
shape under which the general theorem applies (case-insensitive alternation containing
no-cache, no-store and private; presence test on all Set-Cookie values). -/
theorem facts_ok : cfgOfFacts.map (fun c => decide (CfgOK c)) = some true := by decide

/-- Obligation on the extracted facts (all non-test files): the upstream exchange is performed by `net/http`'s own
transport — pike declares no `RoundTrip` of its own and builds no `http.Client` in the request path.  A wrapper
(retry after a lost connection, a client that follows redirects) changes how often a request reaches the origin and
which of the origin's answers is judged and stored; "forwarded exactly once" and "stored only if the origin marked it
shareable" are stated about the exchange the model sees: one request, one answer.  (Dynamic counterpart: suite `fault`.) -/
theorem facts_upstream_exchange_is_plain :
    Facts.roundTripperImpls = [] ∧ Facts.requestPathHTTPClients = [] := by decide

/-- Obligation on the regenerated statement skeletons of `getCacheMaxAge` and `requestIsPass`: they are,
statement for statement, what `Fresh.cacheMaxAge` / `Fresh.requestIsPass` transcribe (Set-Cookie test,
joined Cache-Control, the three regular expressions in this order, s-maxage before max-age, Age subtracted
last on every path). -/
theorem skeleton_transcribed :
    Facts.skel_getCacheMaxAge = Spec.Skeleton.getCacheMaxAge ∧ Facts.skel_requestIsPass = Spec.Skeleton.requestIsPass := by
  constructor <;> rfl

theorem cfg_ok {c : Cfg} (hc : cfgOfFacts = some c) : CfgOK c := by
  have := facts_ok
  rw [hc] at this
  simpa using this

/-- FULL STATEMENT.  Whatever the method, the position of the request (fetcher or not),
and the upstream header set: if the cache middleware stores the response with lifetime
`L`, then the method is GET/HEAD, no Set-Cookie field is present, a Cache-Control field is
present, no directive token (any order, spacing, casing, split over lines or not) is
no-cache / no-store / private, `L > 0`, and `L` is (s-maxage, else max-age) minus Age.
The status code, `Expires` and every other header do not occur in the decision at all. -/
theorem stored_imp_shareable {c : Cfg} (hc : cfgOfFacts = some c)
    (method : Str) (fetching hasResp : Bool) (h : Header) (L : Int)
    (hs : storeDecision c method fetching hasResp h = some L) :
    Spec.C03.shareableOK method h L = true := by
  have hok := cfg_ok hc
  unfold storeDecision at hs
  split at hs
  · simp at hs
  · rename_i hpass
    split at hs
    · simp at hs
    · dsimp only at hs
      split at hs
      · rename_i hcond
        simp only [Option.some.injEq] at hs
        simp only [Bool.and_eq_true, decide_eq_true_eq] at hcond
        have hpos : L > 0 := by rw [← hs]; exact hcond.1
        obtain ⟨h1, h2, h3, h4⟩ := cacheMaxAge_pos_shareable c hok h L hs hpos
        have hm : (method = "GET".toList ∨ method = "HEAD".toList) := by
          unfold requestIsPass at hpass
          by_cases hg : method = "GET".toList
          · exact Or.inl hg
          · by_cases hh : method = "HEAD".toList
            · exact Or.inr hh
            · exfalso; apply hpass
              rw [Bool.and_eq_true]
              exact ⟨by simpa using hg, by simpa using hh⟩
        unfold Spec.C03.shareableOK
        simp only [Bool.and_eq_true, Bool.or_eq_true, decide_eq_true_eq, Bool.not_eq_true']
        exact ⟨⟨⟨⟨⟨hm, h1⟩, h2⟩, h3⟩, hpos⟩, h4⟩
      · simp at hs

/-- a request that is not GET/HEAD never stores -/
theorem non_get_head_never_stored (c : Cfg) (method : Str) (f r : Bool) (h : Header)
    (hm : method ≠ "GET".toList ∧ method ≠ "HEAD".toList) :
    storeDecision c method f r h = none := by
  have : requestIsPass method = true := by
    unfold requestIsPass
    rw [Bool.and_eq_true]
    exact ⟨by simpa using hm.1, by simpa using hm.2⟩
  unfold storeDecision
  rw [if_pos this]

/-- a response that does not qualify is not stored, and a request that is not the key's
fetcher (a hit-for-pass or waiter request) never stores what it fetched -/
theorem only_fetcher_stores (c : Cfg) (method : Str) (r : Bool) (h : Header) :
    storeDecision c method false r h = none := by
  unfold storeDecision; split <;> simp

/-- the decision depends on nothing but Set-Cookie, Cache-Control and Age -/
theorem noninterference (c : Cfg) (h h' : Header)
    (h1 : h.values hSetCookie = h'.values hSetCookie)
    (h2 : h.values hCacheControl = h'.values hCacheControl)
    (h3 : h.values hAge = h'.values hAge) :
    cacheMaxAge c h = cacheMaxAge c h' := by
  unfold cacheMaxAge setCookiePresent Header.get
  rw [h1, h2, h3]

/-- the stored lifetime is always a positive int64, also for huge max-age / Age values -/
theorem overflow_safe {c : Cfg} (hc : cfgOfFacts = some c)
    (method : Str) (f r : Bool) (h : Header) (L : Int)
    (hs : storeDecision c method f r h = some L) : 0 < L := by
  have := stored_imp_shareable hc method f r h L hs
  unfold Spec.C03.shareableOK at this
  simp only [Bool.and_eq_true, decide_eq_true_eq] at this
  exact this.1.2

/-- FULL STATEMENT (the label is truthful).  In every reachable state of the concurrent system
(any schedule, clock, store and upstream behaviour), a finished request that was answered as a
hit has completed ZERO upstream requests, and every other finished request — the key's fetcher,
a hit-for-pass or non-GET/HEAD pass, a waiter told to pass — has completed exactly ONE. -/
theorem label_truthful {s : Sys.State} (h : Sys.Reachable Facts.waiterRereadsEntry s) (t : Tid) :
    (∀ r a, s.pc t = .done (.hit r a) → s.ups t = 0)
    ∧ (∀ o, s.pc t = .done (.fetched o) → s.ups t = 1)
    ∧ (s.pc t = .done .passed → s.ups t = 1) := by
  have hr : Sys.Reachable false s := by rw [C01.facts_handover.1] at h; exact h
  have hu := Sys.invU_reachable hr t
  refine ⟨fun r a hp => ?_, fun o hp => ?_, fun hp => ?_⟩ <;> rw [hu, hp] <;> rfl

/- non-vacuity: the hypotheses are met by concrete inputs, and both outcomes occur -/
example : ∃ c, cfgOfFacts = some c := ⟨_, rfl⟩
example : (cfgOfFacts.map fun c => storeDecision c "GET".toList true true
    [("Cache-Control".toList, ["public, max-age=60".toList]), ("Age".toList, ["10".toList])])
    = some (some 50) := by decide
example : (cfgOfFacts.map fun c => storeDecision c "GET".toList true true
    [("Cache-Control".toList, ["max-age=60".toList, "s-maxage=5".toList])])
    = some (some 5) := by decide

/-- The two defects of the pinned tree, kept as witnesses about the *variant* models:
with a case-sensitive alternation `Private` is stored ... -/
theorem case_sensitive_variant_violates :
    let c : Cfg := ⟨⟨false, Spec.C03.forbidden⟩, sMaxLit, maxLit, true⟩
    let h : Header := [("Cache-Control".toList, ["Private, max-age=60".toList])]
    storeDecision c "GET".toList true true h = some 60
    ∧ Spec.C03.shareableOK "GET".toList h 60 = false := by decide

/-- ... and with `Get("Set-Cookie") != ""` an empty first Set-Cookie value hides the rest. -/
theorem first_value_variant_violates :
    let c : Cfg := ⟨⟨true, Spec.C03.forbidden⟩, sMaxLit, maxLit, false⟩
    let h : Header := [("Set-Cookie".toList, [[], "a=b".toList]),
                       ("Cache-Control".toList, ["max-age=60".toList])]
    storeDecision c "GET".toList true true h = some 60
    ∧ Spec.C03.shareableOK "GET".toList h 60 = false := by decide

end C03
end Pike
