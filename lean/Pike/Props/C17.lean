import Pike.Model.Config
import Pike.Spec.Skeleton
import Pike.Model.Fields
import Pike.Facts
/-
C17 — accepted configurations are closed under references and round-trip (PARTIAL: the
struct-tag validators and YAML are library code; they enter as `structOK` and the `Yaml`
hypothesis and are compared in the `config` suite).
-/
namespace Pike
namespace C17
open Config

/-- Obligation on the regenerated statement skeletons of the save / read path (config/config.go, config/etcd_client.go):
`Write` validates before anything is marshalled or handed to the client; `Read` unmarshals exactly the client's bytes;
the etcd client stores and returns the bytes under its key as they are and reports every change of the key.  The file
client is exercised by the `config` suite (round trips, refused writes, the real watcher); etcd cannot be run in the
sandbox, so for it this obligation is the tie. -/
theorem save_path_transcribed :
    Facts.skel_Write = Spec.Skeleton.config_Write ∧ Facts.skel_Read = Spec.Skeleton.config_Read
    ∧ Facts.skel_etcdClient_Get = Spec.Skeleton.config_etcdClient_Get
    ∧ Facts.skel_etcdClient_Set = Spec.Skeleton.config_etcdClient_Set
    ∧ Facts.skel_etcdClient_Watch = Spec.Skeleton.config_etcdClient_Watch := by
  refine ⟨?_, ?_, ?_, ?_, ?_⟩ <;> rfl

/-- Obligation on the extracted facts (main.go `update`, the registries' `Reset`): an accepted
configuration is applied bottom-up — compress, caches, upstreams, locations, servers — so that
nothing is visible before what it refers to; a replaced upstream is stored over the old one BEFORE
the old one is destroyed (no moment without an entry under a name both configurations define), and a
location list is swapped in one assignment. -/
theorem facts_applied_without_gaps :
    Facts.reloadOrder = ["compress.Reset", "cache.ResetDispatchers", "upstream.ResetWithOnStats", "location.Reset", "server.Reset", "server.Start"]
    ∧ Facts.upstreamsResetStoresBeforeDestroy = true ∧ Facts.locationsSetSingleSwap = true := by decide

theorem firstBad_ok {vs : List Verdict} (h : firstBad vs = .ok) : ∀ v ∈ vs, v = .ok := by
  induction vs with
  | nil => simp
  | cons v r ih =>
    cases v <;> simp only [firstBad, reduceCtorEq] at h
    intro w hw
    rcases List.mem_cons.mp hw with rfl | hw
    · rfl
    · exact ih h w hw

/-- FULL STATEMENT (closure).  If `Validate` accepts a configuration then every location names an
existing upstream, and every server names existing locations, an existing cache (or none) and an
existing compress profile (or none). -/
theorem validate_closed (structOK : Bool) (c : Cfg) (h : validate structOK c = .ok) :
    structOK = true
    ∧ (∀ l ∈ c.locations, l.upstream ∈ c.upstreams)
    ∧ (∀ s ∈ c.servers, (∀ n ∈ s.locations, ∃ l ∈ c.locations, l.name = n)
        ∧ (s.cache = [] ∨ s.cache ∈ c.caches) ∧ (s.compress = [] ∨ s.compress ∈ c.compresses)) := by
  unfold validate at h
  split at h
  · simp at h
  · rename_i hs
    split at h
    · simp at h
    · rename_i hl
      refine ⟨by simpa using hs, ?_, ?_⟩
      · intro l hlm
        have hl' : ∀ x ∈ c.locations, x.upstream ∈ c.upstreams := by simpa using hl
        exact hl' l hlm
      · intro s hsm
        have := firstBad_ok h (checkServer c s) (List.mem_map.mpr ⟨s, hsm, rfl⟩)
        unfold checkServer at this
        split at this
        · simp at this
        · rename_i h1
          split at this
          · simp at this
          · rename_i h2
            split at this
            · simp at this
            · rename_i h3
              refine ⟨?_, ?_, ?_⟩
              · have h1' : ∀ x ∈ s.locations, ∃ l ∈ c.locations, l.name = x := by simpa using h1
                exact h1'
              · have h2' : ¬ s.cache = [] → s.cache ∈ c.caches := by simpa using h2
                by_cases hc : s.cache = []
                · exact Or.inl hc
                · exact Or.inr (h2' hc)
              · have h3' : ¬ s.compress = [] → s.compress ∈ c.compresses := by simpa using h3
                by_cases hc : s.compress = []
                · exact Or.inl hc
                · exact Or.inr (h3' hc)

/-- FULL STATEMENT (resolution).  Any accepted configuration whose servers name a cache (the
struct validation requires it), once applied, lets every server resolve everything the request
path looks up: its cache, its locations, and the upstream of each of its locations. -/
theorem accepted_resolves (structOK : Bool) (c : Cfg) (h : validate structOK c = .ok)
    (s : Srv) (hs : s ∈ c.servers) (hcache : s.cache ≠ []) : resolves c s := by
  obtain ⟨_, hl, hsv⟩ := validate_closed structOK c h
  obtain ⟨h1, h2, _⟩ := hsv s hs
  refine ⟨?_, h1, fun l hlm _ => hl l hlm⟩
  rcases h2 with h2 | h2
  · exact absurd h2 hcache
  · exact h2

/-- the round trip: with a YAML codec that round-trips configurations, `Read (Write c) = c` up to
the version stamp — stated over an abstract codec, the library is exercised in the suite -/
theorem write_read {C : Type} (marshal : C → Str) (unmarshal : Str → Option C) (stamp : C → C)
    (hrt : ∀ c, unmarshal (marshal c) = some c) (c : C) :
    unmarshal (marshal (stamp c)) = some (stamp c) := hrt (stamp c)

/- non-vacuity: an accepted configuration and each kind of dangling reference -/
def good : Cfg := ⟨["zip".toList], ["c1".toList], ["u1".toList], [⟨"l1".toList, "u1".toList⟩],
  [⟨":80".toList, ["l1".toList], "c1".toList, "zip".toList⟩]⟩
example : validate true good = .ok := by decide
example : validate true { good with upstreams := [] } = .upstreamNotFound := by decide
example : validate true { good with locations := [] } = .locationNotFound := by decide
example : validate true { good with caches := [] } = .cacheNotFound := by decide
example : validate true { good with compresses := [] } = .compressNotFound := by decide
example : validate false good = .structErr := by decide

/-- "All fields are well-formed", for the fields whose rule is pike's own (`Model/Fields.lean`, compared with
`Validate` on every single-field probe of the `config` suite): an accepted policy is the empty string or EXACTLY one of
the four names the upstream library switches on (not another spelling, not a fragment, not a list); an accepted
address has the scheme http or https (in any letter case, as `net/url` reports it); an accepted name is non-empty and at
most twenty runes long. -/
theorem accepted_fields_wellformed (policy addr name : Str)
    (hp : Fields.policyOK policy = true) (ha : Fields.addrOK addr = true) (hn : Fields.nameOK name = true) :
    (policy = [] ∨ policy ∈ Fields.policies)
    ∧ (Fields.scheme addr = some "http".toList ∨ Fields.scheme addr = some "https".toList)
    ∧ (name ≠ [] ∧ Fields.runeCount name ≤ 20) := by
  refine ⟨?_, Fields.addr_scheme_exact addr ha, Fields.name_bounded name hn⟩
  by_cases h : policy = []
  · exact Or.inl h
  · exact Or.inr (Fields.policy_exact policy hp h)

/-- near misses are rejected (each of these was accepted by a seeded change of the validator's membership helper) -/
example : Fields.policyOK "First".toList = false ∧ Fields.policyOK "round".toList = false
    ∧ Fields.policyOK "first,random".toList = false ∧ Fields.addrOK "localhost:3015".toList = false
    ∧ Fields.addrOK "//127.0.0.1:1".toList = false ∧ Fields.addrOK "ttp://a.test".toList = false
    ∧ Fields.addrOK "HTTPS://a.test".toList = true ∧ Fields.policyOK "roundRobin".toList = true := by decide

end C17
end Pike
