import Pike.Model.Race
import Pike.Props.C08
import Pike.Props.C06
import Pike.Facts
/-
C20 — concurrent requests, purges and reloads never corrupt shared state.
Three layers: (1) the lockset theorem about abstract executions, (2) the extracted access table
(regenerated from the Go source: which field is touched under which lock) satisfies the
discipline the theorem needs, (3) the protocol invariants of `Sys` (every response handed out
was fetched for that key).  Outside: the Go memory model itself, the libraries (elton,
net/http, sync.Map, atomics), and that the syntactic lock scopes are the dynamic ones.
-/
namespace Pike
namespace C20
open Race

/-- Obligation on the extracted facts: pike's own code uses no `sync.Pool` — no value that one request holds is backed by memory another request writes (the models treat them as immutable values). -/
theorem facts_no_pooled_buffers : Facts.syncPoolSites = [] := by decide

/-- (1) FULL STATEMENT about executions: under mutex semantics, if every write of a location
holds lock `l` in write mode and every read holds it in read or write mode, any two conflicting
accesses by different threads are ordered by happens-before — no data race on that location. -/
theorem lockset_racefree (tr : Trace) (hwf : WF tr) (x l : Nat)
    (hdisc : ∀ i t w, isAccess tr i t x w → Holds tr i t l w ∨ (w = false ∧ Holds tr i t l true))
    (i j t u : Nat) (ai aj : Bool) (hij : i < j) (htu : t ≠ u) (hconf : ai = true ∨ aj = true)
    (hi : isAccess tr i t x ai) (hj : isAccess tr j u x aj) : HB tr i j :=
  discipline_racefree tr hwf x l hdisc i j t u ai aj hij htu hconf hi hj

/-- an access satisfies the discipline: on a thread-local (freshly built) object, or a write
under the write lock, or a read under either lock -/
def guarded (a : Facts.Access) : Bool :=
  a.fresh || (if a.write then a.lockW else (a.lockW || a.lockR))

/-- (2) Obligation on the extracted access table: every access to the mutable fields of a cache
entry (status, chanList, response, createdAt, expiredAt), to a shard's LRU, to the server's
reloadable settings and to the location list is guarded by that object's mutex, and no entry
field is read after a channel receive (the waiter uses what was handed over). -/
theorem table_guarded :
    Facts.accessTable.all (fun a => guarded a && !(a.typ == "httpCache" && a.afterRecv)) = true := by decide

/-- the table is not empty and covers the functions of the request path -/
theorem table_covers :
    (["httpCache.get", "httpCache.Cacheable", "httpCache.HitForPass", "httpCache.Age", "httpCache.saveToStore",
      "httpCache.initFromStore", "httpLRUCache.getCache", "httpLRUCache.addCache", "httpLRUCache.removeCache",
      "server.Update", "server.GetCache", "server.GetLocations", "server.GetCompress", "Locations.Set",
      "Locations.GetLocations"].all fun f => Facts.accessTable.any (fun a => a.fn == f)) = true := by decide

/-- no function holds two of these mutexes at once (in particular never a shard mutex together
with an entry mutex), and the only blocking operation performed under a mutex is the completer's
send to a registered waiter — whose receiver takes no lock before receiving: no wait-for cycle
can close (C02's "no deadlock between requests, purges and completions"; store calls made under
a mutex are assumed to return) -/
theorem no_lock_cycle :
    Facts.lockNesting = []
    ∧ Facts.blockingUnderLock.all (fun s => s == "httpCache.Cacheable:send:httpCache" || s == "httpCache.HitForPass:send:httpCache") = true := by
  decide

/-- (3) every response handed out is one fetched for that key: restated from C04/C08/C06 -/
theorem served_is_fetched_for_key {s s' : Sys.State} (h : Sys.ReachableH s) (t : Tid) (e : Eid) (so : Load) (r : Option Nat)
    (hpc : s.pc t = .looked e) (hon : Sys.Honest s (.get t so))
    (hs : Sys.step false s (.get t so) = some s') (hserve : s'.pc t = .hitServe e r) :
    ∃ n c x, r = some n ∧ ((s.entries e).key, n, c, x) ∈ s'.fetched ∧ c < x ∧ s.now ≤ x :=
  C04.hit_within_lifetime h t e so r hpc hon hs hserve

/- non-vacuity of (1): a two-thread trace in which both accesses hold the lock, and the theorem's
   conclusion is the expected chain write(t0) -> unlock(t0) -> lock(t1) -> read(t1) -/
example :
    let tr : Trace := [⟨0, .acq 7 true⟩, ⟨0, .write 1⟩, ⟨0, .rel 7⟩, ⟨1, .acq 7 false⟩, ⟨1, .read 1⟩, ⟨1, .rel 7⟩]
    Holds tr 1 0 7 true ∧ Holds tr 4 1 7 false ∧ isAccess tr 1 0 1 true ∧ isAccess tr 4 1 1 false := by
  refine ⟨⟨0, by decide, rfl, fun r h1 h2 => by omega⟩, ⟨3, by decide, rfl, fun r h1 h2 => by omega⟩, rfl, rfl⟩

end C20
end Pike
