import Pike.Props.C02
/-
C07 — hit-for-pass: uncacheable keys bypass cache and queueing until it lapses.
-/
namespace Pike
namespace C07
open Sys Entry

/-- Obligation on the extracted facts: the default period is 300 s and is applied exactly when
the configured period is ≤ 0 (unset, "500ms" and "-5s" all convert to ≤ 0 seconds). -/
theorem facts_ok : Facts.defaultHitForPassSeconds = 300 ∧ Facts.hitForPassGuard = "ttl<=0" := by decide

/-- Obligation on the extracted facts (upstream/upstream.go): the transport of an upstream sets no
limit on concurrent connections per host — `net/http` would otherwise queue the passes of a burst
behind one another although the cache layer forwarded them independently. -/
theorem facts_passes_not_capped :
    (Facts.transportFields.contains "MaxConnsPerHost") = false := by decide

/-- FULL STATEMENT (during the period).  While the marker is valid every lookup returns
"pass" at once: the caller is not registered as a waiter, nothing is served from cache, and
the entry is left exactly as it was — so any number of such requests proceed to the upstream
independently (no step of one changes what another sees). -/
theorem pass_immediately (t : Tid) (now : Int) (so : Load) (e : Entry)
    (hst : e.status = .hitForPass) (hvalid : now ≤ e.expiredAt) :
    Entry.get t now so e = (e, .pass) := by
  have h1 : Entry.load e so = e := Entry.load_keeps so (by simp [hst])
  have h2 : Entry.expireIf now e = e := by
    unfold Entry.expireIf; rw [if_neg]; intro hc; omega
  unfold Entry.get
  rw [h1, h2]
  unfold Entry.getCore
  simp [hst]

/-- the same at system level: the step moves only the caller, straight into its own upstream
phase -/
theorem pass_is_independent {s s' : State} (t : Tid) (e : Eid) (so : Load)
    (hpc : s.pc t = .looked e) (hst : (s.entries e).status = .hitForPass) (hvalid : s.now ≤ (s.entries e).expiredAt)
    (hs : step Facts.waiterRereadsEntry s (.get t so) = some s') :
    s'.pc t = .passUp ∧ s'.entries = s.entries ∧ s'.queue = s.queue ∧ s'.lock = s.lock
    ∧ ∀ u, u ≠ t → s'.pc u = s.pc u := by
  have hg := pass_immediately t s.now so (s.entries e) hst hvalid
  simp only [step, hpc, hg] at hs
  split at hs
  · simp only [Option.some.injEq] at hs; subst hs
    refine ⟨by simp, ?_, rfl, rfl, fun u hu => by simp [upd_other _ _ _ _ hu]⟩
    funext x
    by_cases hx : x = e
    · subst hx; simp
    · simp [upd_other _ _ _ _ hx]
  · simp at hs

/-- FULL STATEMENT (the period).  The marker set at time `now` is valid through
`now + ttl` for a positive configured period, and through `now + 300` otherwise. -/
theorem default_period (now ttl : Int) (e : Entry) :
    (Entry.hitForPass now ttl e).status = .hitForPass
    ∧ (Entry.hitForPass now ttl e).expiredAt = now + (if ttl ≤ 0 then 300 else ttl) := by
  refine ⟨rfl, ?_⟩
  simp only [Entry.hitForPass, Entry.hfpTtl, facts_ok.1]

/-- every way a fetch can fail to be cacheable (uncacheable, nil response, error, timeout,
panic: all reach the deferred `HitForPass`) sets the marker and releases the waiter list -/
theorem set_on_failure (now hfp : Int) (e : Entry) :
    (completeEntry .fail now hfp e).status = .hitForPass ∧ (completeEntry .fail now hfp e).waiters = [] := ⟨rfl, rfl⟩

/-- FULL STATEMENT (lapse).  The first lookup after the period makes its caller the single
prober (the entry is `fetching` again; by C01 later arrivals wait for it) ... -/
theorem lapse_single_probe (t : Tid) (now : Int) (so : Load) (e : Entry) (h : Entry.OK e)
    (hst : e.status = .hitForPass) (hexp : e.expiredAt < now) :
    (Entry.get t now so e).2 = .fetch ∧ (Entry.get t now so e).1.status = .fetching
    ∧ ∀ u so', (Entry.get u now so' (Entry.get t now so e).1).2 = .wait := by
  have hx := h.exp_nonzero (Or.inr hst)
  have h1 : Entry.load e so = e := Entry.load_keeps so (by simp [hst])
  have hres : Entry.get t now so e = ({ e with status := .fetching, expiredAt := 0, waiters := [] }, .fetch) := by
    unfold Entry.get
    rw [h1]
    unfold Entry.expireIf
    rw [if_pos ⟨hx, hexp⟩]
    rfl
  rw [hres]
  refine ⟨rfl, rfl, fun u so' => ?_⟩
  unfold Entry.get Entry.load Entry.expireIf Entry.getCore
  simp

/-- ... and the key becomes cacheable if the upstream now allows it -/
theorem becomes_cacheable (now ttl hfp : Int) (r : Nat) (e : Entry) :
    (completeEntry (.cacheable ttl r) now hfp e).status = .hit
    ∧ (completeEntry (.cacheable ttl r) now hfp e).resp = some r
    ∧ (completeEntry (.cacheable ttl r) now hfp e).expiredAt = now + ttl := ⟨rfl, rfl, rfl⟩

/- non-vacuity: uncacheable answer, two independent passes during the period, lapse, one prober,
   one waiter, then cacheable -/
example :
    (match run false (init 100 false)
      [.arrive ⟨0⟩ ⟨0⟩, .lookup ⟨0⟩, .get ⟨0⟩ .noStore, .upEnd ⟨0⟩ .fail, .complete ⟨0⟩ 0, .saved ⟨0⟩ true,
       .tick 300, .arrive ⟨1⟩ ⟨0⟩, .lookup ⟨1⟩, .get ⟨1⟩ .noStore, .arrive ⟨2⟩ ⟨0⟩, .lookup ⟨2⟩, .get ⟨2⟩ .noStore,
       .tick 1, .arrive ⟨3⟩ ⟨0⟩, .lookup ⟨3⟩, .get ⟨3⟩ .noStore, .arrive ⟨4⟩ ⟨0⟩, .lookup ⟨4⟩, .get ⟨4⟩ .noStore,
       .upEnd ⟨3⟩ (.cacheable 60 9), .complete ⟨3⟩ 0] with
     | some s => decide (s.pc ⟨1⟩ = .passUp) && decide (s.pc ⟨2⟩ = .passUp) && decide (s.pc ⟨4⟩ = .registered ⟨0⟩)
                 && decide ((s.entries ⟨0⟩).status = .hit)
     | none => false) = true := by decide

end C07
end Pike
