import Pike.Base.Str
/-
The regular-expression subset that pike's fixed regexes use, interpreted from the
source text extracted from the Go files:
  * optional leading `(?i)`
  * an alternation of plain literals           (`no-cache|no-store|private`)
  * a plain literal followed by `(\d+)`        (`s-maxage=(\d+)`)
Anything else does not parse (`none`), and theorems depending on it stop checking.
-/
namespace Pike
namespace MiniRe
open Str

/-- bytes that stand for themselves in Go's RE2 syntax -/
def plainChar (c : Char) : Bool :=
  c.isAlphanum || c = '-' || c = '=' || c = '/' || c = ' ' || c = '_' || c = ',' || c = ';'

def stripCI (src : Str) : Bool × Str :=
  match src with
  | '(' :: '?' :: 'i' :: ')' :: r => (true, r)
  | r => (false, r)

structure Alt where
  ci : Bool
  lits : List Str
deriving Repr, DecidableEq

def parseAlt (src : Str) : Option Alt :=
  let (ci, body) := stripCI src
  let lits := splitOn '|' body
  if lits.all (fun l => !l.isEmpty && l.all plainChar) then some ⟨ci, lits⟩ else none

def Alt.matches (r : Alt) (s : Str) : Bool :=
  if r.ci then r.lits.any (fun l => contains (fold l) (fold s))
  else r.lits.any (fun l => contains l s)

structure LitDigits where
  ci : Bool
  lit : Str
deriving Repr, DecidableEq

def digitsSuffix : Str := "(\\d+)".toList

def parseLitDigits (src : Str) : Option LitDigits :=
  let (ci, body) := stripCI src
  let n := body.length - digitsSuffix.length
  let lit := body.take n
  if body.drop n = digitsSuffix && !lit.isEmpty && lit.all plainChar then some ⟨ci, lit⟩ else none

/-- leftmost occurrence of `lit` followed by at least one digit; the digits, greedily -/
def findDigitsCS (lit : Str) : Str → Option Str
  | [] => none
  | c :: cs =>
    if hasPrefix lit (c :: cs) then
      let d := takeDigits ((c :: cs).drop lit.length)
      if d.isEmpty then findDigitsCS lit cs else some d
    else findDigitsCS lit cs

def LitDigits.find (r : LitDigits) (s : Str) : Option Str :=
  if r.ci then findDigitsCS (fold r.lit) (fold s) else findDigitsCS r.lit s

end MiniRe
end Pike
