/-
Byte strings.  A Go `string`/`[]byte` is modelled as `List Char` in which every
`Char` stands for ONE BYTE (code points 0..255, "Latin-1 style").  ASCII literals
can therefore be written "like this".toList, and bytes >= 0x80 never collide with
ASCII.  All functions here are structurally recursive so that the kernel can
evaluate them (`decide`) on the literals extracted from the Go source.
-/
namespace Pike

abbrev Str := List Char

namespace Str

/-- ASCII lower-casing of one byte (what Go's `(?i)` does on ASCII input; the two
non-ASCII runes U+017F and U+212A that also fold to `s`/`k` are multi-byte in UTF-8
and are excluded from the generators, see DESIGN.md). -/
def foldC (c : Char) : Char :=
  if 'A' ≤ c ∧ c ≤ 'Z' then Char.ofNat (c.toNat + 32) else c

def fold (s : Str) : Str := s.map foldC

/-- `pat` is a prefix of `s`. -/
def hasPrefix : Str → Str → Bool
  | [], _ => true
  | _ :: _, [] => false
  | p :: ps, c :: cs => p == c && hasPrefix ps cs

/-- substring search: Go's `strings.Contains(s, pat)` / regexp literal match. -/
def contains (pat : Str) : Str → Bool
  | [] => pat.isEmpty
  | c :: cs => hasPrefix pat (c :: cs) || contains pat cs

theorem hasPrefix_iff {p s : Str} : hasPrefix p s = true ↔ p <+: s := by
  induction p generalizing s with
  | nil => simp [hasPrefix]
  | cons a p ih =>
    cases s with
    | nil => simp [hasPrefix]
    | cons c cs =>
      simp [hasPrefix, ih, List.cons_prefix_cons]

theorem contains_iff {p s : Str} : contains p s = true ↔ p <:+: s := by
  induction s with
  | nil =>
    cases p <;> simp [contains]
  | cons c cs ih =>
    simp only [contains, Bool.or_eq_true, hasPrefix_iff, ih]
    constructor
    · rintro (h | h)
      · exact h.isInfix
      · exact h.trans (List.suffix_cons c cs).isInfix
    · intro h
      rcases List.infix_cons_iff.mp h with h | h
      · exact Or.inl h
      · exact Or.inr h

/-- split on a separator byte: Go's `strings.Split(s, sep)` for a one-byte sep. -/
def splitOn (sep : Char) : Str → List Str
  | [] => [[]]
  | c :: cs =>
    if c = sep then [] :: splitOn sep cs
    else match splitOn sep cs with
      | [] => [[c]]        -- unreachable: splitOn never returns []
      | f :: fs => (c :: f) :: fs

theorem splitOn_ne_nil (sep : Char) (s : Str) : splitOn sep s ≠ [] := by
  induction s with
  | nil => simp [splitOn]
  | cons c cs ih =>
    simp only [splitOn]
    split
    · simp
    · split <;> simp

theorem splitOn_head_prefix {sep : Char} {s f : Str} {fs : List Str}
    (h : splitOn sep s = f :: fs) : f <+: s := by
  induction s generalizing f fs with
  | nil => simp [splitOn] at h; rw [h.1]; exact List.prefix_refl _
  | cons d ds ih =>
    simp only [splitOn] at h
    split at h
    · simp at h; rw [h.1]; exact List.nil_prefix
    · split at h
      · rename_i h2; exact absurd h2 (splitOn_ne_nil _ _)
      · rename_i g gs h2
        simp at h
        rw [← h.1]
        exact List.cons_prefix_cons.mpr ⟨rfl, ih h2⟩

/-- every field of a split is an infix of the original string -/
theorem field_infix {sep : Char} {s f : Str} (h : f ∈ splitOn sep s) : f <:+: s := by
  induction s generalizing f with
  | nil =>
    simp [splitOn] at h; subst h; exact List.infix_refl _
  | cons c cs ih =>
    have hs : splitOn sep (c :: cs) ≠ [] := splitOn_ne_nil _ _
    simp only [splitOn] at h
    split at h
    · rcases List.mem_cons.mp h with h | h
      · subst h; exact List.nil_infix
      · exact (ih h).trans (List.suffix_cons c cs).isInfix
    · split at h
      · rename_i heq; exact absurd heq (splitOn_ne_nil _ _)
      · rename_i f0 fs heq
        rcases List.mem_cons.mp h with h | h
        · subst h
          exact (List.cons_prefix_cons.mpr ⟨rfl, splitOn_head_prefix heq⟩).isInfix
        · have : f ∈ splitOn sep cs := by rw [heq]; exact List.mem_cons_of_mem _ h
          exact (ih this).trans (List.suffix_cons c cs).isInfix

/-- join with a one-byte separator: `strings.Join(xs, ",")` -/
def join (sep : Char) : List Str → Str
  | [] => []
  | [x] => x
  | x :: y :: ys => x ++ sep :: join sep (y :: ys)

def isSpace (c : Char) : Bool := c = ' ' || c = '\t'

def trimLeft : Str → Str
  | [] => []
  | c :: cs => if isSpace c then trimLeft cs else c :: cs

theorem trimLeft_suffix (s : Str) : trimLeft s <:+ s := by
  induction s with
  | nil => exact List.suffix_refl _
  | cons c cs ih =>
    simp only [trimLeft]; split
    · exact ih.trans (List.suffix_cons c cs)
    · exact List.suffix_refl _

def trimRight (s : Str) : Str := (trimLeft s.reverse).reverse

theorem trimRight_prefix (s : Str) : trimRight s <+: s := by
  unfold trimRight
  have := trimLeft_suffix s.reverse
  have h2 := List.reverse_prefix.mpr this
  simpa using h2

def trim (s : Str) : Str := trimRight (trimLeft s)

theorem trim_infix (s : Str) : trim s <:+: s :=
  (trimRight_prefix _).isInfix.trans (trimLeft_suffix s).isInfix

/-- the part of a directive token before `=` (its name) -/
def nameOf : Str → Str
  | [] => []
  | c :: cs => if c = '=' then [] else c :: nameOf cs

theorem nameOf_prefix (s : Str) : nameOf s <+: s := by
  induction s with
  | nil => exact List.prefix_refl _
  | cons c cs ih =>
    simp only [nameOf]; split
    · exact List.nil_prefix
    · exact List.cons_prefix_cons.mpr ⟨rfl, ih⟩

theorem fold_infix {a b : Str} (h : a <:+: b) : fold a <:+: fold b := by
  obtain ⟨s, t, rfl⟩ := h
  exact ⟨fold s, fold t, by simp [fold]⟩

def isDigit (c : Char) : Bool := '0' ≤ c ∧ c ≤ '9'

def digitVal (c : Char) : Nat := c.toNat - '0'.toNat

/-- maximal leading run of ASCII digits -/
def takeDigits : Str → Str
  | [] => []
  | c :: cs => if isDigit c then c :: takeDigits cs else []

def natOfDigits (s : Str) : Nat := s.foldl (fun acc c => acc * 10 + digitVal c) 0

def maxInt64 : Int := 9223372036854775807
def minInt64 : Int := -9223372036854775808

/-- two's complement wrap into int64 -/
def wrap64 (x : Int) : Int :=
  let m := x % 18446744073709551616
  if m ≥ 9223372036854775808 then m - 18446744073709551616 else m

/-- Go's `strconv.Atoi` with the error ignored: optional sign, decimal digits only;
syntax error → 0; out of range → clamped to the int64 bound. -/
def atoi (s : Str) : Int :=
  let (neg, body) := match s with
    | '-' :: r => (true, r)
    | '+' :: r => (false, r)
    | r => (false, r)
  if body.isEmpty || !(body.all isDigit) then 0
  else
    let n : Int := natOfDigits body
    if neg then (if n > 9223372036854775808 then minInt64 else -n)
    else (if n > maxInt64 then maxInt64 else n)

def ofString (s : String) : Str := s.toList

end Str
end Pike
