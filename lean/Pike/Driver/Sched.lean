import Pike.Driver.Wire
import Pike.Driver.Codec
import Pike.Model.Sys
namespace Pike.Driver
open Pike Wire Sys

/-- what the monitors remember about one upstream response -/
structure FetchInfo where
  rid : Nat
  key : Nat
  ttl : Int
  cacheable : Bool
  completedAt : Option Int := none

structure ThreadInfo where
  key : Nat := 0
  eidx : Int := -1
  isGet : Bool := true
  upStart : Option Nat := none       -- line number at which the upstream phase began
  upEnd : Option Nat := none
  fetcher : Bool := false
  lastRid : Option Nat := none       -- response of its own last upstream answer
  wokenBy : Option Nat := none       -- rid handed over by a cacheable completion
  wokenKind : String := ""
  hitAt : Option Int := none         -- clock when its lookup was answered from cache
  inHfp : Bool := false              -- its lookup fell into the hit-for-pass period of its entry
  probe : Bool := false              -- its lookup was the first after the hit-for-pass period of its entry had ended

structure SchedSt where
  active : Bool := false
  s : State := Sys.init 0 false
  hfp : Int := 0
  line : Nat := 0
  threads : List (Nat × ThreadInfo) := []
  fetches : List FetchInfo := []
  purged : List Nat := []            -- keys purged (store delete ok or not) and not looked up since
  /-- (C01) key ↦ entry handed to the last arrival, while nothing removed it (purge, restart) -/
  liveEntry : List (Nat × Int) := []
  /-- (C07) entry ↦ last second of its hit-for-pass marker, as set by the completion the harness reported -/
  hfpUntil : List (Int × Int) := []
  deleted : List Nat := []           -- keys whose store record a purge deleted and no request has saved since
  maxEidx : Int := -1
  /-- ticks since each thread's lookup (for the D10 classifier) -/
  ticksSinceHit : List (Nat × Nat) := []

def SchedSt.thread (st : SchedSt) (t : Nat) : ThreadInfo := (st.threads.lookup t).getD {}
def SchedSt.setThread (st : SchedSt) (t : Nat) (i : ThreadInfo) : SchedSt :=
  { st with threads := (t, i) :: st.threads.filter (·.1 ≠ t) }

def posOfPc : Pc → String
  | .idle => "idle"
  | .arrived _ => "arrived"
  | .looked _ => "get.enter"
  | .registered _ => "get.registered"
  | .parked _ => "parked"
  | .woken _ _ _ => "get.woken"
  | .fetchUp _ => "upstream"
  | .fetchDone _ (.cacheable _ _) => "cacheable.enter"
  | .fetchDone _ .fail => "hitForPass.enter"
  | .draining _ _ => "draining"
  | .passUp => "upstream"
  | .hitServe _ _ => "age.enter"
  | .done _ => "finished"

def parseRid (s : Str) : Option Nat :=
  match s with
  | 'r' :: ds => if ds.isEmpty || !ds.all Str.isDigit then none else some (Str.natOfDigits ds)
  | _ => none

def statusOfNat : Nat → Status
  | 1 => .fetching
  | 2 => .hitForPass
  | 3 => .hit
  | _ => .unknown

/-- what the store returned, as the model's `Load` -/
def loadOf (out : Str) : Option Load :=
  if out = "none".toList then some .noStore
  else if out = "notfound".toList then some .notFound
  else if out = "error".toList then some .error
  else match out with
    | 'b' :: 'y' :: 't' :: 'e' :: 's' :: ':' :: h =>
      match (if h = ['-'] then some [] else unhexL h) with
      | none => none
      | some data =>
        match Codec.decodeEntry trustAll data with
        | none => some .error
        | some e =>
          let resp : Option Nat := match e.resp with
            | some r =>
              -- a stored response is usable only with an HTTP status code (100..999: what net/http will write)
              if r.statusCode < 100 ∨ r.statusCode > 999 then none else (parseRid r.raw).orElse (fun _ => some 0)
            | none => none
          some (.record ⟨statusOfNat e.status, resp, e.createdAt, e.expiredAt⟩)
    | _ => none

/-- the store returned a decodable record whose response carries a status code no HTTP response can have -/
def recordCodeInvalid (out : Str) : Bool :=
  match out with
  | 'b' :: 'y' :: 't' :: 'e' :: 's' :: ':' :: h =>
    match (if h = ['-'] then some [] else unhexL h) with
    | none => false
    | some data =>
      match Codec.decodeEntry trustAll data with
      | some e => (match e.resp with | some r => r.statusCode ≠ 0 && (r.statusCode < 100 || r.statusCode > 999) | none => false)
      | none => false
  | _ => false

/-- the answer a finished request reported: X-Status|Age|body|code -/
def parseResult (pos : String) : Option (String × String × String × String) :=
  if pos = "finished:panic" then some ("panic", "", "", "") else
  match (pos.drop 9).toString.splitOn "|" with
  | [xs, age, body, code] => if pos.startsWith "finished:" then some (xs, age, body, code) else none
  | _ => none

def stepM (st : SchedSt) (ev : Event) : Option State := Sys.step Facts.waiterRereadsEntry st.s ev

def judgeSched (st0 : SchedSt) (fields : List String) : SchedSt × String :=
  let st := { st0 with line := st0.line + 1 }
  let fail (m : String) : SchedSt × String := ({ st with active := false }, m)
  let cmp (st' : SchedSt) (t : Nat) (pos : String) (cls : String) (trip : String) : SchedSt × String :=
    let mp := posOfPc (st'.s.pc ⟨t⟩)
    let ip := if pos.startsWith "finished" then "finished" else pos
    if mp = ip then (st', s!"ok {cls} 1{trip}") else ({ st' with active := false }, s!"DIFF sched {cls} thread={t} model={mp} impl={ip}{trip}")
  match fields with
  | ["begin", _seq, now, ws, hfp] =>
    match now.toInt?, hfp.toInt? with
    | some now, some hfp => ({ active := true, s := Sys.init now (ws = "1"), hfp := hfp }, "ok begin 0")
    | _, _ => (st, "BADLINE sched begin")
  | "end" :: stuck :: blocked :: [] =>
    let trip := if stuck ≠ "0" ∨ blocked ≠ "0" then " TRIP blocked" else ""
    ({}, s!"ok end 0{trip}")
  | _ =>
    if !st.active then (st, "ok skipped 0") else
    match fields with
    | ["arrive", t, k, m, "=>", pos, eidx] =>
      match t.toNat?, k.toNat?, unhex m, eidx.toInt? with
      | some t, some k, some m, some eidx =>
        if m = "GET".toList then
          match stepM st (.arrive ⟨t⟩ ⟨k⟩) with
          | none => fail "DIFF sched arrive not enabled in model"
          | some s1 =>
            match Sys.step Facts.waiterRereadsEntry s1 (.lookup ⟨t⟩) with
            | none => fail "DIFF sched lookup not enabled in model"
            | some s2 =>
              -- monitor (C18): a purged key must get a brand-new entry
              let fresh := eidx > st.maxEidx
              let trip := if st.purged.contains k ∧ !fresh then " TRIP served_from_purged" else ""
              -- monitor (C01): while a key has an entry that nothing removed, every arrival gets that entry
              let trip := trip ++ (match st.liveEntry.lookup k with
                | some e0 => if eidx ≠ e0 then " TRIP second_entry_for_key" else ""
                | none => "")
              let meidx : Int := match s2.pc ⟨t⟩ with | .looked e => e.n | _ => -1
              let st' := ({ st with s := s2, purged := st.purged.filter (· ≠ k), maxEidx := max st.maxEidx eidx,
                                    liveEntry := (k, eidx) :: st.liveEntry.filter (·.1 ≠ k) }).setThread t { key := k, eidx := eidx }
              if meidx ≠ eidx then ({ st' with active := false }, s!"DIFF sched arrive entry model={meidx} impl={eidx}{trip}")
              else cmp st' t pos "arrive" trip
        else
          match stepM st (.arrivePass ⟨t⟩) with
          | none => fail "DIFF sched arrivePass not enabled in model"
          | some s1 => cmp (({ st with s := s1 }).setThread t { key := k, isGet := false, upStart := some st.line }) t pos "arrive-pass" ""
      | _, _, _, _ => (st, "BADLINE sched arrive")
    | ["get", t, out, "=>", pos] =>
      match t.toNat?, (unhex out).bind loadOf with
      | some t, some so =>
        let e : Option Eid := match st.s.pc ⟨t⟩ with | .looked e => some e | _ => none
        -- the store is consulted exactly when the entry is unknown and a store is configured
        let consulted : Bool := so != .noStore
        let mconsult : Bool := match e with | some e => (st.s.entries e).status == .unknown && st.s.hasStore | none => false
        match stepM st (.get ⟨t⟩ so) with
        | none => fail "DIFF sched get not enabled in model"
        | some s1 =>
          let ti := st.thread t
          let ti := match s1.pc ⟨t⟩ with
            | .fetchUp _ => { ti with upStart := some st.line }
            | .passUp => { ti with upStart := some st.line }
            | .hitServe _ _ => { ti with hitAt := some st.s.now }
            | _ => ti
          let inHfp : Bool := match st.hfpUntil.lookup ti.eidx with | some u => decide (st.s.now ≤ u) | none => false
          -- the marker of its entry has lapsed and nobody is probing the key yet: this request is the single probe
          let lapsed : Bool := match st.hfpUntil.lookup ti.eidx with | some u => decide (st.s.now > u) | none => false
          let otherProbe : Bool := st.threads.any fun (u, ui) => u != t && ui.eidx == ti.eidx && ui.probe && ui.upEnd.isNone
          let ti := { ti with inHfp := inHfp, probe := lapsed && pos == "upstream" && !otherProbe }
          let st' := ({ st with s := s1, ticksSinceHit := (t, 0) :: st.ticksSinceHit.filter (·.1 ≠ t) }).setThread t ti
          -- monitor (C04), on the implementation's observations only: a lookup answered from the cache must be
          -- justified by a cacheable fetch for this key still within its lifetime, or by a store record that
          -- has not expired
          let now := st.s.now
          let justified : Bool :=
            (st.fetches.any fun f => f.key == ti.key && f.cacheable &&
              (match f.completedAt with | some c => decide (now ≤ c + f.ttl) | none => false))
            || (match so with | .record r => decide (now ≤ r.expiredAt) | _ => false)
          let trip := if pos = "age.enter" ∧ !justified then " TRIP served_stale" else ""
          -- monitor (C18): after a purge whose store delete succeeded the store has no record of the key
          -- until some request saves one
          let trip := trip ++ (match so with
            | .record _ => if st.deleted.contains ti.key then " TRIP record_survives" else ""
            | _ => "")
          -- monitor (C10): a record that cannot be served (its status code is not an HTTP status) is a miss
          let trip := trip ++ (if pos = "age.enter" ∧ ((unhex out).map recordCodeInvalid).getD false then " TRIP client_error_from_store_fault" else "")
          -- monitor (C07): during the hit-for-pass period of its entry a request is neither queued nor served from cache
          let trip := trip ++ (if inHfp && (pos == "get.registered" || pos == "age.enter") then " TRIP queued_during_hfp" else "")
          if consulted != mconsult then ({ st' with active := false }, s!"DIFF sched get store consulted impl={consulted} model={mconsult}{trip}")
          else cmp st' t pos s!"get-{posOfPc (s1.pc ⟨t⟩)}" trip
      | _, _ => (st, "BADLINE sched get")
    | ["purgeack", _k, early, code] =>
      -- monitor (C18, C08): the admin endpoint answers a purge only after the store delete has been carried out
      (st, "ok purgeack 1" ++ (if early = "1" ∨ code ≠ "204" then " TRIP purge_acked_before_done" else ""))
    | ["park", t, "=>", pos] =>
      match t.toNat? with
      | some t =>
        match stepM st (.park ⟨t⟩) with
        | none => fail "DIFF sched park not enabled in model"
        | some s1 => cmp { st with s := s1 } t pos "park" ""
      | none => (st, "BADLINE sched park")
    | ["send", c, u, "=>", pos] =>
      match c.toNat?, u.toNat? with
      | some c, some u =>
        let head : Option Tid := match st.s.pc ⟨c⟩ with | .draining e _ => (st.s.queue e).head? | _ => none
        if head ≠ some ⟨u⟩ then fail s!"DIFF sched send: model queue head is not thread {u}" else
        match stepM st (.send ⟨c⟩) with
        | none => fail "DIFF sched send not enabled in model"
        | some s1 =>
          let ci := st.thread c
          let fi := ci.lastRid.bind fun r => st.fetches.find? (·.rid = r)
          let ui := st.thread u
          let ui := match fi with
            | some f => { ui with wokenBy := some f.rid, wokenKind := if f.cacheable then "cacheable" else "fail" }
            | none => ui
          cmp (({ st with s := s1 }).setThread u ui) u pos "send" ""
      | _, _ => (st, "BADLINE sched send")
    | ["drained", c, "=>", _pos] =>
      match c.toNat? with
      | some c =>
        match st.s.pc ⟨c⟩ with
        | .draining e _ => if (st.s.queue e).isEmpty then (st, "ok drained 0") else fail "DIFF sched drained: model queue not empty"
        | _ => fail "DIFF sched drained: model thread not draining"
      | none => (st, "BADLINE sched drained")
    | ["resume", t, "=>", pos] =>
      match t.toNat? with
      | some t =>
        match stepM st (.resume ⟨t⟩) with
        | none => fail "DIFF sched resume not enabled in model"
        | some s1 =>
          let ti := st.thread t
          let ti := match s1.pc ⟨t⟩ with
            | .passUp => { ti with upStart := some st.line }
            | .fetchUp _ => { ti with upStart := some st.line }
            | _ => ti
          -- monitor (C01): a waiter never goes upstream as a fetcher; after a cacheable fetch it is served from it
          let trip := if ti.wokenKind = "cacheable" ∧ pos ≠ "age.enter" then " TRIP waiter_not_served" else ""
          cmp (({ st with s := s1 }).setThread t ti) t pos s!"resume-{posOfPc (s1.pc ⟨t⟩)}" trip
      | none => (st, "BADLINE sched resume")
    | ["upEnd", t, kind, ttl, rid, "=>", pos] =>
      match t.toNat?, unhex kind, ttl.toInt?, rid.toNat? with
      | some t, some kind, some ttl, some rid =>
        let o : Outcome := if kind = "cacheable".toList then .cacheable ttl rid else .fail
        match stepM st (.upEnd ⟨t⟩ o) with
        | none => fail "DIFF sched upEnd not enabled in model"
        | some s1 =>
          let ti := st.thread t
          let isFetcher := pos = "cacheable.enter" ∨ pos = "hitForPass.enter"
          -- monitor (C01): overlapping fetch-role upstream phases on one entry
          let overlaps := st.threads.any fun (u, ui) =>
            u != t && ui.eidx == ti.eidx && decide (ti.eidx ≥ 0) && ui.fetcher &&
              (match ui.upStart, ui.upEnd, ti.upStart with
               | some a, some b, some c => decide (a < st.line ∧ c < b)
               | some _, none, some _ => true
               | _, _, _ => false)
          let trip := if isFetcher ∧ overlaps then " TRIP overlap" else ""
          -- monitor (C07): a request whose lookup fell into the hit-for-pass period is a pass: it does not complete the entry
          let trip := trip ++ (if ti.inHfp && decide isFetcher then " TRIP hfp_period_wrong" else "")
          -- … and the first request after the period ended probes the key: it is the fetcher, not one more pass
          let trip := trip ++ (if ti.probe && !(decide isFetcher) then " TRIP hfp_period_wrong" else "")
          let ti := { ti with upEnd := some st.line, fetcher := isFetcher, lastRid := some rid }
          let st' := ({ st with s := s1, fetches := ⟨rid, ti.key, ttl, kind = "cacheable".toList, none⟩ :: st.fetches }).setThread t ti
          match parseResult pos with
          | some (xs, _, body, code) =>
            -- a passing request: answered by its own upstream answer
            let want := s!"r{rid}"
            let isErr := kind = "error".toList
            let okBody := if xs = "panic" then kind = "panic".toList else if isErr then code = "500" else body = want ∧ code = "200"
            let trip2 := if okBody then trip else trip ++ " TRIP wrong_body_for_key"
            cmp st' t pos "upEnd-pass" trip2
          | none => cmp st' t pos s!"upEnd-{str kind}" trip
      | _, _, _, _ => (st, "BADLINE sched upEnd")
    | ["complete", t, "=>", pos] =>
      match t.toNat? with
      | some t =>
        match stepM st (.complete ⟨t⟩ st.hfp) with
        | none => fail "DIFF sched complete not enabled in model"
        | some s1 =>
          let ti := st.thread t
          let fetches := st.fetches.map fun f => if some f.rid = ti.lastRid then { f with completedAt := some st.s.now } else f
          let cacheable := (ti.lastRid.bind fun r => st.fetches.find? (·.rid = r)).map (·.cacheable) |>.getD false
          let period : Int := if st.hfp ≤ 0 then 300 else st.hfp
          let hfpUntil := st.hfpUntil.filter (·.1 ≠ ti.eidx)
          let hfpUntil := if cacheable then hfpUntil else (ti.eidx, st.s.now + period) :: hfpUntil
          cmp { st with s := s1, fetches := fetches, hfpUntil := hfpUntil } t pos "complete" ""
      | none => (st, "BADLINE sched complete")
    | ["saved", t, ok, "=>", pos] =>
      match t.toNat? with
      | some t =>
        match stepM st (.saved ⟨t⟩ (ok = "1")) with
        | none => fail "DIFF sched saved not enabled in model"
        | some s1 =>
          let ti := st.thread t
          let st := if ok = "1" then { st with deleted := st.deleted.filter (· ≠ ti.key) } else st
          let fi := ti.lastRid.bind fun r => st.fetches.find? (·.rid = r)
          match parseResult pos, fi with
          | some (xs, _, body, code), some f =>
            let okAns := if xs = "panic" then true
              else if code = "500" then true   -- upstream error
              else xs = "fetching" ∧ body = s!"r{f.rid}" ∧ code = "200"
            let trip := if okAns then "" else " TRIP wrong_body_for_key"
            cmp { st with s := s1 } t pos "saved" trip
          | _, _ => cmp { st with s := s1 } t pos "saved" ""
      | none => (st, "BADLINE sched saved")
    | ["age", t, "=>", pos] =>
      match t.toNat? with
      | some t =>
        match stepM st (.age ⟨t⟩) with
        | none => fail "DIFF sched age not enabled in model"
        | some s1 =>
          let ti := st.thread t
          match parseResult pos, s1.pc ⟨t⟩ with
          | some (xs, age, body, code), .done (.hit r a) =>
            let mAge := if a > 0 then toString a else ""
            let mBody := match r with | some n => s!"r{n}" | none => "?"
            -- monitors on the implementation's answer
            let rid := (parseRid body.toList)
            let fi := rid.bind fun r => st.fetches.find? (·.rid = r)
            let ticks := (st.ticksSinceHit.lookup t).getD 0
            let trips := match fi with
              | none => " TRIP wrong_body_for_key"
              | some f =>
                (if f.key ≠ ti.key then " TRIP wrong_body_for_key" else "")
                ++ (match ti.hitAt, f.completedAt with
                    | some h, some c => if h > c + f.ttl then " TRIP served_stale" else ""
                    | _, _ => "")
                ++ (match age.toInt? with
                    | some ag => if ag > f.ttl then (if ticks > 0 then " TRIP age_gt_T:tick_between_lookup_and_age" else " TRIP age_gt_T") else ""
                    | none => "")
                ++ (if ti.wokenKind = "cacheable" ∧ ti.wokenBy ≠ some f.rid then " TRIP waiter_not_served" else "")
            if xs = "hit" ∧ age = mAge ∧ body = mBody ∧ code = "200" then cmp { st with s := s1 } t pos "age" trips
            else ({ st with s := s1, active := false }, s!"DIFF sched age model=(hit,{mAge},{mBody}) impl=({xs},{age},{body},{code}){trips}")
          | some (xs, _, _, _), _ =>
            -- a request that was being answered from the cache ended in a panic: what the store returned made it
            -- through validation although it cannot be served (C10)
            cmp { st with s := s1 } t pos "age" (if xs = "panic" then " TRIP client_error_from_store_fault" else "")
          | _, _ => cmp { st with s := s1 } t pos "age" ""
      | none => (st, "BADLINE sched age")
    | ["tick", d] =>
      match d.toInt? with
      | some d =>
        match stepM st (.tick d) with
        | none => fail "DIFF sched tick"
        | some s1 => ({ st with s := s1, ticksSinceHit := st.ticksSinceHit.map fun (t, n) => (t, n + 1) }, "ok tick 0")
      | none => (st, "BADLINE sched tick")
    | ["purge", k, d] =>
      match k.toNat? with
      | some k =>
        match stepM st (.purge ⟨k⟩ (d = "1")) with
        | none => fail "DIFF sched purge"
        | some s1 => ({ st with s := s1, purged := k :: st.purged, deleted := if d = "1" then k :: st.deleted else st.deleted,
                                liveEntry := st.liveEntry.filter (·.1 ≠ k) }, "ok purge 1")
      | none => (st, "BADLINE sched purge")
    | ["purge-other", _k] => (st, "ok purge-other 1")   -- a purge naming an unknown cache is a no-op (C18.unknown_cache_noop)
    | ["reload"] => (st, "ok reload 1")   -- an unchanged cache survives a reload untouched (C16.surviving_cache_identity)
    | ["crash"] =>
      match stepM st .crash with
      | none => fail "DIFF sched crash"
      | some s1 => ({ st with s := s1, liveEntry := [], hfpUntil := [] }, "ok crash 1")
    | _ => (st, "BADLINE sched fields")

end Pike.Driver
