import Pike.Driver.Wire
import Pike.Driver.Loc
import Pike.Model.Reconfig
namespace Pike.Driver
open Pike Wire Reconfig

structure ReconfSt where
  active : Bool := false
  s : St := Reconfig.init
  /-- impl's dispatcher identity index per cache name at the previous step (for the identity monitor) -/
  cacheIds : List (Str × Int) := []

def parseCfgR (comp caches ups locs srvs : String) : Option Cfg := do
  let split (s : String) : List String := if s = "-" then [] else s.splitOn ";"
  let comp ← (split comp).mapM fun e => match e.splitOn "|" with
    | [n, g, b] => do
      -- "x" = the level is not configured: a new service keeps the library default for it
      let gl ← if g = "x" then some defaultLevels.1 else g.toInt?
      let bl ← if b = "x" then some defaultLevels.2 else b.toInt?
      pure (← unhex n, gl, bl)
    | _ => none
  let caches ← (split caches).mapM fun e => match e.splitOn "|" with
    | [n, sz] => do pure (← unhex n, ← sz.toNat?)
    | _ => none
  let ups ← (split ups).mapM fun e => match e.splitOn "|" with
    | [n, o] => do pure (← unhex n, ← unhex o)
    | _ => none
  let locs ← (split locs).mapM unhex
  let srvs ← (split srvs).mapM fun e => match e.splitOn "|" with
    | [a, ls, c, z, ml, f] => do pure (← unhex a, (⟨← parseList ls, ← unhex c, ← unhex z, ← ml.toNat?, ← unhex f⟩ : SrvOpt))
    | _ => none
  pure ⟨comp, caches, ups, locs, srvs⟩

/-- render the model state exactly as the harness renders the implementation's -/
def renderObs (s : St) (cacheIdx : Str → Option Nat) : String :=
  let names (xs : List String) : List Str := xs.map String.toList
  let lv := (names ["bestCompression", "zip", "fast"]).map fun n =>
    let l := (s.compress.get n).getD defaultLevels
    s!"L|{hex n}|{l.1}|{l.2}"
  let cs := (names ["c1", "c2", "c3"]).map fun n =>
    match s.caches.get n with
    | none => s!"C|{hex n}|-"
    | some _ => match cacheIdx n with | some i => s!"C|{hex n}|{i}" | none => s!"C|{hex n}|?"
  let us := (names ["u1", "u2", "u3"]).map fun n =>
    match s.upstreams.get n with
    | none => s!"U|{hex n}|-"
    | some (o, _) => s!"U|{hex n}|{hex o}"
  let ls := s.locations.filter (fun l => (names ["l1", "l2", "l3"]).any fun n => Str.hasPrefix (n ++ ['>']) l)
  let lsS := (ls.map hex)
  let lsSorted := lsS.toArray.qsort (· < ·) |>.toList
  let os := "O|" ++ (if lsSorted.isEmpty then "-" else ",".intercalate lsSorted)
  let ss := (names [":45001", ":45002", ":45003"]).map fun a =>
    match s.servers.get a with
    | none => s!"S|{hex a}|-"
    | some o =>
      let locs := if o.locations.isEmpty then "-" else ",".intercalate (o.locations.map fun l => "." ++ hexL l)
      s!"S|{hex a}|{locs}|{hex o.cache}|{hex o.compress}|{o.minLength}|{hex o.filter}"
  ";".intercalate (lv ++ cs ++ us ++ [os] ++ ss)

/-- the implementation's dispatcher index per cache name, read from its observation -/
def implCacheIdx (obsStr : String) : List (Str × Int) :=
  (obsStr.splitOn ";").filterMap fun p => match p.splitOn "|" with
    | ["C", n, i] => match unhex n, i.toInt? with
      | some n, some i => some (n, i)
      | _, _ => none
    | _ => none

def judgeReconf (st : ReconfSt) (fields : List String) : ReconfSt × String :=
  match fields with
  | ["begin", _seq, obs0] =>
    -- compress profiles cannot be removed from a running process: the slate the sequence starts
    -- from is read off the observation (it equals process start: bestCompression 9/-1, others default)
    let comp : List (Str × (Int × Int)) := (obs0.splitOn ";").filterMap fun p => match p.splitOn "|" with
      | ["L", n, g, b] => match unhex n, g.toInt?, b.toInt? with
        | some n, some g, some b => if n = bestName then some (n, (g, b)) else none
        | _, _, _ => none
      | _ => none
    let s0 := { Reconfig.init with compress := comp }
    if comp = Reconfig.init.compress then ({ active := true, s := s0 }, "ok begin 0")
    else ({ active := false }, s!"DIFF reconf start-up slate differs from the model's init")
  | ["end"] => ({}, "ok end 0")
  | ["listen", cfg0, obs0, cfg1, obs1] =>
    -- real listeners: before the update exactly the configured servers accept connections, after it (and the
    -- graceful-close period) exactly the servers of the final configuration do
    let t0 := if obs0 = cfg0 then "" else " TRIP not_listening_as_configured"
    let removedAlive := (List.zip (List.zip cfg0.toList cfg1.toList) obs1.toList).any fun ((a, b), o) => a == '1' && b == '0' && o == '1'
    let t1 := if removedAlive then " TRIP removed_still_listening"
              else if obs1 ≠ cfg1 then " TRIP not_listening_as_configured" else ""
    (st, s!"ok listen 1{t0}{t1}")
  | ["listenretry", held, obs] =>
    -- a server whose address was busy at one update is bound by the next update that finds the address free
    if held ≠ "1" then (st, "ok listenretry-unavailable 0")
    else (st, "ok listenretry 1" ++ (if obs ≠ "1" then " TRIP not_listening_as_configured" else ""))
  | "invalid" :: _ => (st, "BADLINE reconf generated an invalid configuration")
  | ["update", comp, caches, ups, locs, srvs, "=>", obsImpl] =>
    if !st.active then (st, "ok skipped 0") else
    match parseCfgR comp caches ups locs srvs with
    | none => (st, "BADLINE reconf cfg")
    | some c =>
      let s1 := update st.s c
      let ids := implCacheIdx obsImpl
      -- model identities: a surviving name keeps the implementation's previous index, a new one gets a new index
      let idxOf (n : Str) : Option Nat :=
        match st.s.caches.get n, st.cacheIds.lookup n with
        | some _, some i => if i ≥ 0 then some i.toNat else none
        | _, _ => (ids.lookup n).bind fun i => if i ≥ 0 ∧ !(st.cacheIds.any fun p => p.2 = i) then some i.toNat else none
      let mObs := renderObs s1 idxOf
      -- monitor: the running instance against a process freshly started with `c`
      let fObs := renderObs (fresh c) (fun n => (ids.lookup n).bind fun i => if i ≥ 0 then some i.toNat else none)
      let diffs := (List.zip (obsImpl.splitOn ";") (fObs.splitOn ";")).filter fun (a, b) => a ≠ b
      -- only names the configuration uses (and the built-in profile) are observable through requests
      let relevant := diffs.filter fun (a, _) => match a.splitOn "|" with
        | "L" :: n :: _ => (unhex n).any fun n => n = bestName ∨ (c.compresses.map (·.1)).contains n
        | _ => true
      let trip := match relevant.head? with
        | none => ""
        | some (a, _) => match a.splitOn "|" with
          | "L" :: n :: _ => if (unhex n) = some bestName then " TRIP differs_from_fresh:levels:bestCompression" else " TRIP differs_from_fresh:levels"
          | k :: _ => " TRIP differs_from_fresh:" ++ k
          | [] => " TRIP differs_from_fresh"
      -- monitor: a surviving cache keeps its dispatcher
      let lost := st.cacheIds.any fun (n, i) => i ≥ 0 ∧ (c.caches.map (·.1)).contains n ∧ ids.lookup n ≠ some i
      let trip2 := if lost then " TRIP surviving_cache_replaced" else ""
      let st' := { st with s := s1, cacheIds := ids }
      if mObs = obsImpl then (st', s!"ok update 1{trip}{trip2}")
      else
        let d := (List.zip (obsImpl.splitOn ";") (mObs.splitOn ";")).find? fun (a, b) => a ≠ b
        ({ st' with active := false }, s!"DIFF reconf impl/model first difference impl={(d.map (·.1)).getD "?"} model={(d.map (·.2)).getD "?"}{trip}{trip2}")
  | _ => (st, "BADLINE reconf fields")

end Pike.Driver
