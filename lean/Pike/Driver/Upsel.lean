import Pike.Driver.Wire
import Pike.Model.Upstream
namespace Pike.Driver
open Pike Wire Upstream

def parseFlags (s : String) : Option (List Server) :=
  (s.splitOn ",").mapM fun f => match f.toList with
    | [h, b] => if (h = 'h' ∨ h = 's') ∧ (b = 'p' ∨ b = 'b') then some ⟨h = 'h', b = 'b', 0⟩ else none
    | _ => none

def judgeUpsel (fields : List String) : String :=
  match fields with
  | "rrpipe" :: counts =>
    -- round robin through the whole request path: per-server counts of sequential first-time requests differ by ≤ 1
    match counts.mapM String.toNat? with
    | some cs =>
      let mx := cs.foldl max 0
      let mn := cs.foldl min mx
      if mx - mn ≤ 1 ∧ cs.foldl (· + ·) 0 = 12 then "ok rrpipe 1" else "ok rrpipe 1 TRIP rr_unbalanced"
    | none => "BADLINE upsel rrpipe"
  | ["slowreq", c1, b1, c2, c3, b3, c4, b4, c5, b5] =>
    -- one request ended by the location's proxy timeout and one abandoned by its client say nothing about the server's
    -- health: the primary keeps passing its checks, so it keeps getting the traffic
    let prim := hex "primary".toList
    let t := (if c1 ≠ "200" ∨ b1 ≠ prim then " TRIP no_server_while_healthy" else "")
      ++ (if c2.toNat?.any (· < 500) then " TRIP upstream_hang_not_ended" else "")
      ++ (if [(c3, b3), (c4, b4), (c5, b5)].any (fun cb => cb.1 = "200" ∧ cb.2 ≠ prim) then " TRIP backup_while_primary" else "")
      ++ (if [c3, c4, c5].any (· ≠ "200") then " TRIP no_server_while_healthy" else "")
    s!"ok slowreq 1{t}"
  | ["recover", "unavailable"] => "ok recover-unavailable 0"
  | ["recover", up, c1, b1, c2, c3, b3, c4, b4] =>
    -- a primary that failed one client request between two health checks, then is back and passes its check:
    -- traffic returns to it by itself; the backup serves only while no primary is healthy
    if up ≠ "1" then "ok recover-unavailable 0" else
    let prim := hex "srv0".toList
    let served (c b : String) : Bool := c = "200" && b = prim
    let t := (if !(served c1 b1) then " TRIP no_server_while_healthy" else "")
      ++ (if c2 = "-" then " TRIP no_5xx" else "")   -- (the one failed request is an error answer of pike's own, whatever its code)
      ++ (if c3 = "200" ∧ b3 ≠ prim ∨ c4 = "200" ∧ b4 ≠ prim then " TRIP backup_while_primary" else "")
      ++ (if c3 ≠ "200" ∨ c4 ≠ "200" then " TRIP no_server_while_healthy" else "")
    s!"ok recover 1{t}"
  | ["degraded", code, forwarded] =>
    -- a server that fails its HTTP health check gets no client request; the client gets a 5xx
    let t1 := if forwarded ≠ "0" then " TRIP sent_to_unhealthy" else ""
    let t2 := match code.toNat? with | some c => if c < 500 then " TRIP no_5xx" else "" | none => " TRIP no_5xx"
    s!"ok degraded 1{t1}{t2}"
  | ["alldown", c1, _m1, c2, _m2, c3, _m3, c4, _m4] =>
    -- no server healthy: every request (also repeated ones for the same URL) gets a 5xx, none is left hanging
    -- (code -1 = no answer within 3 s); once the server is back the URL is served
    let bad5 := [c1, c2, c3].any fun c => match c.toInt? with | some n => n < 500 | none => true
    let trip := (if bad5 then " TRIP no_5xx" else "") ++ (if c4 ≠ "200" then " TRIP no_server_while_healthy" else "")
    s!"ok alldown 1{trip}"
  | [_i, pol, flags, rr, "=>", chosen, code] =>
    match unhex pol, parseFlags flags, rr.toNat?, chosen.toInt?, code.toNat? with
    | some pol, some ss, some rr, some chosen, some code =>
      let p : Option Policy := if pol = "first".toList then some .first else if pol = "random".toList then some .random
        else if pol = "leastconn".toList then some .leastconn else if pol = "roundRobin".toList ∨ pol = [] then some .roundRobin else none
      match p with
      | none => "BADLINE upsel policy"
      | some p =>
        -- monitors on the implementation
        let healthyPrim := ss.any fun s => s.healthy && !s.backup
        let anyHealthy := ss.any (·.healthy)
        let cs := chosen.toNat
        let trip :=
          (if chosen ≥ 0 then
             (match ss[cs]? with
              | some s => (if !s.healthy then " TRIP sent_to_unhealthy" else "") ++ (if s.backup ∧ healthyPrim then " TRIP backup_while_primary" else "")
              | none => " TRIP sent_to_unhealthy")
           else (if anyHealthy then " TRIP no_server_while_healthy" else (if code < 500 then " TRIP no_5xx" else "")))
        let cands := candidates ss
        let agree : Bool :=
          if cands.isEmpty then chosen == -1 && code == 503
          else match p with
            | .random => decide (chosen ≥ 0) && cands.contains cs
            | _ => (next p ss rr 0).1 == (if chosen ≥ 0 then some cs else none)
        let cls := if cands.isEmpty then "none" else if healthyPrim then "primary" else "backup"
        if agree then s!"ok {str pol}-{cls} 1{trip}" else s!"DIFF upsel model={repr (next p ss rr 0).1} cands={cands} impl={chosen} code={code}{trip}"
    | _, _, _, _, _ => "BADLINE upsel parse"
  | _ => "BADLINE upsel fields"

end Pike.Driver
