import Pike.Driver.Wire
import Pike.Model.LRU
namespace Pike.Driver
open Pike Wire LRU

structure DispSt where
  reg : Reg := []
  sizes : List (Str × Int) := []
  /-- monitor state (C18): purged and not looked up since -/
  purged : List (Str × Str) := []
  /-- monitor state (C06): first key each (cache, entry index) was handed out for -/
  ops : Nat := 0

def effSize (S : Int) : Int := if S ≤ 0 then 12800 else S

def judgeDisp (st : DispSt) (fields : List String) : DispSt × String :=
  match fields with
  | ["begin", _seq, s1, s2, ws] =>
    match s1.toInt?, s2.toInt? with
    | some a, some b =>
      let store : Option (List Str) := if ws = "1" then some [] else none
      ({ reg := [⟨"c1".toList, ofSize a, store⟩, ⟨"c2".toList, ofSize b, store⟩],
         sizes := [("c1".toList, a), ("c2".toList, b)] }, s!"ok begin 0")
    | _, _ => (st, "BADLINE begin")
  | ["get", cn, key, hv, "=>", idx, created, owner] =>
    match unhex cn, unhex key, hv.toNat?, idx.toNat?, created.toNat?, unhex owner with
    | some cn, some key, some hv, some idx, some cr, some owner =>
      let (reg', res) := st.reg.lookup cn key hv
      -- monitors on the implementation's answer
      let tripKey := if owner ≠ key then " TRIP cross_key" else ""
      let wasPurged := st.purged.contains (cn, key)
      let tripPurge := if wasPurged && cr == 0 then " TRIP served_from_purged" else ""
      let st' := { st with reg := reg', purged := st.purged.filter (· ≠ (cn, key)), ops := st.ops + 1 }
      match res with
      | some (e, c) =>
        if e == idx && c == (cr == 1) then (st', s!"ok get 1{tripKey}{tripPurge}")
        else (st', s!"DIFF get model=({e},{c}) impl=({idx},{cr}){tripKey}{tripPurge}")
      | none => (st', s!"DIFF get model=nocache{tripKey}{tripPurge}")
    | _, _, _, _, _, _ => (st, "BADLINE get")
  | ["put", cn, key] =>
    match unhex cn, unhex key with
    | some cn, some key => ({ st with reg := st.reg.put cn key }, "ok put 0")
    | _, _ => (st, "BADLINE put")
  | ["purge", name, key, hv, "=>", has] =>
    match unhex name, unhex key, hv.toNat? with
    | some name, some key, some hv =>
      let reg' := st.reg.purge name key hv
      let targets := st.reg.filter (fun c => name = [] ∨ c.name = name)
      -- model's view of "record still there" per cache, in order
      let mhas := String.ofList (reg'.map fun c => match c.store with
        | none => '-'
        | some s => if s.contains key then '1' else '0')
      -- monitor (C18): after the purge no targeted cache may still hold a record
      let implHas := has.toList
      let bad := (List.zip st.reg implHas).any fun (c, ch) => (name = [] ∨ c.name = name) && ch == '1'
      let trip := if bad then " TRIP record_survives" else ""
      -- monitor (C18): a cache the purge did not name keeps its record (the records are the ones the harness put)
      let lost := (List.zip st.reg implHas).any fun (c, ch) =>
        !(name = [] ∨ c.name = name) && ch == '0' && (match c.store with | some s => s.contains key | none => false)
      let trip := trip ++ (if lost then " TRIP purge_touched_other" else "")
      let st' := { st with reg := reg', purged := targets.map (fun c => (c.name, key)) ++ st.purged }
      if mhas == has then (st', s!"ok purge 1{trip}") else (st', s!"DIFF purge model={mhas} impl={has}{trip}")
    | _, _, _ => (st, "BADLINE purge")
  | ["count", cn, "=>", n] =>
    match unhex cn, n.toInt? with
    | some cn, some n =>
      match st.reg.find cn, st.sizes.lookup cn with
      | some c, some S =>
        let m : Int := resident c.disp
        let trip := if n > effSize S then " TRIP resident_gt_S" else ""
        if n == -1 then (st, "ok count-unavailable 0")
        else if m == n then (st, s!"ok count 1{trip}") else (st, s!"DIFF count model={m} impl={n}{trip}")
      | _, _ => (st, "BADLINE count cache")
    | _, _ => (st, "BADLINE count")
  | ["end"] => ({}, "ok end 0")
  | _ => (st, "BADLINE disp fields")

end Pike.Driver
