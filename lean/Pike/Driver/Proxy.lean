import Pike.Driver.Wire
import Pike.Driver.Loc
import Pike.Model.Proxy
import Pike.Model.Resp
import Pike.Model.Query
namespace Pike.Driver
open Pike Wire Proxy

structure ProxySt where
  active : Bool := false
  l : LocCfg := ⟨[], [], [], []⟩
  upAE : Str := []
  cacheable : Bool := false
  firstMethod : Str := []
  firstRange : Bool := false
  originAge : Str := []

def splitColon (s : Str) : Option (Str × Str) :=
  match Str.splitOn ':' s with
  | [a, b] => some (a, b)
  | _ => none

/-- headers the transport manages itself -/
def transportKeys : List Str :=
  ["User-Agent", "X-Forwarded-For", "Connection", "Content-Length", "Host", "Te", "Trailer", "Transfer-Encoding", "Upgrade"].map String.toList

def judgeProxy (st : ProxySt) (fields : List String) : ProxySt × String :=
  match fields with
  | ["case", _i, rw, rq, rs, lq, ae, cc, oage] =>
    match parseList rw, parseList rq, parseList rs, parseList lq, unhex ae, unhex oage with
    | some rw, some rq, some rs, some lq, some ae, some oage =>
      match rw.mapM splitColon, rq.mapM splitColon, rs.mapM splitColon, lq.mapM splitColon with
      | some rw, some rq, some rs, some lq =>
        -- the location's own parameters as they go on the wire: `url.Values.Encode` of the configured pairs
        let lq := Query.encode (Query.ofPairs lq)
        ({ active := true, l := ⟨rq, rs, lq, rw⟩, upAE := ae, cacheable := cc = "1", originAge := oage }, "ok case 0")
      | _, _, _, _ => (st, "BADLINE proxy case pairs")
    | _, _, _, _, _, _ => (st, "BADLINE proxy case")
  | ["hfpseq", a2, a3, aok, _axs, b2, b3, bok, _bxs] =>
    -- on a hit-for-pass key: the conditional client got its 304, the range client its 206, and the plain clients
    -- after them the full 200 response
    let trip := (if a3 ≠ "200" ∨ aok ≠ "1" ∨ b3 ≠ "200" ∨ bok ≠ "1" then " TRIP partial_replayed" else "")
      ++ (if a2 ≠ "304" then " TRIP no_304" else "")
      ++ (if b2 ≠ "206" then " TRIP status_or_header_changed" else "")
    (st, s!"ok hfpseq 1{trip}")
  | ["hang", limit, c1, ms1, c2, ms2] =>
    -- an upstream that never answers: the proxy timeout ends the fetch with an error (504) and releases the
    -- request coalesced behind it, within the timeout plus scheduling slack
    match limit.toNat?, c1.toInt?, ms1.toNat?, c2.toInt?, ms2.toNat? with
    | some l, some c1, some ms1, some c2, some ms2 =>
      let late := ms1 > l + 1500 ∨ ms2 > l + 1500 ∨ c1 < 0 ∨ c2 < 0
      let trip := (if late then " TRIP upstream_hang_not_ended" else "")
        ++ (if !late ∧ (c1 < 500 ∨ c2 < 500) then " TRIP no_5xx" else "")
      (st, s!"ok hang 1{trip}")
    | _, _, _, _, _ => (st, "BADLINE proxy hang")
  | ["req", no, m, path, rawq, hdr, body, "=>", up, code, xs, rhdr, rbody, restored, pathAfter, queryAfter, rawSent] =>
    if !st.active then (st, "BADLINE proxy no case") else
    match unhex m, unhex path, unhex rawq, parseHeader hdr, unhex body, code.toNat?, unhex xs, parseHeader rhdr, unhex rbody with
    | some m, some path, some rawq, some h, some body, some code, some xs, some rh, some rbody =>
      let isGetHead := m = "GET".toList ∨ m = "HEAD".toList
      let second := no = "1"
      -- the second request (a plain GET) finds the first one's entry only if that was a GET too
      let fetching := isGetHead && (!second || st.firstMethod ≠ "GET".toList)
      -- the origin's Age counts against max-age=60: nothing is left to store when it has reached it
      let ageLeaves : Bool := match (String.ofList st.originAge).toNat? with | some a => decide (a < 60) | none => true
      let hit := second && st.cacheable && ageLeaves && (st.firstMethod = "GET".toList)
      let mxs : Str := if !isGetHead then "passed".toList else if fetching then "fetching".toList
        else if hit then "hit".toList else "hitForPass".toList
      let r : Req := ⟨m, path, rawq, h, body⟩
      let u := upstreamRequest fetching st.l st.upAE r
      let st' := if second then st else { st with firstMethod := m, firstRange := !(h.values "Range".toList).isEmpty }
      -- what the origin received
      let upParts := up.splitOn "|"
      let rawSeen : Str := ((upParts.getD 5 "").toList)
      let seen : Option (Option (Str × Str × Str × Str × Header)) :=
        if up = "-" then some none else if up = "multiple" then none else
        match upParts with
        | [a, b, c, d, e, _] => (do pure (some (← unhex a, ← unhex b, ← unhex c, ← unhex d, ← parseHeader e)))
        | _ => none
      match seen with
      | none => (st', "BADLINE proxy upstream part")
      | some seen =>
        let aeClient := !(h.values hAcceptEncoding).isEmpty
        let keys := ((h.map (·.1)) ++ (st.l.reqHeaders.map (·.1)) ++ stripped).eraseDups.filter fun k =>
          !transportKeys.contains k && !(k = hAcceptEncoding && !aeClient && st.upAE.isEmpty)
        -- monitors on what the implementation did
        let mon : String :=
          match seen with
          | none => if xs = "hit".toList then "" else " TRIP upstream_not_contacted"
          | some (sm, sp, sq, sb, sh) =>
            (if sm ≠ m then " TRIP upstream_saw_diff:method" else "")
            ++ (if sb ≠ body then " TRIP upstream_saw_diff:body" else "")
            ++ (if st.l.rewrites.isEmpty ∧ sp ≠ path then " TRIP upstream_saw_diff:path" else "")
            -- … and byte for byte as the client wrote it (an escaped reserved character stays escaped)
            ++ (if st.l.rewrites.isEmpty ∧ rawSeen ≠ rawSent.toList then " TRIP upstream_saw_diff:path:escaping" else "")
            -- … also when the location has rewrite rules but none of them applies to this path
            ++ (if !st.l.rewrites.isEmpty ∧ u.path = path ∧ rawSeen ≠ rawSent.toList then " TRIP upstream_saw_diff:path:escaping" else "")
            -- a `$k` of a rule's value that names one of the rule's wildcards never reaches the upstream verbatim
            ++ (if (st.l.rewrites.any fun (pat, value) =>
                    (List.range (pat.filter (· = '*')).length).any fun i =>
                      let tok : Str := ['$', Char.ofNat ('1'.toNat + i)]
                      Str.contains tok value && Str.contains tok sp && !Str.contains tok path)
                then " TRIP upstream_saw_diff:path:unsubstituted" else "")
            ++ (if !(Str.hasPrefix rawq sq) ∨ (st.l.query.isEmpty ∧ sq ≠ rawq) then " TRIP upstream_saw_diff:query" else "")
            -- … followed by the parameters configured for THIS location and nothing else
            ++ (if !st.l.query.isEmpty ∧ sq ≠ (if rawq.isEmpty then st.l.query else rawq ++ "&".toList ++ st.l.query) then " TRIP upstream_saw_diff:query:added" else "")
            ++ (if xs = "fetching".toList ∧ stripped.any (fun k => !(sh.values k).isEmpty ∧ !(st.l.reqHeaders.any (·.1 = k))) then " TRIP conditional_leaked" else "")
            -- the Accept-Encoding the origin sees is the one configured for THIS upstream, or else the client's own
            ++ (if (if st.upAE.isEmpty then sh.values hAcceptEncoding ≠ h.values hAcceptEncoding ∧ aeClient else sh.values hAcceptEncoding ≠ [st.upAE]) then " TRIP upstream_saw_diff:header:accept-encoding" else "")
            ++ (if keys.any (fun k => !stripped.contains k ∧ k ≠ hAcceptEncoding ∧ !(st.l.reqHeaders.any (·.1 = k)) ∧ sh.values k ≠ h.values k) then " TRIP upstream_saw_diff:header" else "")
        let monResp : String :=
          (if second ∧ isGetHead ∧ (code ≠ 200 ∨ rbody ≠ "0123456789abcdefghijklmnopqrstuvwxyz".toList) then " TRIP partial_replayed" else "")
          ++ (if xs = "fetching".toList ∧ m = "GET".toList ∧ h.get "If-None-Match".toList = "\"v1\"".toList
                ∧ (h.values "Range".toList).isEmpty ∧ (h.values "If-Modified-Since".toList).isEmpty ∧ code ≠ 304 then " TRIP no_304" else "")
          ++ (if xs = "hit".toList ∧ !ageLeaves then " TRIP stored_unshareable TRIP lifetime_gt_declared" else "")
          ++ (if code = 200 ∧ st.l.respHeaders.any (fun kv => !(rh.values kv.1).contains kv.2) then " TRIP response_header_missing" else "")
          ++ (if code = 200 ∧ (rh.values "X-Origin".toList).take 2 ≠ ["o1".toList, "o2".toList] then " TRIP status_or_header_changed" else "")
          -- the origin's own Age header is an end-to-end header of its answer: an answer that is not served from
          -- pike's cache carries it unchanged
          ++ (if code = 200 ∧ xs ≠ "hit".toList ∧ !st.originAge.isEmpty ∧ rh.values "Age".toList ≠ [st.originAge] then " TRIP status_or_header_changed" else "")
        -- model agreement
        let agreeUp : Bool := match seen with
          | none => hit
          | some (sm, sp, sq, sb, sh) =>
            !hit && sm = u.method && sp = u.path && sq = u.rawQuery && sb = u.body && keys.all (fun k => sh.values k = u.header.values k)
        let afterH := (parseHeader restored).getD []
        let mAfter := if hit then h else restoredHeader fetching st.l st.upAE r
        let restoredOK : Bool := (keys ++ [hAcceptEncoding]).all fun k =>
          afterH.values k = mAfter.values k ∨ (k = hAcceptEncoding ∧ !aeClient ∧ afterH.values k = [[]] ∧ !st.upAE.isEmpty)
        let agree := agreeUp && xs = mxs && restoredOK
        let cls := s!"{str m}-{str mxs}"
        let _ := (pathAfter, queryAfter)
        if agree then (st', s!"ok {cls} 1{mon}{monResp}")
        else (st', s!"DIFF proxy {cls} model=({str u.path},{str u.rawQuery},{showHeader (u.header.filter fun e => keys.contains e.1)}) impl={up.take 300} xs={str xs}/{str mxs} agreeUp={agreeUp} restoredOK={restoredOK}{mon}{monResp}")
    | _, _, _, _, _, _, _, _, _ => (st, "BADLINE proxy req parse")
  | _ => (st, "BADLINE proxy fields")

end Pike.Driver
