import Pike.Driver.Wire
import Pike.Model.Key
namespace Pike.Driver
open Pike Wire

def judgeKey (fields : List String) : String :=
  match fields with
  | [_i, m1, h1, u1, m2, h2, u2, "=>", k1, k2, xs1, xs2, b1, b2] =>
    match unhex m1, unhex h1, unhex u1, unhex m2, unhex h2, unhex u2 with
    | some m1, some h1, some u1, some m2, some h2, some u2 =>
      match unhex k1, unhex k2, unhex xs1, unhex xs2, unhex b1, unhex b2 with
      | some k1, some k2, some xs1, some xs2, some b1, some b2 =>
        let same := m1 = m2 ∧ h1 = h2 ∧ u1 = u2
        let want (m h u : Str) : Str := m ++ '|' :: (h ++ '|' :: u)
        -- monitor: each client got the body produced for its own triple; a hit only for the same triple
        let trip :=
          (if b1 ≠ want m1 h1 u1 ∨ b2 ≠ want m2 h2 u2 then " TRIP cross_key:wrong_body" else "") ++
          (if xs2 = "hit".toList ∧ !same then " TRIP cross_key:hit_for_other_triple" else "")
        let mk1 := Key.getKey m1 h1 u1
        let mk2 := Key.getKey m2 h2 u2
        let mxs2 : Str := if mk1 = mk2 then "hit".toList else "fetching".toList
        if mk1 = k1 ∧ mk2 = k2 ∧ xs1 = "fetching".toList ∧ xs2 = mxs2 then s!"ok {if same then "same" else "differ"} 1{trip}"
        else s!"DIFF key model=({hex mk1},{hex mk2},{str mxs2}) impl=({hex k1},{hex k2},{str xs2}){trip}"
      | _, _, _, _, _, _ => "BADLINE key out"
    | _, _, _, _, _, _ => "BADLINE key in"
  | _ => "BADLINE key fields"

end Pike.Driver
