import Pike.Driver.Wire
import Pike.Model.LZ4
namespace Pike.Driver
open Pike Wire LZ4

def judgeCodecs (fields : List String) : String :=
  match fields with
  | [kind, fmt, _lvl, _cls, _len, "=>", res] =>
    if kind = "enc" ∨ kind = "dec" then
      if res = "ok" then s!"ok {kind}-{fmt} 1" else s!"ok {kind}-{fmt} 1 TRIP roundtrip_fails:{fmt}:{res}"
    else if kind = "mut" then
      if res = "ok" ∨ res = "err" then s!"ok mut-{fmt}-{res} 1" else s!"ok mut-{fmt} 1 TRIP decoder_crash:{fmt}:{res}"
    else "BADLINE codecs kind"
  | ["lz4", kind, _blen, _cls, _len, block, "=>", res, out] =>
    let crash := if res = "panic" ∨ res = "timeout" then " TRIP decoder_crash:lz4:" ++ res else ""
    let mism := if res = "mismatch" then " TRIP roundtrip_fails:lz4:mismatch" else ""
    if block = "-" then
      -- too large to ship: judged by the monitor only
      let fail := if res = "err" then " TRIP roundtrip_fails:lz4:err" else ""
      s!"ok lz4-large 1{crash}{mism}{fail}"
    else
      match (if block = "empty" then some [] else unhex block) with
      | none => "BADLINE codecs lz4 block"
      | some b =>
        let fmtOut := decodeBlock b
        -- the monitor: a block the FORMAT accepts must be restored (the library quirk shows here)
        let fail := match fmtOut with
          | some _ => if res = "err" then (if b = [Char.ofNat 0] then " TRIP roundtrip_fails:lz4:empty_block" else " TRIP roundtrip_fails:lz4:err") else ""
          | none => ""
        -- the model of pike's wrapper over the pinned library (with its empty-block quirk)
        let m := wrapper true Facts.lz4InitialFactor.toNat Facts.lz4MaxRatio.toNat b
        let implOut : Option (Option Str) :=
          if res = "err" then some none
          else if res = "ok" ∨ res = "mismatch" then
            (if out.startsWith "len:" then none else (unhex out).map some)
          else none
        match implOut with
        | none => s!"ok lz4-{(unhex kind).map str |>.getD "?"}-unjudged 0{crash}{mism}{fail}"
        | some io =>
          if io = m then s!"ok lz4-{(unhex kind).map str |>.getD "?"} 1{crash}{mism}{fail}"
          else s!"DIFF codecs lz4 model={m.map (·.length)} impl={io.map (·.length)}{crash}{mism}{fail}"
  | _ => "BADLINE codecs fields"

end Pike.Driver
