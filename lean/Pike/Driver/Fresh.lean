import Pike.Driver.Wire
import Pike.Model.Fresh
import Pike.Spec.C03
namespace Pike.Driver
open Pike Wire

/-- one `fresh` line: fields after the suite name.
in:  idx method status header "=>" stored life hfp upcalls xstatus code
out: verdict line -/
def judgeFresh (fields : List String) : String :=
  match fields with
  | [_idx, m, _status, hdr, "=>", stored, life, _hfp, up1, xs1, _code, up2, xs2, b1, b2] =>
    match unhex m, parseHeader hdr, stored.toNat?, life.toInt? with
    | some method, some h, some st, some L =>
      let implStored := st == 1
      -- the monitor is evaluated on what the implementation did, model or no model
      let mon := if implStored then Spec.C03.shareableOK method h L else true
      let isGH := method = "GET".toList ∨ method = "HEAD".toList
      let xs1 := (unhex xs1).getD []
      let xs2 := (unhex xs2).getD []
      let hitLbl : Str := "hit".toList
      -- createdAt + ttl overflows int64: the entry is expired at once and never served (C04.overflow_never_served)
      let wraps : Bool := decide (L + 1700000000 ≥ 9223372036854775808)
      -- label truthfulness and forwarding: a hit never touched the upstream, anything else exactly once; an
      -- unqualified response is delivered only to the request that fetched it
      let trip := (if mon then "" else " TRIP stored_unshareable")
        ++ (if up1 ≠ "1" then " TRIP pass_not_forwarded_once" else "")
        ++ (if (xs2 = hitLbl ∧ up2 ≠ "0") ∨ (xs2 ≠ hitLbl ∧ up2 ≠ "1") then " TRIP label_lies" else "")
        ++ (if !isGH ∧ (xs1 ≠ "passed".toList ∨ xs2 ≠ "passed".toList) then " TRIP label_lies" else "")
        ++ (if !implStored ∧ method ≠ "HEAD".toList ∧ b1 = b2 then " TRIP unqualified_shared" else "")
        ++ (if implStored ∧ L > Spec.C03.lifetime h then " TRIP lifetime_gt_declared" else "")
        ++ (if implStored ∧ !wraps ∧ (xs2 ≠ hitLbl ∨ (method ≠ "HEAD".toList ∧ b1 ≠ b2)) then " TRIP stored_not_served" else "")
      match Fresh.cfgOfFacts with
      | none => s!"nomodel{trip}"
      | some c =>
        let md := Fresh.storeDecision c method true true h
        let nontrivial := md.isSome || !(h.values Fresh.hCacheControl).isEmpty
        let cls := match md with | some _ => "stored" | none => "notstored"
        let agree := (match md with
          | some ml => implStored && ml == L && (xs2 == hitLbl) == !wraps
          | none => !implStored && xs2 != hitLbl)
          && xs1 == (if isGH then "fetching".toList else "passed".toList)
        if agree then s!"ok {cls} {if nontrivial then 1 else 0}{trip}"
        else s!"DIFF model={repr md} impl=({st},{L}){trip}"
    | _, _, _, _ => "BADLINE parse"
  | _ => "BADLINE fields"

end Pike.Driver
