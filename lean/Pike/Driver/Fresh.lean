import Pike.Driver.Wire
import Pike.Model.Fresh
import Pike.Spec.C03
namespace Pike.Driver
open Pike Wire

/-- one `fresh` line: fields after the suite name.
in:  idx method status header "=>" stored life hfp upcalls xstatus code
out: verdict line -/
def judgeFresh (fields : List String) : String :=
  match fields with
  | [_idx, m, _status, hdr, "=>", stored, life, _hfp, _up, _xs, _code] =>
    match unhex m, parseHeader hdr, stored.toNat?, life.toInt? with
    | some method, some h, some st, some L =>
      let implStored := st == 1
      -- the monitor is evaluated on what the implementation did, model or no model
      let mon := if implStored then Spec.C03.shareableOK method h L else true
      let trip := if mon then "" else " TRIP stored_unshareable"
      match Fresh.cfgOfFacts with
      | none => s!"nomodel{trip}"
      | some c =>
        let md := Fresh.storeDecision c method true true h
        let nontrivial := md.isSome || !(h.values Fresh.hCacheControl).isEmpty
        let cls := match md with | some _ => "stored" | none => "notstored"
        let agree := match md with
          | some ml => implStored && ml == L
          | none => !implStored
        if agree then s!"ok {cls} {if nontrivial then 1 else 0}{trip}"
        else s!"DIFF model={repr md} impl=({st},{L}){trip}"
    | _, _, _, _ => "BADLINE parse"
  | _ => "BADLINE fields"

end Pike.Driver
