import Pike.Driver.Wire
import Pike.Model.Location
import Pike.Spec.C14
namespace Pike.Driver
open Pike Wire

def parseList (s : String) : Option (List Str) :=
  if s = "-" then some [] else
  (s.splitOn ",").mapM fun v => match v.toList with
    | '.' :: r => unhex (String.ofList r)
    | _ => none

def parseLocs (s : String) : Option (List (Str × Str × List Str × List Str)) :=
  (s.splitOn ";").mapM fun e => match e.splitOn "|" with
    | [n, u, hs, ps] => do
      pure (← unhex n, ← unhex u, ← parseList hs, ← parseList ps)
    | _ => none

def judgeLoc (fields : List String) : String :=
  match fields with
  | [_i, locs, names, host, uri, "=>", up, code, calls] =>
    match parseLocs locs, parseList names, unhex host, unhex uri, unhex up, code.toNat?, calls.toNat? with
    | some ls, some names, some host, some uri, some up, some code, some calls =>
      let specLocs : List Spec.C14.L := ls.map fun (n, u, hs, ps) => ⟨n, u, hs, ps⟩
      let trip := if Spec.C14.routedOK specLocs names host uri up code calls then "" else " TRIP routing"
      let mlocs : List Location.Loc := ls.map fun (n, u, hs, ps) => ⟨n, hs, ps, u⟩
      let allowed := (Location.allowed mlocs host uri names).map (·.upstream)
      let agree := if up.isEmpty then allowed.isEmpty && calls == 0 && code == 503 else allowed.contains up && calls == 1 && code == 200
      let cls := if allowed.isEmpty then "none" else if allowed.length > 1 then "tie" else "unique"
      if agree then s!"ok {cls} 1{trip}" else s!"DIFF loc allowed={allowed.map str} impl={str up} code={code} calls={calls}{trip}"
    | _, _, _, _, _, _, _ => "BADLINE loc parse"
  | _ => "BADLINE loc fields"

end Pike.Driver
