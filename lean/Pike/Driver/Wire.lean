import Pike.Model.Header
/- Line protocol helpers for the driver: hex fields, header lists. -/
namespace Pike
namespace Wire

def hexVal (c : Char) : Option Nat :=
  if '0' ≤ c ∧ c ≤ '9' then some (c.toNat - '0'.toNat)
  else if 'a' ≤ c ∧ c ≤ 'f' then some (c.toNat - 'a'.toNat + 10)
  else if 'A' ≤ c ∧ c ≤ 'F' then some (c.toNat - 'A'.toNat + 10)
  else none

def unhexL : List Char → Option Str
  | [] => some []
  | a :: b :: r => do
    let x ← hexVal a
    let y ← hexVal b
    let rest ← unhexL r
    pure (Char.ofNat (x * 16 + y) :: rest)
  | _ => none

/-- "-" is the empty string -/
def unhex (s : String) : Option Str :=
  if s = "-" then some [] else unhexL s.toList

def hexDigit (n : Nat) : Char :=
  if n < 10 then Char.ofNat (n + '0'.toNat) else Char.ofNat (n - 10 + 'a'.toNat)

def hexL (s : Str) : String :=
  String.ofList (s.flatMap fun c => [hexDigit (c.toNat / 16 % 16), hexDigit (c.toNat % 16)])

def hex (s : Str) : String := if s.isEmpty then "-" else hexL s

/-- header wire format: `hexkey:.hexv,.hexv;hexkey:...`, "-" = empty -/
def parseHeader (s : String) : Option Header :=
  if s = "-" then some [] else
  (s.splitOn ";").mapM fun ent =>
    match ent.splitOn ":" with
    | [k, vs] => do
      let k' ← unhexL k.toList
      let vals ← if vs = "" then some [] else
        (vs.splitOn ",").mapM fun v =>
          match v.toList with
          | '.' :: r => unhexL r
          | _ => none
      pure (k', vals)
    | _ => none

def showHeader (h : Header) : String :=
  if h.isEmpty then "-" else
  ";".intercalate (h.map fun (k, vs) =>
    hexL k ++ ":" ++ ",".intercalate (vs.map fun v => "." ++ hexL v))

def str (s : Str) : String := String.ofList s

end Wire
end Pike
