import Pike.Driver.Wire
namespace Pike.Driver
open Pike Wire

structure CrashFetch where
  rid : Nat
  uri : Str
  ttl : Int
  cacheable : Bool
  at_ : Int

structure CrashSt where
  fetches : List CrashFetch := []
  kills : Nat := 0

/-- monitor only (the store decides nondeterministically which writes survive a kill):
C08's clauses on what the clients observed across kills and restarts -/
def judgeCrash (st : CrashSt) (fields : List String) : CrashSt × String :=
  match fields with
  | ["begin", _] => ({}, "ok begin 0")
  | ["end"] => ({}, s!"ok end-kills-{st.kills} 1")
  | ["started", _] => (st, "ok started 1")
  | ["kill", _] => ({ st with kills := st.kills + 1 }, "ok kill 1")
  | ["tick", _] => (st, "ok tick 0")
  | ["purge", _] => (st, "ok purge 1")
  | "notstarted" :: _ => (st, "ok notstarted 1 TRIP not_started")
  | "startfail" :: _ => (st, "ok startfail 1 TRIP not_started")
  | ["up", uri, rid, ttl, kind, t] =>
    match unhex uri, rid.toNat?, ttl.toInt?, unhex kind, t.toInt? with
    | some uri, some rid, some ttl, some kind, some t =>
      ({ st with fetches := ⟨rid, uri, ttl, kind = "cacheable".toList, t⟩ :: st.fetches }, "ok up 1")
    | _, _, _, _, _ => (st, "BADLINE crash up")
  | ["resp", _step, uri, xs, age, body, xrid, code, t] =>
    match unhex uri, unhex xs, unhex age, unhex body, unhex xrid, code.toNat?, t.toInt? with
    | some uri, some xs, some age, some body, some xrid, some code, some now =>
      let rid := if xrid.isEmpty ∨ !xrid.all Str.isDigit then none else some (Str.natOfDigits xrid)
      let f := rid.bind fun r => st.fetches.find? (·.rid = r)
      let wantBody (r : Nat) : Str := ('r' :: (toString r).toList) ++ (':' :: uri)
      let trip :=
        if code ≠ 200 then " TRIP client_error"
        else match f, rid with
          | some f, some r =>
            (if f.uri ≠ uri ∨ body ≠ wantBody r then " TRIP served_altered" else "")
            ++ (if xs = "hit".toList then
                  (if !f.cacheable then " TRIP served_altered:uncacheable_served_as_hit" else "")
                  ++ (if now > f.at_ + f.ttl + 1 then " TRIP served_after_original_expiry" else "")
                  ++ (match (if age.isEmpty then some 0 else if age.all Str.isDigit then some (Str.natOfDigits age : Int) else none) with
                      | some a => if a + 1 < now - f.at_ - 1 then " TRIP age_reset" else ""
                      | none => " TRIP age_reset:unparsable")
                else "")
          | _, _ => " TRIP served_altered:unknown_response"
      (st, s!"ok resp-{str xs}{if st.kills > 0 then "-after-kill" else ""} 1{trip}")
    | _, _, _, _, _, _, _ => (st, "BADLINE crash resp")
  | _ => (st, "BADLINE crash fields")

end Pike.Driver
