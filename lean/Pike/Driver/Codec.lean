import Pike.Driver.Wire
import Pike.Model.Codec
namespace Pike.Driver
open Pike Wire Codec

def jnull : Str := "null".toList

/-- header = raw JSON bytes; everything the harness hands over was produced by json.Marshal -/
def trustAll : HCodec Str := ⟨id, some, jnull, fun _ => true⟩

/-- pessimistic: only the known-valid JSON text / filter source are accepted -/
def trustOnly (j f : Str) : HCodec Str :=
  ⟨id, fun s => if s = j then some s else none, jnull, fun s => s = f⟩

def implOutcome (s : String) : String :=
  if s = "PANIC" ∨ s = "TIMEOUT" then " TRIP decode_crash:" ++ s else ""

def judgeCodec (fields : List String) : String :=
  match fields with
  | op :: _i :: st :: cr :: ex :: hasResp :: srv :: ml :: fl :: hj :: code :: gz :: br :: raw :: "=>" :: impl :: re :: _alloc :: rt :: [] =>
    if op ≠ "enc" ∧ op ≠ "enc-obs" then "BADLINE codec op" else
    match st.toNat?, cr.toInt?, ex.toInt?, unhex srv, ml.toNat?, unhex fl, unhex hj, code.toNat? with
    | some st, some cr, some ex, some srv, some ml, some fl, some hj, some code =>
      match unhex gz, unhex br, unhex raw, unhex impl with
      | some gz, some br, some raw, some impl =>
        let resp : Option (Resp Str) := if hasResp = "1" then some ⟨srv, ml, fl, hj, code, gz, br, raw⟩ else none
        let e : Entry Str := ⟨st, resp, cr, ex⟩
        let enc := encodeEntry trustAll e
        let dec := decodeEntry trustAll impl
        let mre : String := match dec with | some e' => hex (encodeEntry trustAll e') | none => "ERR"
        let trip := (if rt = "same" then "" else " TRIP roundtrip_differs:" ++ rt) ++ implOutcome re
        let cls := if hasResp = "1" then (if st == 3 then "hit" else "hfp-resp") else "hfp-empty"
        -- obs-text stream: json.Marshal∘Unmarshal is not the identity on the JSON text there (D12), so only
        -- acceptance is compared; the behavioural monitor (rt) carries the property
        let reAgree := if op = "enc-obs" then (mre = "ERR") = (re = "ERR") else mre = re
        if enc = impl ∧ reAgree then s!"ok {op}-{cls} 1{trip}"
        else s!"DIFF codec {op} encAgree={decide (enc = impl)} model_re={mre.take 60} impl_re={re.take 60}{trip}"
      | _, _, _, _ => "BADLINE codec enc hex"
    | _, _, _, _, _, _, _, _ => "BADLINE codec enc nums"
  | ["trunc", _i, rec, j, f, "=>", res] =>
    match unhex rec, unhex j, unhex f with
    | some rec, some j, some f =>
      let c := trustOnly j f
      let m := String.ofList ((List.range rec.length).map fun k =>
        match decodeEntry c (rec.take k) with | some _ => 'A' | none => 'E')
      let trip := (if res.toList.contains 'A' then " TRIP truncated_accepted" else "")
        ++ (if res.toList.contains 'P' ∨ res.toList.contains 'T' then " TRIP decode_crash" else "")
      if m = res then s!"ok trunc 1{trip}" else s!"DIFF codec trunc{trip}"
    | _, _, _ => "BADLINE codec trunc"
  | ["mut", _i, data, j, f, "=>", res, alloc] =>
    match unhex data, unhex j, unhex f, alloc.toNat? with
    | some data, some j, some f, some alloc =>
      let p := decodeEntry (trustOnly j f) data
      let o := decodeEntry trustAll data
      let trip := implOutcome res ++ (if alloc > 100 * data.length + 2097152 then " TRIP alloc_exceeds" else "")
      if p = o then
        let m : String := match p with | some e => hex (encodeEntry trustAll e) | none => "ERR"
        let cls := if p.isSome then "accepted" else "rejected"
        if m = res then s!"ok mut-{cls} 1{trip}" else s!"DIFF codec mut model={m.take 60} impl={res.take 60}{trip}"
      else s!"ok mut-opaque 0{trip}"
    | _, _, _, _ => "BADLINE codec mut"
  | "nosave" :: _ => "DIFF codec nosave"
  | _ => "BADLINE codec fields"

end Pike.Driver
