import Pike.Driver.Wire
import Pike.Model.StoreMap
namespace Pike.Driver
open Pike Wire StoreMap

structure StoreSt where
  m : M := []
  /-- every value ever written, with the (store, key) it was written for -/
  written : List (Str × K) := []

def judgeStore (st : StoreSt) (fields : List String) : StoreSt × String :=
  match fields with
  | ["open", "fail"] => (st, "ok open-fail 1 TRIP not_started")
  | ["open", "ok", _lens] => ({}, "ok open 0")
  | ["registry", same, distinct] =>
    (st, "ok registry 1" ++ (if same ≠ "1" ∨ distinct ≠ "1" then " TRIP wrong_body_for_key:registry" else ""))
  | ["bigvalue", ok] => (st, "ok bigvalue 1" ++ (if ok ≠ "1" then " TRIP roundtrip_differs:big_record_not_persisted" else ""))
  | ["keyintact", ok] => (st, "ok keyintact 1" ++ (if ok ≠ "1" then " TRIP wrong_body_for_key:key_rewritten" else ""))
  | ["shared", ok] => (st, "ok shared 1" ++ (if ok ≠ "1" then " TRIP not_started:store_closed_by_reload" else ""))
  | ["concurrent-open", ok] => (st, "ok concurrent-open 1" ++ (if ok ≠ "1" then " TRIP not_started:store_opened_twice" else ""))
  | ["set", s, k, v, "=>", res] =>
    match s.toNat?, k.toNat?, unhex v with
    | some s, some k, some v =>
      -- a store may refuse a write (badger refuses keys beyond its limit): nothing changes then
      if res = "ok" then ({ st with m := set st.m (s, k) v, written := (v, (s, k)) :: st.written }, s!"ok set-{k} 1")
      else (st, s!"ok set-refused-{k} 1")
    | _, _, _ => (st, "BADLINE store set")
  | ["get", s, k, "=>", res, d] =>
    match s.toNat?, k.toNat?, unhex d with
    | some s, some k, some d =>
      let want := get st.m (s, k)
      -- monitors on the implementation alone: what a store hands out for a key was written for that key of that
      -- store (C06, C08, C09) and has not been deleted since (C18)
      let foreign : Bool := res = "found" && (match st.written.lookup d with | some o => o != (s, k) | none => true)
      let trip := (if foreign then " TRIP wrong_body_for_key" else "")
        ++ (if res = "found" ∧ !foreign ∧ want = none then " TRIP record_survives" else "")
      let impl : Option Str := if res = "found" then some d else none
      if impl = want then (st, s!"ok get-{k}-{res} 1{trip}")
      else (st, s!"DIFF store get key={k} store={s} model={want.map str} impl={res}:{str d}{trip}")
    | _, _, _ => (st, "BADLINE store get")
  | ["del", s, k, "=>", res] =>
    match s.toNat?, k.toNat? with
    | some s, some k =>
      if res = "ok" then ({ st with m := del st.m (s, k) }, s!"ok del-{k} 1") else (st, s!"ok del-refused-{k} 1")
    | _, _ => (st, "BADLINE store del")
  | _ => (st, "BADLINE store fields")

end Pike.Driver
