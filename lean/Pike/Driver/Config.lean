import Pike.Driver.Wire
import Pike.Driver.Loc
import Pike.Model.Config
import Pike.Model.Fields
namespace Pike.Driver
open Pike Wire Config

def parseNames (s : String) : Option (List Str) := parseList s

def judgeConfig (fields : List String) : String :=
  match fields with
  | ["watch", res] =>
    -- the running instance's change callback has read the configuration that was saved last
    if res = "ok" then "ok watch 1" else if res = "no-events" then "ok watch-unavailable 0"
    else s!"ok watch 1 TRIP differs_from_fresh:watch:{res}"
  | ["field", kind, v, "=>", acc] =>
    match unhex v with
    | none => "BADLINE config field"
    | some v =>
      match Fields.fieldOK kind v with
      | none => "BADLINE config field kind"
      | some ok =>
        let trip := if acc = "1" ∧ !ok then s!" TRIP accepted_malformed:{kind}" else ""
        if (acc = "1") = ok then s!"ok field-{kind}-{acc} 1{trip}" else s!"DIFF config field {kind} value={str v} model={ok} impl={acc}{trip}"
  | [_i, defect, sok, comp, caches, ups, locs, srvs, "=>", cls, probes, rt] =>
    let locsP : Option (List Loc) := if locs = "-" then some [] else
      (locs.splitOn ";").mapM fun e => match e.splitOn "|" with
        | [n, u] => do pure ⟨← unhex n, ← unhex u⟩
        | _ => none
    let srvsP : Option (List Srv) := if srvs = "-" then some [] else
      (srvs.splitOn ";").mapM fun e => match e.splitOn "|" with
        | [a, ls, c, z] => do pure ⟨← unhex a, ← parseList ls, ← unhex c, ← unhex z⟩
        | _ => none
    match parseNames comp, parseNames caches, parseNames ups, locsP, srvsP, unhex defect with
    | some comp, some caches, some ups, some locs, some srvs, some defect =>
      let c : Cfg := ⟨comp, caches, ups, locs, srvs⟩
      let v := validate (sok = "1") c
      let mcls := match v with
        | .ok => "ok" | .structErr => "struct" | .upstreamNotFound => "upstream"
        | .locationNotFound => "location" | .cacheNotFound => "cache" | .compressNotFound => "compress"
      -- monitors on the implementation: an accepted configuration has no dangling reference, resolves, round-trips
      let dangling := !(locs.all fun l => ups.contains l.upstream)
        || !(srvs.all fun s => (s.locations.all fun n => locs.any (·.name = n)) && caches.contains s.cache
              && (s.compress = [] || comp.contains s.compress))
      let trip := (if cls = "ok" ∧ dangling then " TRIP accepted_dangling" else "")
        ++ (if cls = "ok" ∧ probes ≠ "ok" then " TRIP accepted_unresolvable:" ++ probes else "")
        ++ (if cls = "ok" ∧ rt ≠ "same" then " TRIP roundtrip_differs:" ++ rt else "")
        -- … and is well-formed in every field (the generator knows which field it damaged)
        ++ (if cls = "ok" ∧ sok ≠ "1" then " TRIP accepted_malformed:" ++ str defect else "")
        -- … and what is not accepted is not saved (`Write` validates; the stored configuration stays what it was)
        ++ (if cls ≠ "ok" ∧ rt ≠ "write-refused" then " TRIP accepted_malformed:" ++ rt else "")
      if mcls = cls then s!"ok {str defect}-{cls} 1{trip}" else s!"DIFF config model={mcls} impl={cls} defect={str defect}{trip}"
    | _, _, _, _, _, _ => "BADLINE config parse"
  | _ => "BADLINE config fields"

end Pike.Driver
