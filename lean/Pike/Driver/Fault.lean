import Pike.Driver.Wire
import Pike.Model.Conditional
namespace Pike.Driver
open Pike Wire

/-
suite fault: transport-level misbehaviour of the origin behind a real listening server.  What the request path
owes the client and the origin here is small enough to state outright:
  * a request is handed to the origin once — a failed exchange is reported (5xx / aborted), never replayed, and a
    redirect is the client's to follow;
  * the label is `fetching` for GET/HEAD on an undecided key, `passed` for other methods, `hitForPass` afterwards;
  * an unshareable answer (302 no-store; a body that ended early) is never stored.
-/

def faultLabel (m : Str) (second : Bool) : Str :=
  if m = "GET".toList ∨ m = "HEAD".toList then (if second then "hitForPass".toList else "fetching".toList) else "passed".toList

def judgeFault (fields : List String) : String :=
  match fields with
  | ["nostart"] => "ok nostart 0"
  | ["drop", m, _hasBody, _timeout, "=>", contacts, code, _xs] =>
    match unhex m, contacts.toNat?, code.toInt? with
    | some m, some contacts, some code =>
      -- (pike reports the broken exchange as an error answer of its own: 400 from the proxy middleware's error handler)
      let trip := (if contacts ≠ 1 then " TRIP upstream_contacts_ne_one" else "")
        ++ (if code ≥ 0 ∧ code < 400 then " TRIP label_lies" else "")
      if contacts = 1 ∧ (code < 0 ∨ code ≥ 400) then s!"ok drop-{str m} 1{trip}"
      else s!"DIFF fault drop model=(1,error) impl=({contacts},{code}){trip}"
    | _, _, _ => "BADLINE fault drop"
  | ["redirect", m, _timeout, "=>", c1, cn, code1, locOK, xs1, c2, code2, xs2] =>
    match unhex m, c1.toNat?, cn.toNat?, code1.toInt?, unhex xs1, c2.toNat?, code2.toInt?, unhex xs2 with
    | some m, some c1, some cn, some code1, some xs1, some c2, some code2, some xs2 =>
      let trip := (if c1 ≠ 1 ∨ cn ≠ 0 ∨ c2 ≠ 1 then " TRIP upstream_contacts_ne_one" else "")
        ++ (if code1 ≠ 302 ∨ code2 ≠ 302 ∨ locOK ≠ "1" then " TRIP status_or_header_changed" else "")
        ++ (if xs2 = "hit".toList then " TRIP stored_unshareable" else "")
      if c1 = 1 ∧ cn = 0 ∧ c2 = 1 ∧ code1 = 302 ∧ code2 = 302 ∧ locOK = "1" ∧ xs1 = faultLabel m false ∧ xs2 = faultLabel m true
      then s!"ok redirect-{str m} 1{trip}"
      else s!"DIFF fault redirect model=(1,0,302,{str (faultLabel m false)},1,302,{str (faultLabel m true)}) impl=({c1},{cn},{code1},{str xs1},{c2},{code2},{str xs2}){trip}"
    | _, _, _, _, _, _, _, _ => "BADLINE fault redirect"
  | ["short", size, _timeout, "=>", code1, n1, _xs1, code2, n2, xs2, contacts] =>
    match size.toNat?, code1.toInt?, n1.toNat?, code2.toInt?, n2.toNat?, unhex xs2, contacts.toNat? with
    | some size, some code1, some n1, some code2, some n2, some xs2, some contacts =>
      -- the client never holds a complete 200 answer with fewer bytes than the origin's body
      let trip := (if (code1 = 200 ∧ n1 ≠ size) ∨ (code2 = 200 ∧ n2 ≠ size) then " TRIP body_differs" else "")
        ++ (if xs2 = "hit".toList ∧ n2 ≠ size then " TRIP stored_unshareable" else "")
        ++ (if contacts ≠ 2 ∧ xs2 ≠ "hit".toList then " TRIP upstream_contacts_ne_one" else "")
      -- model: the fetch whose body ended early is a failed fetch (client sees an error, the key becomes hit-for-pass);
      -- the next request is passed to the (now sane) origin and gets the full body
      if code1 ≠ 200 ∧ code2 = 200 ∧ n2 = size ∧ xs2 = "hitForPass".toList ∧ contacts = 2 then s!"ok short-{size} 1{trip}"
      else s!"DIFF fault short model=(err,200,{size},hitForPass,2) impl=({code1},{n1},{code2},{n2},{str xs2},{contacts}){trip}"
    | _, _, _, _, _, _, _ => "BADLINE fault short"
  | ["bigtext", "=>", c1, ms1, xs1, c2, ms2, xs2, contacts] =>
    match c1.toInt?, ms1.toNat?, unhex xs1, c2.toInt?, ms2.toNat?, unhex xs2, contacts.toNat? with
    | some c1, some ms1, some xs1, some c2, some ms2, some xs2, some contacts =>
      let stuck := c1 = -2 ∨ c2 = -2 ∨ ms1 ≥ 5000 ∨ ms2 ≥ 5000
      let trip := (if stuck then " TRIP blocked" else "") ++ (if !stuck ∧ contacts ≠ 1 then " TRIP upstream_contacts_ne_one" else "")
      if c1 = 200 ∧ c2 = 200 ∧ xs1 = "fetching".toList ∧ xs2 = "hit".toList ∧ contacts = 1 then s!"ok bigtext 1{trip}"
      else s!"DIFF fault bigtext model=(200,fetching,200,hit,1) impl=({c1},{str xs1},{c2},{str xs2},{contacts}){trip}"
    | _, _, _, _, _, _, _ => "BADLINE fault bigtext"
  | ["bighdr", "=>", c1, n1] =>
    -- however large the origin's header block is, its answer is relayed
    if c1 = "200" ∧ n1 = "16" then "ok bighdr 1" else s!"DIFF fault bighdr model=(200,16) impl=({c1},{n1}) TRIP status_or_header_changed"
  | ["concurrent", loc, "=>", mx] =>
    -- three passed requests issued together are at the origin together
    match unhex loc with
    | some loc => if mx = "3" then s!"ok concurrent-{str loc} 1" else s!"ok concurrent-{str loc} 1 TRIP queued_during_hfp"
    | none => "BADLINE fault concurrent"
  | ["nobody", kind, _timeout, "=>", c1, xs1, c2, xs2, contacts] =>
    match unhex kind, c1.toInt?, unhex xs1, c2.toInt?, unhex xs2, contacts.toNat? with
    | some kind, some c1, some xs1, some c2, some xs2, some contacts =>
      -- a cacheable answer without a body is a cacheable answer: the second request is a hit, the origin saw one
      let trip := (if contacts ≠ 1 then " TRIP upstream_contacts_ne_one" else "")
        ++ (if c1 ≠ c2 then " TRIP status_or_header_changed" else "")
      if contacts = 1 ∧ c1 = c2 ∧ xs1 = "fetching".toList ∧ xs2 = "hit".toList then s!"ok nobody-{str kind} 1{trip}"
      else s!"DIFF fault nobody {str kind} model=(fetching,hit,1) impl=({c1},{str xs1},{c2},{str xs2},{contacts}){trip}"
    | _, _, _, _, _, _ => "BADLINE fault nobody"
  | ["badenc", enc, cut, "=>", c1, ms1, c2, ms2, c3, ms3] =>
    match unhex enc, unhex cut, c1.toInt?, ms1.toNat?, c2.toInt?, ms2.toNat?, c3.toInt?, ms3.toNat? with
    | some enc, some cut, some c1, some ms1, some c2, some ms2, some c3, some ms3 =>
      -- every request ends (with whatever answer): no request is left waiting, the key is not stuck
      let stuck := c1 = -2 ∨ c2 = -2 ∨ c3 = -2 ∨ ms1 ≥ 5000 ∨ ms2 ≥ 5000 ∨ ms3 ≥ 5000
      s!"ok badenc-{str enc}-{str cut} 1" ++ (if stuck then " TRIP blocked" else "")
    | _, _, _, _, _, _, _, _ => "BADLINE fault badenc"
  | ["cond", inm, imsP, ims, cc, lm, etag, "=>", c1, xs1, c2, xs2, c3, n3, xs3, contacts] =>
    match unhex inm, ims.toNat?, unhex cc, lm.toNat?, unhex etag, c1.toNat?, unhex xs1, c2.toNat?, unhex xs2 with
    | some inm, some ims, some cc, some lm, some etag, some c1, some xs1, some c2, some xs2 =>
      match c3.toNat?, n3.toNat?, unhex xs3, contacts.toNat? with
      | some c3, some n3, some xs3, some contacts =>
        -- a revalidating client on a COLD key (the proxy withholds its validators from the origin, so a full answer
        -- is fetched and stored) and again on the hit: 304 exactly when `Conditional.check` says so; the plain
        -- client afterwards gets the stored full answer; the origin was asked once
        let fresh := Conditional.check (imsP = "1") ims inm cc lm etag
        let want : Nat := if fresh then 304 else 200
        let allMatch := (imsP = "1" ∨ !inm.isEmpty) ∧ !Conditional.hasNoCache cc
          ∧ Conditional.inmOK inm etag ∧ Conditional.imsOK (imsP = "1") ims lm
        let trip := (if allMatch ∧ (c1 ≠ 304 ∨ c2 ≠ 304) then " TRIP no_304" else "")
          ++ (if !allMatch ∧ (c1 = 304 ∨ c2 = 304) then " TRIP status_or_header_changed" else "")
          ++ (if c3 ≠ 200 ∨ n3 ≠ 25 then " TRIP partial_replayed" else "")
          ++ (if contacts ≠ 1 then " TRIP upstream_contacts_ne_one" else "")
        let cls := if fresh then "304" else "200"
        if c1 = want ∧ c2 = want ∧ c3 = 200 ∧ n3 = 25 ∧ contacts = 1 ∧ xs1 = "fetching".toList ∧ xs2 = "hit".toList ∧ xs3 = "hit".toList
        then s!"ok cond-{cls} 1{trip}"
        else s!"DIFF fault cond model=({want},fetching,{want},hit,200,25,hit,1) impl=({c1},{str xs1},{c2},{str xs2},{c3},{n3},{str xs3},{contacts}){trip}"
      | _, _, _, _ => "BADLINE fault cond tail"
    | _, _, _, _, _, _, _, _, _ => "BADLINE fault cond"
  | _ => "BADLINE fault fields"

end Pike.Driver
