import Pike.Driver.Wire
import Pike.Model.Resp
import Pike.Spec.C05
namespace Pike.Driver
open Pike Wire Resp

structure RespSt where
  active : Bool := false
  status : Nat := 0
  hdr : Header := []
  ageSecond : Option String := none   -- Age header of the hit served from memory (path `second`)
  enc : Str := []
  sym : Str := []
  body : Str := []
  cacheable : Bool := false
  r0 : Option R := none
  k : Codecs := ⟨fun _ b => b, fun _ b => b, fun _ => none, fun _ => none, fun _ => none, fun _ => none, fun _ => none⟩

def symData (enc : Str) (len : Nat) (body : Str) : Str :=
  if enc.isEmpty then body
  else if len = 0 then []
  else
    let tag := if enc = encGzip then 'G' else if enc = encBr then 'B' else if enc = "lz4".toList then 'L'
      else if enc = "zst".toList then 'Z' else 'S'
    tag :: List.replicate (len - 1) '#'

/-- symbolic codecs: pike's own compressions are `g`/`b` + plain; the upstream's data is the
opaque blob `sym` of the real length, decoding to the known plain body -/
def symCodecs (enc sym body : Str) : Codecs :=
  { gzip := fun _ b => 'g' :: b
    brotli := fun _ b => 'b' :: b
    gunzip := fun s => match s with
      | 'g' :: b => some b
      | _ => if s = sym ∧ enc = encGzip ∧ !s.isEmpty then some body else none
    unbr := fun s => match s with
      | 'b' :: b => some b
      | _ => if s = sym ∧ enc = encBr ∧ !s.isEmpty then some body else none
    lz4d := fun s => if s = sym then some body else none
    snzd := fun s => if s = sym then some body else none
    zstd := fun s => if s = sym then some body else none }

def judgeResp (st : RespSt) (fields : List String) : RespSt × String :=
  match fields with
  | ["case", _i, status, hdr, enc, dlen, body, minLen, filter, cacheable, _cls] =>
    match status.toNat?, parseHeader hdr, unhex enc, dlen.toNat?, unhex body, minLen.toNat?, unhex filter with
    | some status, some h, some enc, some dlen, some body, some minLen, some filter =>
      let sym := symData enc dlen body
      let k := symCodecs enc sym body
      let f : Option (Option MiniRe.Alt) := if filter.isEmpty then some none else (MiniRe.parseAlt filter).map some
      match f with
      | none => (st, "BADLINE resp filter not in the modelled subset")
      | some f =>
        let r0 := newResponse k status h enc sym [] minLen f
        ({ active := true, status := status, hdr := h, enc := enc, sym := sym, body := body,
           cacheable := cacheable = "1", r0 := r0, k := k }, "ok case 0")
    | _, _, _, _, _, _, _ => (st, "BADLINE resp case")
  | ["variant", _i, fmt, same, _n, _nref] =>
    -- a variant pike compressed itself at store time is what the best-compression profile produces
    (st, if same = "1" then s!"ok variant-{fmt} 1" else s!"ok variant-{fmt} 1 TRIP stored_variant_not_best_profile:{fmt}")
  | [path, _i, ae, "=>", code, ce, bodyOK, same, clOK, xs, hdr, calls, _len, age] =>
    if !st.active then (st, "BADLINE resp no case") else
    match unhex ae, code.toNat?, unhex ce, unhex xs, parseHeader hdr, calls.toNat? with
    | some ae, some code, some ce, some xs, some h, some calls =>
      -- (Age is compared separately below: on a hit it is pike's own)
      let want := (cloneAndIgnore st.hdr).filter (fun e => e.1 ≠ "Age".toList)
      let errs := Spec.C05.deliveredOK ae ce (bodyOK = "1") (clOK = "1") code st.status h want
      let trip := String.join (errs.map fun e => " TRIP " ++ e)
      -- the upstream's own Age is an end-to-end header of its answer: an answer that is not served from pike's cache
      -- carries it unchanged (a hit carries the age pike computed)
      let upAge := st.hdr.values "Age".toList
      -- … and a hit restored from the store states the same age as the hit served from memory at the same instant
      let trip := trip ++ (if path = "restored" ∧ xs = "hit".toList ∧ st.ageSecond.isSome ∧ st.ageSecond ≠ some age then " TRIP roundtrip_differs:age" else "")
      let st := if path = "second" then { st with ageSecond := if xs = "hit".toList then some age else none } else st
      let trip := trip ++ (if code = st.status ∧ xs ≠ "hit".toList ∧ !upAge.isEmpty ∧ (unhex age).map (fun a => [a]) ≠ some upAge then " TRIP status_or_header_changed" else "")
      -- model
      let hit := st.cacheable ∧ (path = "second" ∨ path = "again" ∨ path = "restored")
      let mxs : Str := if path = "post" then "passed".toList
        else if path = "fetch" then "fetching".toList
        else if st.cacheable then "hit".toList else "hitForPass".toList
      let mcalls : Nat := if hit then 0 else 1
      match st.r0 with
      | none =>
        -- the upstream answer could not be turned into a response object: 500, nothing stored
        let agree := code == 500
        if agree then (st, s!"ok {path}-error 1{trip}") else (st, s!"DIFF resp {path} model=error impl={code}{trip}")
      | some r0 =>
        let r := if st.cacheable ∧ path ≠ "post" then forCache st.k r0 else r0
        match negotiate st.k r ae with
        | none => (st, s!"DIFF resp {path} model=negotiate-error{trip}")
        | some (e, out, _src) =>
          let msame := out = st.sym ∧ !st.sym.isEmpty ∧ !st.enc.isEmpty ∨ (st.enc.isEmpty ∧ e.isEmpty ∧ !st.sym.isEmpty)
          let cell := if e = ce ∧ (decide msame) = (same = "1") then "" else " TRIP cell_differs"
          let agree := e = ce ∧ code = st.status ∧ bodyOK = "1" ∧ (decide msame) = (same = "1") ∧ clOK = "1" ∧ xs = mxs ∧ h = want ∧ calls = mcalls
          let cls := s!"{path}-{str e}-{if msame then "upstream-bytes" else "other"}"
          if agree then (st, s!"ok {cls} 1{trip}{cell}")
          else (st, s!"DIFF resp {path} model=({str e},{decide msame},{str mxs},{mcalls}) impl=({str ce},{same},{str xs},{calls},{code},body={bodyOK},cl={clOK},hdr={decide (h = want)}){trip}{cell}")
    | _, _, _, _, _, _ => (st, "BADLINE resp obs")
  | _ => (st, "BADLINE resp fields")

end Pike.Driver
