import Pike.Model.Header
/- C05 restated on what a client observes (no model): -/
namespace Pike
namespace Spec.C05
open Str

def alphabet : List Str :=
  ["gzip", "br", "deflate", "identity", "zstd", "compress", "x-gzip", "*", "lz4", "snz", "zst"].map String.toList

def toks (s : Str) : List Str := ((splitOn ',' s).map trim).filter (fun t => !t.isEmpty)

/-- `ae`: the client's Accept-Encoding; `ce`: returned Content-Encoding; `bodyOK`: the body
decoded per `ce` equals the upstream's decoded body; `clOK`: Content-Length = bytes sent;
`hdr`/`want`: end-to-end headers received / upstream's minus the representation headers. -/
def deliveredOK (ae ce : Str) (bodyOK clOK : Bool) (code status : Nat) (hdr want : Header) : List String :=
  (if bodyOK then [] else ["body_differs"])
  ++ (if (toks ae).all (fun t => alphabet.contains t) then
        (if ce.isEmpty ∨ (toks ae).contains ce ∨ (ce = "gzip".toList ∧ (toks ae).contains "x-gzip".toList) then []
         else ["encoding_not_accepted"])
      else [])
  ++ (if clOK then [] else ["content_length"])
  ++ (if code = status ∧ hdr = want then [] else ["status_or_header_changed"])

end Spec.C05
end Pike
