import Pike.Base.Str
/- C14 restated without the model: specificity classes by the documented order. -/
namespace Pike
namespace Spec.C14
open Str

structure L where
  name : Str
  upstream : Str
  hosts : List Str
  prefixes : List Str

def L.ok (l : L) (names : List Str) (host uri : Str) : Bool :=
  names.contains l.name
  && (l.hosts.isEmpty || l.hosts.contains host)
  && (l.prefixes.isEmpty || l.prefixes.any (fun p => hasPrefix p uri))

/-- 0 = prefix+host, 1 = prefix, 2 = host, 3 = unconstrained -/
def L.cls (l : L) : Nat :=
  match l.prefixes.isEmpty, l.hosts.isEmpty with
  | false, false => 0
  | false, true => 1
  | true, false => 2
  | true, true => 3

/-- `up` = upstream of the location that handled the request ("" = none), `code`, `calls` -/
def routedOK (locs : List L) (names : List Str) (host uri : Str) (up : Str) (code calls : Nat) : Bool :=
  let cands := locs.filter (fun l => l.ok names host uri)
  if up.isEmpty then cands.isEmpty && code ≥ 500 && calls == 0
  else cands.any (fun l => l.upstream = up && cands.all (fun l' => l.cls ≤ l'.cls))

end Spec.C14
end Pike
