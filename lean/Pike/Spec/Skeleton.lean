/-
The statement skeletons of the cache entry's state machine (cache/http_cache.go) and of the
dispatcher's get-or-create / purge (cache/dispatcher.go) that the Lean model was transcribed from:
  get            -> Entry.get          (load when unknown, expiry check, register / become fetcher, return)
  Get            -> Sys.step .get/.park/.resume (lock, get, unlock, plain receive of the handed-over result)
  Cacheable      -> Sys.step .complete/.send/.saved with Outcome.cacheable (Entry.cacheable)
  HitForPass     -> the same with Outcome.fail (Entry.hitForPass, default period when ttl ≤ 0)
  initFromStore  -> Entry.load / Entry.validRec (scratch decode, validation, copy of the four fields)
  saveToStore    -> Sys.step .saved (record = current fields, ttl = expiredAt - now)
  Age, IsExpired -> Sys.step .age, Entry.expired
  GetHTTPCache / RemoveHTTPCache -> Sys.step .lookup / .purge (LRU.lookup / LRU.remove)
  getCacheMaxAge, requestIsPass (server/) -> Fresh.cacheMaxAge, Fresh.requestIsPass
  HTTPResponse.Bytes/FromBytes, httpCache.Bytes/FromBytes, (read)uint32/uint64 -> Codec.encodeResp/decodeResp/encodeEntry/decodeEntry
  HTTPResponse.shouldCompressed/GetRawBody/Compress/getBodyByAcceptEncoding/Fill -> Resp.shouldCompress/rawBody/compressStore/negotiate/fill
  Location.Match/mergeHeader/AddQuery, Locations.Get/Set -> Location.matches/Proxy.addAll/Proxy.addQuery/Location.get/sorted
  server.Start/Close/Update, servers.Reset, convertConfig (server/server.go) -> the harness pipeline's middleware list; Reconfig.resetServers / effective
  nowUnix (cache/), run (main.go), {redis,mongo,badger}Store.Get/Set/Delete (store/) -> the clock of Entry/Sys, the order watcher/first update, StoreMap (one partial map keyed by the exact key)
`Pike.Facts.skel_*` are regenerated from the source on every run; `C01.skeleton_transcribed`
requires them to be these lists.  Logging and verif hook calls are not part of a skeleton.
-/
namespace Pike
namespace Spec.Skeleton

def Get : List String := [
  "call hc.mu.Lock()",
  "set status,done,response:=hc.get()",
  "call hc.mu.Unlock()",
  "if done!=nil {",
  "set result:=<-done",
  "set status=result.status",
  "set response=result.response",
  "}",
  "return"
]

def get : List String := [
  "set now:=nowUnix()",
  "if hc.status==StatusUnknown {",
  "set err:=hc.initFromStore()",
  "}",
  "if hc.expiredAt!=0&&hc.expiredAt<now {",
  "set hc.status=StatusUnknown",
  "set hc.expiredAt=0",
  "}",
  "if hc.status==StatusFetching {",
  "set done=make(chanwaitResult)",
  "set hc.chanList=append(hc.chanList,done)",
  "}",
  "if hc.status==StatusUnknown {",
  "set hc.status=StatusFetching",
  "set hc.chanList=make([]chanwaitResult,0,5)",
  "}",
  "set status=hc.status",
  "if status==StatusHit {",
  "set data=hc.response",
  "}",
  "return"
]

def HitForPass : List String := [
  "call hc.mu.Lock()",
  "defer hc.mu.Unlock()",
  "if ttl<=0 {",
  "set ttl=defaultHitForPassSeconds",
  "}",
  "set hc.expiredAt=nowUnix()+int64(ttl)",
  "set hc.status=StatusHitForPass",
  "set list:=hc.chanList",
  "set hc.chanList=nil",
  "range list {",
  "send ch<-waitResult{status:StatusHitForPass}",
  "}",
  "set err:=hc.saveToStore()"
]

def Cacheable : List String := [
  "call hc.mu.Lock()",
  "defer hc.mu.Unlock()",
  "set resp.CompressSrv=compress.BestCompression",
  "set _=resp.Compress()",
  "set hc.createdAt=nowUnix()",
  "set hc.expiredAt=hc.createdAt+int64(ttl)",
  "set hc.status=StatusHit",
  "set hc.response=resp",
  "set list:=hc.chanList",
  "set hc.chanList=nil",
  "range list {",
  "send ch<-waitResult{status:StatusHit,response:resp}",
  "}",
  "set err:=hc.saveToStore()"
]

def initFromStore : List String := [
  "if hc.store==nil||len(hc.key)==0 {",
  "return",
  "}",
  "set data,err:=hc.store.Get(hc.key)",
  "if err!=nil {",
  "return",
  "}",
  "set tmp:=&httpCache{}",
  "set err=tmp.FromBytes(data)",
  "if err!=nil {",
  "return",
  "}",
  "set validStatus:=tmp.status==StatusHitForPass||(tmp.status==StatusHit&&tmp.response!=nil&&tmp.response.StatusCode>=100&&tmp.response.StatusCode<=999)",
  "if !validStatus||tmp.expiredAt==0 {",
  "return ErrInvalidStoreData",
  "}",
  "set hc.status=tmp.status",
  "set hc.response=tmp.response",
  "set hc.createdAt=tmp.createdAt",
  "set hc.expiredAt=tmp.expiredAt",
  "return"
]

def saveToStore : List String := [
  "if hc.store==nil||len(hc.key)==0 {",
  "return",
  "}",
  "set data,err:=hc.Bytes()",
  "if err!=nil {",
  "return",
  "}",
  "set ttl:=time.Duration(hc.expiredAt-nowUnix())*time.Second",
  "return hc.store.Set(hc.key,data,ttl)"
]

def Age : List String := [
  "call hc.mu.RLock()",
  "defer hc.mu.RUnlock()",
  "return int(nowUnix()-hc.createdAt)"
]

def GetStatus : List String := [
  "call hc.mu.RLock()",
  "defer hc.mu.RUnlock()",
  "return hc.status"
]

def IsExpired : List String := [
  "call hc.mu.RLock()",
  "defer hc.mu.RUnlock()",
  "if hc.expiredAt==0 {",
  "return false",
  "}",
  "return hc.expiredAt<nowUnix()"
]

def getCacheMaxAge : List String := [
  "if len(header.Values(elton.HeaderSetCookie))!=0 {",
  "return 0",
  "}",
  "set cc:=strings.Join(header.Values(elton.HeaderCacheControl),\",\")",
  "if cc==\"\" {",
  "return 0",
  "}",
  "if noCacheReg.MatchString(cc) {",
  "return 0",
  "}",
  "decl varmaxAge=0",
  "set result:=sMaxAgeReg.FindStringSubmatch(cc)",
  "if len(result)==2 {",
  "set maxAge,_=strconv.Atoi(result[1])",
  "} else {",
  "set result=maxAgeReg.FindStringSubmatch(cc)",
  "if len(result)==2 {",
  "set maxAge,_=strconv.Atoi(result[1])",
  "}",
  "}",
  "set age:=header.Get(headerAge)",
  "if age!=\"\" {",
  "set v,_:=strconv.Atoi(age)",
  "set maxAge-=v",
  "}",
  "return maxAge"
]

def requestIsPass : List String := [
  "return req.Method!=http.MethodGet&&req.Method!=http.MethodHead"
]

def HTTPResponse_Bytes : List String := [
  "decl varcontentTypeFilterstring",
  "if resp.CompressContentTypeFilter!=nil {",
  "set contentTypeFilter=resp.CompressContentTypeFilter.String()",
  "}",
  "set compressSrvBuf:=[]byte(resp.CompressSrv)",
  "set compressSrvBufSize:=uint32ToBytes(len(compressSrvBuf))",
  "set compressMinLengthBuf:=uint32ToBytes(resp.CompressMinLength)",
  "set filterBuf:=[]byte(contentTypeFilter)",
  "set filterBufSize:=uint32ToBytes(len(filterBuf))",
  "set headerBuf,err:=json.Marshal(resp.Header)",
  "if err!=nil {",
  "return",
  "}",
  "set headerBufSize:=uint32ToBytes(len(headerBuf))",
  "set statusCodeBuf:=uint32ToBytes(resp.StatusCode)",
  "set gzipBufSize:=uint32ToBytes(len(resp.GzipBody))",
  "set brBufSize:=uint32ToBytes(len(resp.BrBody))",
  "set rawBufSize:=uint32ToBytes(len(resp.RawBody))",
  "return bytes.Join([][]byte{compressSrvBufSize,compressSrvBuf,compressMinLengthBuf,filterBufSize,filterBuf,headerBufSize,headerBuf,statusCodeBuf,gzipBufSize,resp.GzipBody,brBufSize,resp.BrBody,rawBufSize,resp.RawBody,},[]byte(\"\")),nil"
]

def HTTPResponse_FromBytes : List String := [
  "if len(data)==0 {",
  "return",
  "}",
  "set buffer:=bytes.NewBuffer(data)",
  "set size,err:=readUint32ToInt(buffer)",
  "if err!=nil {",
  "return",
  "}",
  "set resp.CompressSrv=string(buffer.Next(size))",
  "set resp.CompressMinLength,err=readUint32ToInt(buffer)",
  "if err!=nil {",
  "return",
  "}",
  "set size,err=readUint32ToInt(buffer)",
  "if err!=nil {",
  "return",
  "}",
  "set contentTypeFilter:=string(buffer.Next(size))",
  "if contentTypeFilter!=\"\" {",
  "set resp.CompressContentTypeFilter,err=regexp.Compile(contentTypeFilter)",
  "if err!=nil {",
  "return",
  "}",
  "}",
  "set size,err=readUint32ToInt(buffer)",
  "if err!=nil {",
  "return",
  "}",
  "set headerBuf:=buffer.Next(size)",
  "set err=json.Unmarshal(headerBuf,&resp.Header)",
  "if err!=nil {",
  "return",
  "}",
  "set resp.StatusCode,err=readUint32ToInt(buffer)",
  "if err!=nil {",
  "return",
  "}",
  "set size,err=readUint32ToInt(buffer)",
  "if err!=nil {",
  "return",
  "}",
  "set resp.GzipBody=buffer.Next(size)",
  "set size,err=readUint32ToInt(buffer)",
  "if err!=nil {",
  "return",
  "}",
  "set resp.BrBody=buffer.Next(size)",
  "set size,err=readUint32ToInt(buffer)",
  "if err!=nil {",
  "return",
  "}",
  "set resp.RawBody=buffer.Next(size)",
  "return"
]

def HTTPResponse_shouldCompressed : List String := [
  "if len(resp.RawBody)<=resp.CompressMinLength&&len(resp.GzipBody)<=resp.CompressMinLength&&len(resp.BrBody)<=resp.CompressMinLength {",
  "return false",
  "}",
  "set filter:=resp.CompressContentTypeFilter",
  "if filter==nil {",
  "set filter=defaultCompressContentTypeFilter",
  "}",
  "return filter.MatchString(resp.Header.Get(elton.HeaderContentType))"
]

def HTTPResponse_GetRawBody : List String := [
  "set rawBody=resp.RawBody",
  "if len(rawBody)!=0 {",
  "return",
  "}",
  "set compressSrv:=compress.Get(\"\")",
  "if len(resp.GzipBody)!=0 {",
  "return compressSrv.Gunzip(resp.GzipBody)",
  "}",
  "if len(resp.BrBody)!=0 {",
  "return compressSrv.BrotliDecode(resp.BrBody)",
  "}",
  "return"
]

def HTTPResponse_Compress : List String := [
  "if !resp.shouldCompressed() {",
  "return",
  "}",
  "if len(resp.GzipBody)!=0&&len(resp.BrBody)!=0 {",
  "return",
  "}",
  "set rawBody,err:=resp.GetRawBody()",
  "if err!=nil {",
  "return",
  "}",
  "if len(rawBody)==0 {",
  "set err=ErrBodyIsNil",
  "return",
  "}",
  "set compressSrv:=compress.Get(resp.CompressSrv)",
  "if len(resp.GzipBody)==0 {",
  "set resp.GzipBody,err=compressSrv.Gzip(rawBody)",
  "if err!=nil {",
  "return",
  "}",
  "}",
  "if len(resp.BrBody)==0 {",
  "set resp.BrBody,err=compressSrv.Brotli(rawBody)",
  "if err!=nil {",
  "return",
  "}",
  "}",
  "set resp.RawBody=nil",
  "return"
]

def HTTPResponse_getBodyByAcceptEncoding : List String := [
  "set compressSrv:=compress.Get(resp.CompressSrv)",
  "set acceptBr:=strings.Contains(acceptEncoding,compress.EncodingBrotli)",
  "if acceptBr&&len(resp.BrBody)!=0 {",
  "return compress.EncodingBrotli,resp.BrBody,nil",
  "}",
  "set acceptGzip:=strings.Contains(acceptEncoding,compress.EncodingGzip)",
  "if acceptGzip&&len(resp.GzipBody)!=0 {",
  "return compress.EncodingGzip,resp.GzipBody,nil",
  "}",
  "set rawBody,err:=resp.GetRawBody()",
  "if err!=nil {",
  "return \"\",nil,err",
  "}",
  "set shouldCompressed:=resp.shouldCompressed()",
  "if !shouldCompressed {",
  "return \"\",rawBody,nil",
  "}",
  "if acceptBr {",
  "set brBody,err:=compressSrv.Brotli(rawBody)",
  "if err!=nil {",
  "return \"\",nil,err",
  "}",
  "return compress.EncodingBrotli,brBody,nil",
  "}",
  "if acceptGzip {",
  "set gzipBody,err:=compressSrv.Gzip(rawBody)",
  "if err!=nil {",
  "return \"\",nil,err",
  "}",
  "return compress.EncodingGzip,gzipBody,nil",
  "}",
  "return \"\",rawBody,nil"
]

def HTTPResponse_Fill : List String := [
  "set encoding,body,err:=resp.getBodyByAcceptEncoding(c.GetRequestHeader(elton.HeaderAcceptEncoding))",
  "if err!=nil {",
  "return",
  "}",
  "call c.MergeHeader(resp.Header)",
  "call c.SetHeader(elton.HeaderContentEncoding,encoding)",
  "set c.StatusCode=resp.StatusCode",
  "set c.BodyBuffer=bytes.NewBuffer(body)",
  "return"
]

def httpCache_Bytes : List String := [
  "set statusBuf:=uint32ToBytes(int(hc.status))",
  "decl varrespBuf[]byte",
  "if hc.response!=nil {",
  "set respBuf,err=hc.response.Bytes()",
  "if err!=nil {",
  "return",
  "}",
  "}",
  "set respSizeBuf:=uint32ToBytes(len(respBuf))",
  "set createdAtBuf:=uint64ToBytes(hc.createdAt)",
  "set expiredAtBuf:=uint64ToBytes(hc.expiredAt)",
  "return bytes.Join([][]byte{statusBuf,respSizeBuf,respBuf,createdAtBuf,expiredAtBuf,},[]byte(\"\")),nil"
]

def httpCache_FromBytes : List String := [
  "set buffer:=bytes.NewBuffer(data)",
  "set status,err:=readUint32ToInt(buffer)",
  "if err!=nil {",
  "return",
  "}",
  "set hc.status=Status(status)",
  "set respSize,err:=readUint32ToInt(buffer)",
  "if err!=nil {",
  "return",
  "}",
  "set respBuf:=buffer.Next(respSize)",
  "set resp:=&HTTPResponse{}",
  "set err=resp.FromBytes(respBuf)",
  "if err!=nil {",
  "return",
  "}",
  "set hc.response=resp",
  "set hc.createdAt,err=readUint64ToInt64(buffer)",
  "if err!=nil {",
  "return",
  "}",
  "set hc.expiredAt,err=readUint64ToInt64(buffer)",
  "if err!=nil {",
  "return",
  "}",
  "return"
]

def readUint32ToInt : List String := [
  "decl varvalueuint32",
  "set err:=binary.Read(buffer,binary.BigEndian,&value)",
  "if err!=nil {",
  "return 0,err",
  "}",
  "return int(value),nil"
]

def readUint64ToInt64 : List String := [
  "decl varvalueuint64",
  "set err:=binary.Read(buffer,binary.BigEndian,&value)",
  "if err!=nil {",
  "return 0,err",
  "}",
  "return int64(value),nil"
]

def uint32ToBytes : List String := [
  "set buf:=make([]byte,4)",
  "call binary.BigEndian.PutUint32(buf,uint32(value))",
  "return buf"
]

def uint64ToBytes : List String := [
  "set buf:=make([]byte,8)",
  "call binary.BigEndian.PutUint64(buf,uint64(value))",
  "return buf"
]

def Location_Match : List String := [
  "if len(l.Hosts)!=0 {",
  "set found:=false",
  "range l.Hosts {",
  "if item==host {",
  "set found=true",
  "other *ast.BranchStmt",
  "}",
  "}",
  "if !found {",
  "return false",
  "}",
  "}",
  "if len(l.Prefixes)!=0 {",
  "set found:=false",
  "range l.Prefixes {",
  "if strings.HasPrefix(url,item) {",
  "set found=true",
  "other *ast.BranchStmt",
  "}",
  "}",
  "if !found {",
  "return false",
  "}",
  "}",
  "return true"
]

def Location_mergeHeader : List String := [
  "range src {",
  "range values {",
  "call dst.Add(key,value)",
  "}",
  "}"
]

def Location_AddQuery : List String := [
  "set added:=l.Query.Encode()",
  "if added==\"\" {",
  "return",
  "}",
  "if req.URL.RawQuery==\"\" {",
  "set req.URL.RawQuery=added",
  "return",
  "}",
  "set req.URL.RawQuery+=\"&\"+added"
]

def Locations_Get : List String := [
  "set locations:=ls.GetLocations()",
  "range locations {",
  "range names {",
  "if item.Name==name&&item.Match(host,url) {",
  "return item",
  "}",
  "}",
  "}",
  "return nil"
]

def Locations_Set : List String := [
  "set data:=make([]*Location,len(locations))",
  "range locations {",
  "set p:=&locations[index]",
  "set p.URLRewriter=generateURLRewriter(p.Rewrites)",
  "set data[index]=p",
  "}",
  "call sort.Slice(data,func(i,jint)bool{returndata[i].getPriority()<data[j].getPriority()})",
  "call ls.mutex.Lock()",
  "defer ls.mutex.Unlock()",
  "set ls.locations=data"
]

def disp_GetHTTPCache : List String := [
  "set lru:=d.getLRU(key)",
  "call lru.mu.Lock()",
  "defer lru.mu.Unlock()",
  "set hc,ok:=lru.getCache(key)",
  "if ok {",
  "return hc",
  "}",
  "if d.store!=nil {",
  "set hc=NewHTTPStoreCache(key,d.store)",
  "} else {",
  "set hc=NewHTTPCache()",
  "}",
  "call lru.addCache(key,hc)",
  "return hc"
]

def disp_RemoveHTTPCache : List String := [
  "set lru:=d.getLRU(key)",
  "call lru.mu.Lock()",
  "defer lru.mu.Unlock()",
  "call lru.removeCache(key)",
  "if d.store!=nil {",
  "set err:=d.store.Delete(key)",
  "}"
]

/-- server.Start: the middleware chain every request of a listening server runs through (the harness pipelines are a replica of exactly this list, in this order), then bind, then — only after a successful bind — the listening flag -/
def server_Start : List String := [
  "call s.mutex.Lock()",
  "defer s.mutex.Unlock()",
  "if s.listening {",
  "return",
  "}",
  "set logger:=log.Default()",
  "set e:=elton.New()",
  "if s.logFormat!=\"\" {",
  "call e.Use(middleware.NewLogger(middleware.LoggerConfig{DefaultFill:\"-\",OnLog:func(strstring,_*elton.Context){logger.Info(str)},Format:s.logFormat,}))",
  "}",
  "call e.Use(func(c*elton.Context)error{s.processing.Add(1)defers.processing.Dec()returnc.Next()})",
  "call e.Use(middleware.NewDefaultError())",
  "call e.Use(middleware.NewDefaultFresh())",
  "call e.Use(NewResponder())",
  "call e.Use(NewCache(s))",
  "call e.Use(NewProxy(s))",
  "call e.ALL(\"/*\",func(c*elton.Context)error{returnnil})",
  "set srv:=&http.Server{Handler:e,}",
  "set ln,err:=net.Listen(\"tcp\",s.addr)",
  "if err!=nil {",
  "return",
  "}",
  "set s.listening=true",
  "set s.e=e",
  "set s.ln=ln",
  "set s.listenAddr=ln.Addr().String()",
  "if !useGoRoutine {",
  "return srv.Serve(ln)",
  "}",
  "go func(){err:=srv.Serve(ln)log.Default().Error(\"serverservefail\",zap.String(\"addr\",s.addr),zap.Error(err),)}()",
  "return nil"]

/-- server.Close: graceful close of the elton instance, then the listener itself is closed (http.Server was built in Start around the elton handler: elton's own Shutdown closes no listener) -/
def server_Close : List String := [
  "call s.mutex.Lock()",
  "defer s.mutex.Unlock()",
  "if !s.listening {",
  "return nil",
  "}",
  "set s.listening=false",
  "set err:=s.e.GracefulClose(10*time.Second)",
  "if err!=nil {",
  "return err",
  "}",
  "return s.ln.Close()"]

/-- server.Update: the default for an unset min length, then all five settings replaced together under the write lock, the location list by a NEW slice -/
def server_Update : List String := [
  "set minLength:=opt.CompressMinLength",
  "if minLength==0 {",
  "set minLength=defaultCompressMinLength",
  "}",
  "call s.mutex.Lock()",
  "defer s.mutex.Unlock()",
  "set s.locations=opt.Locations",
  "set s.cache=opt.Cache",
  "set s.compress=opt.Compress",
  "set s.compressMinLength=minLength",
  "set s.compressContentTypeFilter=opt.CompressContentTypeFilter"]

/-- servers.Reset: close the servers whose address is gone (each in a goroutine of its own), update the ones that stay, create the new ones -/
def servers_Reset : List String := [
  "set result:=util.MapDelete(ss.m,func(keystring)bool{exists:=falsefor_,opt:=rangeopts{ifopt.Addr==key{exists=truebreak}}return!exists})",
  "range result {",
  "set s,_:=item.(*server)",
  "if s!=nil {",
  "go func(){err:=s.Close()iferr!=nil{log.Default().Error(\"closeserverfail\",zap.String(\"addr\",s.addr),zap.Error(err),)}}()",
  "}",
  "}",
  "range opts {",
  "set value,ok:=ss.m.Load(opt.Addr)",
  "if ok {",
  "set s,_:=value.(*server)",
  "if s!=nil {",
  "call s.Update(opt)",
  "}",
  "} else {",
  "call ss.m.Store(opt.Addr,NewServer(opt))",
  "}",
  "}"]

/-- server.convertConfig: one option per configured server, the filter regexp declared per iteration -/
def convertConfig : List String := [
  "set opts:=make([]ServerOption,0)",
  "range configs {",
  "set minLength,_:=humanize.ParseBytes(item.CompressMinLength)",
  "decl varreg*regexp.Regexp",
  "if item.CompressContentTypeFilter!=\"\" {",
  "set reg,_=regexp.Compile(item.CompressContentTypeFilter)",
  "}",
  "set opts=append(opts,ServerOption{LogFormat:item.LogFormat,Addr:item.Addr,Locations:item.Locations,Cache:item.Cache,Compress:item.Compress,CompressMinLength:int(minLength),CompressContentTypeFilter:reg,})",
  "}",
  "return opts"]

/-- cache.nowUnix: the wall clock, read at every call (whole seconds); the verif hook only substitutes the harness clock -/
def nowUnix : List String := [
  "set t,ok:=verifNow()",
  "if ok {",
  "return t",
  "}",
  "return time.Now().Unix()"]

/-- main.run: the configuration watcher is started BEFORE the first update(), so a change that arrives while the first update is still being applied (its synchronous health checks can take seconds) is not lost -/
def run : List String := [
  "set logger:=log.Default()",
  "go config.Watch(func(){err:=update()iferr!=nil{logger.Error(\"updateconfigfail\",zap.Error(err),)godoAlarm(\"config\",err.Error())}else{logger.Info(\"updateconfigsuccess\")}})",
  "set err:=update()",
  "if err!=nil {",
  "call panic(err)",
  "}"]

/-- store/redis.go: prefix + key -/
def redisStore_getKey : List String := [
  "return rs.prefix+string(key)"]

/-- redis Get: under getKey(key); redis.Nil is ErrNotFound -/
def redisStore_Get : List String := [
  "set ctx,cancel:=context.WithTimeout(context.Background(),rs.timeout)",
  "defer cancel()",
  "set k:=rs.getKey(key)",
  "set cmd:=rs.client.Get(ctx,k)",
  "set data,err=cmd.Bytes()",
  "if err!=nil {",
  "if err==redis.Nil {",
  "set err=ErrNotFound",
  "}",
  "return",
  "}",
  "return"]

/-- redis Set: under getKey(key), with the ttl -/
def redisStore_Set : List String := [
  "set ctx,cancel:=context.WithTimeout(context.Background(),rs.timeout)",
  "defer cancel()",
  "set k:=rs.getKey(key)",
  "set cmd:=rs.client.Set(ctx,k,data,ttl)",
  "return cmd.Err()"]

/-- redis Delete: under getKey(key) -/
def redisStore_Delete : List String := [
  "set ctx,cancel:=context.WithTimeout(context.Background(),rs.timeout)",
  "defer cancel()",
  "set k:=rs.getKey(key)",
  "set cmd:=rs.client.Del(ctx,k)",
  "return cmd.Err()"]

/-- mongo Get: by Key = string(key); ErrNoDocuments is ErrNotFound -/
def mongoStore_Get : List String := [
  "set ctx,cancel:=context.WithTimeout(context.Background(),ms.timeout)",
  "defer cancel()",
  "set result:=mongoCache{}",
  "set err=ms.collection().FindOne(ctx,&mongoCache{Key:string(key),}).Decode(&result)",
  "if err!=nil {",
  "if err==mongo.ErrNoDocuments {",
  "set err=ErrNotFound",
  "}",
  "return",
  "}",
  "set data=result.Data",
  "return"]

/-- mongo Set: upsert by Key = string(key) -/
def mongoStore_Set : List String := [
  "set ctx,cancel:=context.WithTimeout(context.Background(),ms.timeout)",
  "defer cancel()",
  "set upsert:=true",
  "set _,err=ms.collection().UpdateOne(ctx,&mongoCache{Key:string(key),},bson.M{\"$set\":&mongoCache{Key:string(key),Data:data,ExpiredAt:time.Now().Add(ttl),},},&options.UpdateOptions{Upsert:&upsert,})",
  "if err!=nil {",
  "return",
  "}",
  "return"]

/-- mongo Delete: by Key = string(key) -/
def mongoStore_Delete : List String := [
  "set ctx,cancel:=context.WithTimeout(context.Background(),ms.timeout)",
  "defer cancel()",
  "set _,err=ms.collection().DeleteOne(ctx,&mongoCache{Key:string(key),})",
  "if err!=nil {",
  "return",
  "}",
  "return"]

/-- badger Get: exactly key; ErrKeyNotFound is ErrNotFound; the value is copied out of the transaction -/
def badgerStore_Get : List String := [
  "set err=bs.db.View(func(txn*badger.Txn)error{item,err:=txn.Get(key)iferr!=nil{iferr==badger.ErrKeyNotFound{err=ErrNotFound}returnerr}returnitem.Value(func(val[]byte)error{data=append([]byte{},val...)returnnil})})",
  "if err!=nil {",
  "return",
  "}",
  "return"]

/-- badger Set: exactly key, with the ttl -/
def badgerStore_Set : List String := [
  "return bs.db.Update(func(txn*badger.Txn)error{e:=badger.NewEntry(key,data).WithTTL(ttl)returntxn.SetEntry(e)})"]

/-- badger Delete: exactly key (one key, not a prefix) -/
def badgerStore_Delete : List String := [
  "return bs.db.Update(func(txn*badger.Txn)error{returntxn.Delete(key)})"]

/-- main.main: on SIGHUP/INT/TERM/QUIT the servers are closed gracefully (in-flight requests finish, listeners close) and only then the process exits; nothing else happens at a stop — what is on disk is what the completed saves wrote -/
def main_main : List String := [
  "defer config.Close()",
  "defer store.Close()",
  "set c:=make(chanos.Signal,1)",
  "call signal.Notify(c,syscall.SIGHUP,syscall.SIGINT,syscall.SIGTERM,syscall.SIGQUIT)",
  "range c {",
  "if !isDev() {",
  "call server.Close()",
  "}",
  "call os.Exit(0)",
  "}"]

/-- main.update: read the saved configuration, then the five registries in this order, then start the servers that do not listen yet -/
def main_update : List String := [
  "set pikeConfig,err:=config.Read()",
  "if err!=nil {",
  "return",
  "}",
  "call compress.Reset(pikeConfig.Compresses)",
  "call cache.ResetDispatchers(pikeConfig.Caches)",
  "call upstream.ResetWithOnStats(pikeConfig.Upstreams,func(siupstream.StatusInfo){log.Default().Info(\"upstreamstatuschange\",zap.String(\"name\",si.Name),zap.String(\"status\",si.Status),zap.String(\"addr\",si.URL),)ifsi.Status==\"sick\"{message:=fmt.Sprintf(\"%sis%s,addr:%s\",si.Name,si.Status,si.URL)godoAlarm(\"upstream\",message)}})",
  "call location.Reset(pikeConfig.Locations)",
  "call server.Reset(pikeConfig.Servers)",
  "return server.Start()"]

/-- config etcd client Get: the value under the configured key, as it is -/
def config_etcdClient_Get : List String := [
  "set ctx,cancel:=ec.context()",
  "defer cancel()",
  "set resp,err:=ec.c.Get(ctx,ec.key)",
  "if err!=nil {",
  "return",
  "}",
  "set kvs:=resp.Kvs",
  "if len(kvs)==0 {",
  "return",
  "}",
  "set data=kvs[0].Value",
  "return"]

/-- config etcd client Set: the bytes under the configured key, as they are -/
def config_etcdClient_Set : List String := [
  "set ctx,cancel:=ec.context()",
  "defer cancel()",
  "set _,err=ec.c.Put(ctx,ec.key,string(data))",
  "return"]

/-- config etcd client Watch: every change event of the key calls the callback -/
def config_etcdClient_Watch : List String := [
  "set ch:=ec.c.Watch(context.Background(),ec.key)",
  "range ch {",
  "call onChange()",
  "}"]

/-- config.Write: validate FIRST, stamp the version, marshal, hand the bytes to the client -/
def config_Write : List String := [
  "set err=config.Validate()",
  "if err!=nil {",
  "return",
  "}",
  "set config.Version=app.GetVersion()",
  "set data,err:=yaml.Marshal(config)",
  "if err!=nil {",
  "return",
  "}",
  "return defaultClient.Set(data)"]

/-- config.Read: the client's bytes, unmarshalled; the text is kept alongside -/
def config_Read : List String := [
  "set data,err:=defaultClient.Get()",
  "if err!=nil {",
  "return",
  "}",
  "set config=&PikeConfig{}",
  "set err=yaml.Unmarshal(data,config)",
  "if err!=nil {",
  "return",
  "}",
  "set config.YAML=string(data)",
  "return"]

end Spec.Skeleton
end Pike
