import Pike.Model.Header
/-
C03, restated independently of the model: what "the origin marked it shareable"
means for an upstream header set, at the level of Cache-Control directive tokens.
Executable (used by the driver as the monitor on the implementation's behaviour).
-/
namespace Pike
namespace Spec.C03
open Str

def forbidden : List Str := ["no-cache".toList, "no-store".toList, "private".toList]

/-- comma-separated directive tokens of the joined Cache-Control lines -/
def tokens (cc : Str) : List Str := (splitOn ',' cc).map trim

/-- lower-cased directive names -/
def directiveNames (cc : Str) : List Str := (tokens cc).map (fun t => fold (trim (nameOf t)))

/-- `lit` followed by at least one digit at the very start of `r`: the maximal digit run -/
def capAt (lit r : Str) : Option Str :=
  if hasPrefix lit r then
    (if (takeDigits (r.drop lit.length)).isEmpty then none else some (takeDigits (r.drop lit.length)))
  else none

/-- every place where `lit` is followed by at least one digit, left to right, with the
maximal digit run found there -/
def captures (lit cc : Str) : List Str :=
  (List.range cc.length).filterMap (fun i => capAt lit (cc.drop i))

/-- s-maxage (preferred) else max-age, as a number; 0 when neither is given -/
def directiveAge (cc : Str) : Int :=
  match (captures "s-maxage=".toList cc).head? with
  | some d => atoi d
  | none =>
    match (captures "max-age=".toList cc).head? with
    | some d => atoi d
    | none => 0

def lifetime (h : Header) : Int :=
  let cc := join ',' (h.values "Cache-Control".toList)
  let age := h.get "Age".toList
  if age.isEmpty then directiveAge cc else wrap64 (directiveAge cc - atoi age)

/-- A response stored with lifetime `L` for a request with `method` whose upstream
answered with header `h` was shareable. -/
def shareableOK (method : Str) (h : Header) (L : Int) : Bool :=
  (method = "GET".toList || method = "HEAD".toList)
  && (h.values "Set-Cookie".toList).isEmpty
  && !(h.values "Cache-Control".toList).isEmpty
  && (directiveNames (join ',' (h.values "Cache-Control".toList))).all (fun n => !forbidden.contains n)
  && decide (L > 0)
  && decide (L = lifetime h)

end Spec.C03
end Pike
