package main

// A tiny Go→Lean translator for straight-line integer code with `if` statements: enough for
// NewDispatcher's size computation, Location.getPriority and the compression-level clamps.
// Every variable is an Int; `x := e` / `x = e` / `x op= e` become `let x : Int := …`; an `if`
// that assigns variables becomes a conditional re-binding of exactly those variables.

import (
	"fmt"
	"go/ast"
	"go/token"
	"sort"
	"strings"
)

type trans struct {
	// names: Go expression text (normalised) → Lean term (parameters, constants)
	names map[string]string
	ok    bool
	why   string
}

func (t *trans) fail(why string) string {
	if t.ok {
		t.ok = false
		t.why = why
	}
	return "0"
}

func (t *trans) expr(e ast.Expr) string {
	if v, ok := t.names[nsrc(e)]; ok {
		return v
	}
	switch x := e.(type) {
	case *ast.BasicLit:
		if x.Kind == token.INT {
			return x.Value
		}
	case *ast.Ident:
		return x.Name
	case *ast.ParenExpr:
		return "(" + t.expr(x.X) + ")"
	case *ast.UnaryExpr:
		switch x.Op {
		case token.SUB:
			return "(-" + t.expr(x.X) + ")"
		case token.NOT:
			return "(¬ " + t.expr(x.X) + ")"
		}
	case *ast.CallExpr:
		// integer conversions are the identity in the model
		if id, ok := x.Fun.(*ast.Ident); ok && len(x.Args) == 1 {
			switch id.Name {
			case "int", "int32", "int64", "uint64", "uint32", "uint":
				return t.expr(x.Args[0])
			}
		}
	case *ast.BinaryExpr:
		ops := map[token.Token]string{token.ADD: "+", token.SUB: "-", token.MUL: "*", token.QUO: "/", token.REM: "%",
			token.LSS: "<", token.LEQ: "≤", token.GTR: ">", token.GEQ: "≥", token.EQL: "=", token.NEQ: "≠",
			token.LAND: "∧", token.LOR: "∨"}
		if op, ok := ops[x.Op]; ok {
			return "(" + t.expr(x.X) + " " + op + " " + t.expr(x.Y) + ")"
		}
	}
	return t.fail("expression " + nsrc(e))
}

func assignedVars(stmts []ast.Stmt, acc map[string]bool) {
	for _, s := range stmts {
		switch x := s.(type) {
		case *ast.AssignStmt:
			for _, l := range x.Lhs {
				if id, ok := l.(*ast.Ident); ok {
					acc[id.Name] = true
				}
			}
		case *ast.IncDecStmt:
			if id, ok := x.X.(*ast.Ident); ok {
				acc[id.Name] = true
			}
		case *ast.IfStmt:
			assignedVars(x.Body.List, acc)
			if x.Else != nil {
				if b, ok := x.Else.(*ast.BlockStmt); ok {
					assignedVars(b.List, acc)
				} else if i, ok := x.Else.(*ast.IfStmt); ok {
					assignedVars([]ast.Stmt{i}, acc)
				}
			}
		}
	}
}

// stmts → sequence of "let …" lines (indent given)
func (t *trans) block(stmts []ast.Stmt, ind string) string {
	var b strings.Builder
	for _, s := range stmts {
		switch x := s.(type) {
		case *ast.AssignStmt:
			if len(x.Lhs) != 1 || len(x.Rhs) != 1 {
				t.fail("multi-assign " + nsrc(x))
				continue
			}
			id, ok := x.Lhs[0].(*ast.Ident)
			if !ok {
				t.fail("assign target " + nsrc(x))
				continue
			}
			rhs := t.expr(x.Rhs[0])
			switch x.Tok {
			case token.DEFINE, token.ASSIGN:
			case token.ADD_ASSIGN:
				rhs = "(" + id.Name + " + " + rhs + ")"
			case token.SUB_ASSIGN:
				rhs = "(" + id.Name + " - " + rhs + ")"
			case token.MUL_ASSIGN:
				rhs = "(" + id.Name + " * " + rhs + ")"
			default:
				t.fail("assign op " + nsrc(x))
			}
			fmt.Fprintf(&b, "%slet %s : Int := %s\n", ind, id.Name, rhs)
		case *ast.IfStmt:
			if x.Init != nil {
				t.fail("if with init")
				continue
			}
			vs := map[string]bool{}
			assignedVars([]ast.Stmt{x}, vs)
			names := make([]string, 0, len(vs))
			for v := range vs {
				names = append(names, v)
			}
			sort.Strings(names)
			if len(names) == 0 {
				continue
			}
			tuple := names[0]
			typ := "Int"
			if len(names) > 1 {
				tuple = "(" + strings.Join(names, ", ") + ")"
				typ = strings.Repeat("Int × ", len(names)-1) + "Int"
			}
			thenB := t.block(x.Body.List, ind+"    ")
			elseB := ""
			if x.Else != nil {
				if eb, ok := x.Else.(*ast.BlockStmt); ok {
					elseB = t.block(eb.List, ind+"    ")
				} else if ei, ok := x.Else.(*ast.IfStmt); ok {
					elseB = t.block([]ast.Stmt{ei}, ind+"    ")
				}
			}
			if len(names) == 1 {
				fmt.Fprintf(&b, "%slet %s : %s :=\n%s  if %s then (\n%s%s    %s)\n%s  else (\n%s%s    %s)\n", ind, tuple, typ, ind, t.expr(x.Cond), thenB, ind, tuple, ind, elseB, ind, tuple)
			} else {
				fmt.Fprintf(&b, "%slet r : %s :=\n%s  if %s then (\n%s%s    %s)\n%s  else (\n%s%s    %s)\n", ind, typ, ind, t.expr(x.Cond), thenB, ind, tuple, ind, elseB, ind, tuple)
				for i, nme := range names {
					proj := "r"
					for j := 0; j < i; j++ {
						proj += ".2"
					}
					if i < len(names)-1 {
						proj += ".1"
					}
					fmt.Fprintf(&b, "%slet %s : Int := %s\n", ind, nme, proj)
				}
			}
		case *ast.ExprStmt, *ast.DeclStmt:
			t.fail("statement " + nsrc(s))
		default:
			t.fail("statement " + nsrc(s))
		}
	}
	return b.String()
}

// translate the leading statements of a function body up to (excluding) the first statement
// `stop` says to stop at; result expression `res` over the variables.
func transFunc(name, params string, names map[string]string, stmts []ast.Stmt, stop func(ast.Stmt) bool, resType, res string) string {
	t := &trans{names: names, ok: true}
	var use []ast.Stmt
	for _, s := range stmts {
		if stop(s) {
			break
		}
		use = append(use, s)
	}
	body := t.block(use, "  ")
	if !t.ok {
		return fmt.Sprintf("def %s_shape : String := %s\ndef %s %s : %s := default\n", name, leanStr("unknownShape:"+t.why), name, params, resType)
	}
	return fmt.Sprintf("def %s_shape : String := \"ok\"\ndef %s %s : %s :=\n%s  %s\n", name, name, params, resType, body, res)
}
