package main

// Syntactic lock-scope analysis: for every function of the analysed files, every read/write of
// a struct field through a variable of a tracked struct type, with the mutexes syntactically
// held at that point (Lock…Unlock, `defer Unlock` to the end of the function, RLock likewise),
// and whether it follows a channel receive in the same function.  Methods that do not lock
// themselves inherit what ALL their call sites (on the same object) hold; a call on a freshly
// created local object marks the callee's accesses as thread-local for that call site.

import (
	"fmt"
	"go/ast"
	"go/token"
	"sort"
	"strings"
)

type access struct {
	file, fn, typ, field string
	write                bool
	lockW, lockR         bool
	fresh                bool
	afterRecv            bool
	line                 int
	viaCaller            bool
}

type callSite struct {
	callee     string // "Type.method"
	lockW      bool
	lockR      bool
	fresh      bool
	caller     string
	sameObject bool
}

type lockAnalysis struct {
	file      string
	recvType  map[string]string // var name -> struct type, per function
	tracked   map[string]map[string]bool
	mutexOf   map[string]string // struct type -> name of its mutex field
	accesses  []access
	calls     []callSite
	nested    []string // "func: holds A then takes B"
	blockOps  []string // blocking operations (channel send/recv) performed while a lock is held
	storeOps  []string // "func:Method:locks held" for every call x.store.Get/Set/Delete
	lockCount map[string]int  // "func:type" -> number of Lock()/RLock() acquisitions in the function body
	deferred  map[string]bool // "func:type" -> released by a deferred Unlock (held to the end)
	selfLocks map[string]bool
}

// fields holding a container that is mutated by every method call on it
var mutatingContainers = map[string]bool{"httpLRUCache.cache": true}

// state while walking one function
type fnState struct {
	name      string
	vars      map[string]string // variable -> tracked struct type
	fresh     map[string]bool   // variable holds a freshly allocated object
	heldW     map[string]bool   // "var" whose mutex is write-held
	heldR     map[string]bool
	afterRecv bool
}

func typeName(e ast.Expr) string {
	switch x := e.(type) {
	case *ast.StarExpr:
		return typeName(x.X)
	case *ast.Ident:
		return x.Name
	}
	return ""
}

func (la *lockAnalysis) analyzeFile(rel string) {
	f := parse(rel)
	if f == nil {
		return
	}
	la.file = rel
	for _, d := range f.Decls {
		fd, ok := d.(*ast.FuncDecl)
		if !ok || fd.Body == nil {
			continue
		}
		st := &fnState{name: fd.Name.Name, vars: map[string]string{}, fresh: map[string]bool{}, heldW: map[string]bool{}, heldR: map[string]bool{}}
		if fd.Recv != nil && len(fd.Recv.List) == 1 {
			tn := typeName(fd.Recv.List[0].Type)
			st.name = tn + "." + fd.Name.Name
			if la.tracked[tn] != nil && len(fd.Recv.List[0].Names) == 1 {
				st.vars[fd.Recv.List[0].Names[0].Name] = tn
			}
		}
		if fd.Type.Params != nil {
			for _, p := range fd.Type.Params.List {
				tn := typeName(p.Type)
				if la.tracked[tn] != nil {
					for _, n := range p.Names {
						st.vars[n.Name] = tn
					}
				}
			}
		}
		la.block(st, fd.Body.List)
	}
}

func (la *lockAnalysis) block(st *fnState, stmts []ast.Stmt) {
	for _, s := range stmts {
		la.stmt(st, s)
	}
}

// lock call on a tracked variable?  returns var, op
func (la *lockAnalysis) lockCall(st *fnState, e ast.Expr) (string, string) {
	call, ok := e.(*ast.CallExpr)
	if !ok {
		return "", ""
	}
	sel, ok := call.Fun.(*ast.SelectorExpr)
	if !ok {
		return "", ""
	}
	inner, ok := sel.X.(*ast.SelectorExpr)
	if !ok {
		return "", ""
	}
	id, ok := inner.X.(*ast.Ident)
	if !ok {
		return "", ""
	}
	tn := st.vars[id.Name]
	if tn == "" || la.mutexOf[tn] != inner.Sel.Name {
		return "", ""
	}
	switch sel.Sel.Name {
	case "Lock", "Unlock", "RLock", "RUnlock":
		return id.Name, sel.Sel.Name
	}
	return "", ""
}

func (la *lockAnalysis) stmt(st *fnState, s ast.Stmt) {
	switch x := s.(type) {
	case *ast.ExprStmt:
		if v, op := la.lockCall(st, x.X); v != "" {
			if op == "Lock" || op == "RLock" {
				if la.lockCount == nil {
					la.lockCount = map[string]int{}
				}
				la.lockCount[st.name+":"+st.vars[v]]++
			}
			switch op {
			case "Lock":
				la.noteNesting(st, v)
				st.heldW[v] = true
			case "Unlock":
				delete(st.heldW, v)
			case "RLock":
				la.noteNesting(st, v)
				st.heldR[v] = true
			case "RUnlock":
				delete(st.heldR, v)
			}
			la.selfLocks[st.name] = true
			return
		}
		la.expr(st, x.X, false)
	case *ast.DeferStmt:
		if v, op := la.lockCall(st, x.Call); v != "" && (op == "Unlock" || op == "RUnlock") {
			if la.deferred == nil {
				la.deferred = map[string]bool{}
			}
			la.deferred[st.name+":"+st.vars[v]] = true
			return // stays held to the end of the function
		}
		// a deferred closure runs at function exit: analysed with what is held then (nothing
		// that was explicitly unlocked); approximated with the current state
		la.expr(st, x.Call, false)
	case *ast.AssignStmt:
		for _, r := range x.Rhs {
			la.expr(st, r, false)
		}
		for i, l := range x.Lhs {
			la.expr(st, l, true)
			// track new variables of tracked types
			if id, ok := l.(*ast.Ident); ok && i < len(x.Rhs) {
				if tn, fresh := la.typeOfExpr(st, x.Rhs[i]); tn != "" {
					st.vars[id.Name] = tn
					st.fresh[id.Name] = fresh
				}
			}
		}
	case *ast.IncDecStmt:
		la.expr(st, x.X, true)
	case *ast.SendStmt:
		la.expr(st, x.Chan, false)
		la.expr(st, x.Value, false)
		la.noteBlocking(st, "send", fset.Position(x.Pos()).Line)
	case *ast.ReturnStmt:
		for _, r := range x.Results {
			la.expr(st, r, false)
		}
	case *ast.IfStmt:
		if x.Init != nil {
			la.stmt(st, x.Init)
		}
		la.expr(st, x.Cond, false)
		la.block(st, x.Body.List)
		if x.Else != nil {
			la.stmt(st, x.Else)
		}
	case *ast.BlockStmt:
		la.block(st, x.List)
	case *ast.ForStmt:
		if x.Init != nil {
			la.stmt(st, x.Init)
		}
		if x.Cond != nil {
			la.expr(st, x.Cond, false)
		}
		la.block(st, x.Body.List)
	case *ast.RangeStmt:
		la.expr(st, x.X, false)
		la.block(st, x.Body.List)
	case *ast.SwitchStmt:
		if x.Tag != nil {
			la.expr(st, x.Tag, false)
		}
		for _, c := range x.Body.List {
			cc := c.(*ast.CaseClause)
			la.block(st, cc.Body)
		}
	case *ast.DeclStmt:
		if gd, ok := x.Decl.(*ast.GenDecl); ok {
			for _, sp := range gd.Specs {
				if vs, ok := sp.(*ast.ValueSpec); ok {
					for _, v := range vs.Values {
						la.expr(st, v, false)
					}
				}
			}
		}
	case *ast.GoStmt:
		// runs concurrently: holds nothing
		sub := &fnState{name: st.name + "$go", vars: st.vars, fresh: map[string]bool{}, heldW: map[string]bool{}, heldR: map[string]bool{}}
		la.expr(sub, x.Call, false)
	}
}

func (la *lockAnalysis) typeOfExpr(st *fnState, e ast.Expr) (string, bool) {
	switch x := e.(type) {
	case *ast.UnaryExpr:
		if x.Op == token.AND {
			if cl, ok := x.X.(*ast.CompositeLit); ok {
				tn := typeName(cl.Type)
				if la.tracked[tn] != nil {
					return tn, true
				}
			}
		}
	case *ast.CallExpr:
		switch nsrc(x.Fun) {
		case "NewHTTPCache", "NewHTTPStoreCache":
			return "httpCache", true
		case "d.getLRU":
			return "httpLRUCache", false
		}
	}
	return "", false
}

func (la *lockAnalysis) noteNesting(st *fnState, v string) {
	for h := range st.heldW {
		if h != v {
			la.nested = append(la.nested, fmt.Sprintf("%s: holds %s(%s) then locks %s(%s)", st.name, h, st.vars[h], v, st.vars[v]))
		}
	}
	for h := range st.heldR {
		if h != v {
			la.nested = append(la.nested, fmt.Sprintf("%s: holds %s(%s) then locks %s(%s)", st.name, h, st.vars[h], v, st.vars[v]))
		}
	}
}

func (la *lockAnalysis) noteBlocking(st *fnState, op string, line int) {
	var held []string
	for h := range st.heldW {
		held = append(held, st.vars[h])
	}
	for h := range st.heldR {
		held = append(held, st.vars[h])
	}
	if len(held) > 0 {
		sort.Strings(held)
		la.blockOps = append(la.blockOps, fmt.Sprintf("%s:%s:%s", st.name, op, strings.Join(held, "+")))
	}
}

func (la *lockAnalysis) expr(st *fnState, e ast.Expr, write bool) {
	if e == nil {
		return
	}
	switch x := e.(type) {
	case *ast.SelectorExpr:
		if id, ok := x.X.(*ast.Ident); ok {
			if tn := st.vars[id.Name]; tn != "" && la.tracked[tn][x.Sel.Name] {
				la.accesses = append(la.accesses, access{file: la.file, fn: st.name, typ: tn, field: x.Sel.Name, write: write,
					lockW: st.heldW[id.Name], lockR: st.heldR[id.Name], fresh: st.fresh[id.Name], afterRecv: st.afterRecv,
					line: fset.Position(x.Pos()).Line})
				return
			}
		}
		la.expr(st, x.X, false)
	case *ast.CallExpr:
		// call of the persistent store: which locks are held around it
		if sel, ok := x.Fun.(*ast.SelectorExpr); ok {
			if inner, ok := sel.X.(*ast.SelectorExpr); ok && inner.Sel.Name == "store" {
				switch sel.Sel.Name {
				case "Get", "Set", "Delete":
					var held []string
					for h := range st.heldW {
						held = append(held, st.vars[h])
					}
					for h := range st.heldR {
						held = append(held, st.vars[h]+"(r)")
					}
					sort.Strings(held)
					la.storeOps = append(la.storeOps, fmt.Sprintf("%s:%s:%s", st.name, sel.Sel.Name, strings.Join(held, "+")))
				}
			}
		}
		// method call on a tracked field that is a container without its own synchronisation
		// (groupcache's lru.Cache: even Get relinks the recency list): a write of that field
		if sel, ok := x.Fun.(*ast.SelectorExpr); ok {
			if inner, ok := sel.X.(*ast.SelectorExpr); ok {
				if id, ok := inner.X.(*ast.Ident); ok {
					if tn := st.vars[id.Name]; tn != "" && la.tracked[tn][inner.Sel.Name] && mutatingContainers[tn+"."+inner.Sel.Name] {
						la.accesses = append(la.accesses, access{file: la.file, fn: st.name, typ: tn, field: inner.Sel.Name, write: true,
							lockW: st.heldW[id.Name], lockR: st.heldR[id.Name], fresh: st.fresh[id.Name], afterRecv: st.afterRecv,
							line: fset.Position(x.Pos()).Line})
					}
				}
			}
		}
		// method call on a tracked variable: record the call site
		if sel, ok := x.Fun.(*ast.SelectorExpr); ok {
			if id, ok := sel.X.(*ast.Ident); ok {
				if tn := st.vars[id.Name]; tn != "" && !la.tracked[tn][sel.Sel.Name] {
					la.calls = append(la.calls, callSite{callee: tn + "." + sel.Sel.Name, lockW: st.heldW[id.Name], lockR: st.heldR[id.Name],
						fresh: st.fresh[id.Name], caller: st.name, sameObject: true})
				}
			}
		}
		la.expr(st, x.Fun, false)
		for _, a := range x.Args {
			la.expr(st, a, false)
		}
	case *ast.UnaryExpr:
		if x.Op == token.ARROW {
			la.expr(st, x.X, false)
			la.noteBlocking(st, "recv", fset.Position(x.Pos()).Line)
			st.afterRecv = true
			return
		}
		la.expr(st, x.X, write && x.Op == token.AND)
	case *ast.BinaryExpr:
		la.expr(st, x.X, false)
		la.expr(st, x.Y, false)
	case *ast.ParenExpr:
		la.expr(st, x.X, write)
	case *ast.StarExpr:
		la.expr(st, x.X, write)
	case *ast.IndexExpr:
		la.expr(st, x.X, write)
		la.expr(st, x.Index, false)
	case *ast.SliceExpr:
		la.expr(st, x.X, false)
	case *ast.CompositeLit:
		for _, el := range x.Elts {
			if kv, ok := el.(*ast.KeyValueExpr); ok {
				la.expr(st, kv.Value, false)
			} else {
				la.expr(st, el, false)
			}
		}
	case *ast.FuncLit:
		// closure: analysed in the enclosing lock context (deferred closures run before the
		// deferred unlock registered earlier only if registered later; both orders hold the lock
		// or not consistently in the analysed code)
		la.block(st, x.Body.List)
	case *ast.TypeAssertExpr:
		la.expr(st, x.X, false)
	case *ast.KeyValueExpr:
		la.expr(st, x.Value, false)
	}
}

// propagate caller-held locks into methods that do not lock themselves: a method's entry
// context is what ALL its call sites provide (write lock, read lock, or a thread-local object)
func (la *lockAnalysis) propagate() {
	type ctx struct{ w, r, fresh bool }
	entry := map[string]ctx{}
	callees := map[string]bool{}
	for _, c := range la.calls {
		callees[c.callee] = true
	}
	for iter := 0; iter < 6; iter++ {
		next := map[string]ctx{}
		for f := range callees {
			if la.selfLocks[f] {
				continue
			}
			first := true
			var acc ctx
			for _, c := range la.calls {
				if c.callee != f {
					continue
				}
				site := ctx{c.lockW, c.lockR || c.lockW, c.fresh}
				if ce, ok := entry[c.caller]; ok && !la.selfLocks[c.caller] {
					site = ctx{site.w || ce.w, site.r || ce.r || ce.w, site.fresh || ce.fresh}
				}
				// a site is acceptable for "w" if it holds the write lock or works on a thread-local object
				sw := site.w || site.fresh
				sr := site.r || site.w || site.fresh
				if first {
					acc, first = ctx{sw, sr, site.fresh && !site.w}, false
				} else {
					acc = ctx{acc.w && sw, acc.r && sr, acc.fresh && site.fresh && !site.w}
				}
			}
			if !first {
				next[f] = acc
			}
		}
		same := len(next) == len(entry)
		for k, v := range next {
			if entry[k] != v {
				same = false
			}
		}
		entry = next
		if same {
			break
		}
	}
	for i := range la.accesses {
		a := &la.accesses[i]
		if la.selfLocks[a.fn] || a.lockW || a.lockR || a.fresh {
			continue
		}
		if e, ok := entry[a.fn]; ok {
			// w here means: every call site holds the write lock or owns the object exclusively
			a.lockW, a.lockR, a.viaCaller = e.w, e.r, true
		}
	}
}

func factsLocks() {
	section("lock scopes (cache/http_cache.go, cache/dispatcher.go, server/server.go, location/location.go)")
	la := &lockAnalysis{
		tracked: map[string]map[string]bool{
			"httpCache":    {"status": true, "chanList": true, "response": true, "createdAt": true, "expiredAt": true},
			"httpLRUCache": {"cache": true},
			"server":       {"locations": true, "cache": true, "compress": true, "compressMinLength": true, "compressContentTypeFilter": true, "listening": true, "ln": true, "e": true},
			"Locations":    {"locations": true},
		},
		mutexOf:   map[string]string{"httpCache": "mu", "httpLRUCache": "mu", "server": "mutex", "Locations": "mutex"},
		selfLocks: map[string]bool{},
	}
	for _, f := range []string{"cache/http_cache.go", "cache/dispatcher.go", "server/server.go", "location/location.go"} {
		la.analyzeFile(f)
	}
	la.propagate()
	fmt.Fprintf(&out, "structure Access where\n  file : String\n  fn : String\n  typ : String\n  field : String\n  write : Bool\n  lockW : Bool\n  lockR : Bool\n  fresh : Bool\n  afterRecv : Bool\n  line : Nat\nderiving Repr, DecidableEq\n")
	out.WriteString("def accessTable : List Access := [\n")
	for i, a := range la.accesses {
		sep := ","
		if i == len(la.accesses)-1 {
			sep = ""
		}
		fmt.Fprintf(&out, "  ⟨%s, %s, %s, %s, %v, %v, %v, %v, %v, %d⟩%s\n", leanStr(a.file), leanStr(a.fn), leanStr(a.typ), leanStr(a.field),
			a.write, a.lockW, a.lockR, a.fresh, a.afterRecv, a.line, sep)
	}
	out.WriteString("]\n")
	sort.Strings(la.nested)
	defStrList("lockNesting", la.nested)
	sort.Strings(la.blockOps)
	defStrList("blockingUnderLock", la.blockOps)
	sort.Strings(la.storeOps)
	defStrList("storeCalls", la.storeOps)
	// critical sections per function: "func:type:acquisitions:deferred|explicit"
	var secs []string
	for k, n := range la.lockCount {
		rel := "explicit"
		if la.deferred[k] {
			rel = "deferred"
		}
		secs = append(secs, fmt.Sprintf("%s:%d:%s", k, n, rel))
	}
	sort.Strings(secs)
	defStrList("lockSections", secs)
	// re-entrant acquisitions: a method called on the SAME object while its mutex is held (read or write) that takes
	// that mutex itself.  sync.Mutex and sync.RWMutex are not re-entrant: a write lock deadlocks at once, a nested
	// read lock deadlocks as soon as a writer queues up between the two acquisitions.
	var re []string
	for _, c := range la.calls {
		if c.sameObject && (c.lockW || c.lockR) && !c.fresh && la.selfLocks[c.callee] {
			re = append(re, fmt.Sprintf("%s -> %s", c.caller, c.callee))
		}
	}
	sort.Strings(re)
	defStrList("reentrantLocking", re)
}
