package main

import (
	"fmt"
	"go/ast"
	"strings"
)

// factsSkeleton: the statement skeleton of the cache entry's state machine (cache/http_cache.go), in source
// order: conditions, assignments to entry fields, calls, channel sends.  Logging and the verif hook calls are
// left out.  The Lean side compares these lists with the ones its `Entry`/`Sys` steps were transcribed from.
func skelStmts(stmts []ast.Stmt, out *[]string) {
	for _, st := range stmts {
		skelStmt(st, out)
	}
}

func isNoise(e ast.Expr) bool {
	s := nsrc(e)
	return strings.HasPrefix(s, "log.Default()") || strings.HasPrefix(s, "verifPoint(")
}

func skelStmt(st ast.Stmt, out *[]string) {
	switch x := st.(type) {
	case *ast.ExprStmt:
		if !isNoise(x.X) {
			*out = append(*out, "call "+nsrc(x.X))
		}
	case *ast.AssignStmt:
		*out = append(*out, "set "+nsrc(x))
	case *ast.IncDecStmt:
		*out = append(*out, "set "+nsrc(x))
	case *ast.SendStmt:
		*out = append(*out, "send "+nsrc(x))
	case *ast.DeferStmt:
		*out = append(*out, "defer "+nsrc(x.Call))
	case *ast.GoStmt:
		*out = append(*out, "go "+nsrc(x.Call))
	case *ast.ReturnStmt:
		if len(x.Results) > 0 {
			var rs []string
			for _, r := range x.Results {
				rs = append(rs, nsrc(r))
			}
			*out = append(*out, "return "+strings.Join(rs, ","))
		} else {
			*out = append(*out, "return")
		}
	case *ast.IfStmt:
		if x.Init != nil {
			skelStmt(x.Init, out)
		}
		var body []string
		skelStmts(x.Body.List, &body)
		if len(body) == 0 && x.Else == nil {
			return // only logging inside
		}
		*out = append(*out, "if "+nsrc(x.Cond)+" {")
		*out = append(*out, body...)
		if x.Else != nil {
			*out = append(*out, "} else {")
			switch e := x.Else.(type) {
			case *ast.BlockStmt:
				skelStmts(e.List, out)
			default:
				skelStmt(e, out)
			}
		}
		*out = append(*out, "}")
	case *ast.ForStmt:
		*out = append(*out, "for "+nsrc(x.Cond)+" {")
		skelStmts(x.Body.List, out)
		*out = append(*out, "}")
	case *ast.RangeStmt:
		*out = append(*out, "range "+nsrc(x.X)+" {")
		skelStmts(x.Body.List, out)
		*out = append(*out, "}")
	case *ast.SelectStmt:
		*out = append(*out, "select {")
		for _, c := range x.Body.List {
			cc := c.(*ast.CommClause)
			if cc.Comm != nil {
				skelStmt(cc.Comm, out)
			} else {
				*out = append(*out, "default")
			}
			skelStmts(cc.Body, out)
		}
		*out = append(*out, "}")
	case *ast.SwitchStmt:
		*out = append(*out, "switch "+nsrc(x.Tag)+" {")
		for _, c := range x.Body.List {
			cc := c.(*ast.CaseClause)
			var cs []string
			for _, e := range cc.List {
				cs = append(cs, nsrc(e))
			}
			*out = append(*out, "case "+strings.Join(cs, ","))
			skelStmts(cc.Body, out)
		}
		*out = append(*out, "}")
	case *ast.BlockStmt:
		skelStmts(x.List, out)
	case *ast.DeclStmt:
		*out = append(*out, "decl "+nsrc(x))
	default:
		*out = append(*out, fmt.Sprintf("other %T", st))
	}
}

func factsSkeleton() {
	section("cache/http_cache.go: statement skeletons of the entry state machine")
	f := parse("cache/http_cache.go")
	for _, fn := range []string{"Get", "get", "HitForPass", "Cacheable", "initFromStore", "saveToStore", "Age", "GetStatus", "IsExpired"} {
		var sk []string
		if fd := funcDecl(f, "httpCache", fn); fd != nil {
			skelStmts(fd.Body.List, &sk)
		} else {
			sk = []string{"missing"}
		}
		defStrList("skel_"+fn, sk)
	}
	for _, pr := range [][2]string{{"server/proxy.go", "getCacheMaxAge"}, {"server/cache.go", "requestIsPass"}} {
		var sk []string
		if fd := funcDecl(parse(pr[0]), "", pr[1]); fd != nil {
			skelStmts(fd.Body.List, &sk)
		} else {
			sk = []string{"missing"}
		}
		defStrList("skel_"+pr[1], sk)
	}
	// receiver-typed functions of other files that a Lean model transcribes
	for _, pr := range [][3]string{
		{"cache/http_response.go", "HTTPResponse", "Bytes"}, {"cache/http_response.go", "HTTPResponse", "FromBytes"},
		{"cache/http_response.go", "HTTPResponse", "shouldCompressed"}, {"cache/http_response.go", "HTTPResponse", "GetRawBody"},
		{"cache/http_response.go", "HTTPResponse", "Compress"}, {"cache/http_response.go", "HTTPResponse", "getBodyByAcceptEncoding"},
		{"cache/http_response.go", "HTTPResponse", "Fill"},
		{"cache/http_cache.go", "httpCache", "Bytes"}, {"cache/http_cache.go", "httpCache", "FromBytes"},
		{"cache/cache.go", "", "readUint32ToInt"}, {"cache/cache.go", "", "readUint64ToInt64"},
		{"cache/cache.go", "", "uint32ToBytes"}, {"cache/cache.go", "", "uint64ToBytes"},
		{"location/location.go", "Location", "Match"}, {"location/location.go", "Location", "mergeHeader"},
		{"location/location.go", "Location", "AddQuery"}, {"location/location.go", "Locations", "Get"},
		{"location/location.go", "Locations", "Set"},
		{"server/server.go", "server", "Start"}, {"server/server.go", "server", "Close"},
		{"server/server.go", "server", "Update"}, {"server/server.go", "servers", "Reset"},
		{"server/server.go", "", "convertConfig"},
		{"cache/http_cache.go", "", "nowUnix"},
		{"store/redis.go", "redisStore", "getKey"}, {"store/redis.go", "redisStore", "Get"}, {"store/redis.go", "redisStore", "Set"}, {"store/redis.go", "redisStore", "Delete"},
		{"store/mongo.go", "mongoStore", "Get"}, {"store/mongo.go", "mongoStore", "Set"}, {"store/mongo.go", "mongoStore", "Delete"},
		{"store/badger.go", "badgerStore", "Get"}, {"store/badger.go", "badgerStore", "Set"}, {"store/badger.go", "badgerStore", "Delete"},
		{"main.go", "", "run"}, {"main.go", "", "main"}, {"main.go", "", "update"},
		{"config/etcd_client.go", "etcdClient", "Get"}, {"config/etcd_client.go", "etcdClient", "Set"}, {"config/etcd_client.go", "etcdClient", "Watch"},
		{"config/config.go", "", "Write"}, {"config/config.go", "", "Read"},
	} {
		var sk []string
		if fd := funcDecl(parse(pr[0]), pr[1], pr[2]); fd != nil {
			skelStmts(fd.Body.List, &sk)
		} else {
			sk = []string{"missing"}
		}
		name := pr[2]
		if pr[1] != "" {
			name = pr[1] + "_" + pr[2]
		}
		defStrList("skel_"+name, sk)
	}
	f2 := parse("cache/dispatcher.go")
	for _, fn := range []string{"GetHTTPCache", "RemoveHTTPCache"} {
		var sk []string
		if fd := funcDecl(f2, "dispatcher", fn); fd != nil {
			skelStmts(fd.Body.List, &sk)
		} else {
			sk = []string{"missing"}
		}
		defStrList("skel_disp_"+fn, sk)
	}
}
