module verifextract

go 1.23
