// extract: regenerates lean/Pike/Facts.lean from the Go sources of /repo (pure syntax:
// go/parser + go/ast, no type checking), so that the Lean theorems are re-checked against
// what the code says now.  A construct that is not in the shape understood here yields the
// string "unknownShape:<what>"; theorems that need the fact then stop checking.
package main

import (
	"fmt"
	"go/ast"
	"go/parser"
	"go/token"
	"os"
	"path/filepath"
	"sort"
	"strconv"
	"strings"
)

var fset = token.NewFileSet()
var repo string
var out strings.Builder

func parse(rel string) *ast.File {
	f, err := parser.ParseFile(fset, filepath.Join(repo, rel), nil, parser.ParseComments)
	if err != nil {
		fmt.Fprintf(os.Stderr, "extract: cannot parse %s: %v\n", rel, err)
		return nil
	}
	return f
}

func leanStr(s string) string {
	var b strings.Builder
	b.WriteByte('"')
	for _, r := range []byte(s) {
		switch {
		case r == '"':
			b.WriteString("\\\"")
		case r == '\\':
			b.WriteString("\\\\")
		case r == '\n':
			b.WriteString("\\n")
		case r == '\t':
			b.WriteString("\\t")
		case r < 0x20 || r >= 0x7f:
			fmt.Fprintf(&b, "\\x%02x", r)
		default:
			b.WriteByte(r)
		}
	}
	b.WriteByte('"')
	return b.String()
}

func defStr(name, v string)  { fmt.Fprintf(&out, "def %s : String := %s\n", name, leanStr(v)) }
func defInt(name string, v int) {
	if v < 0 {
		fmt.Fprintf(&out, "def %s : Int := (%d)\n", name, v)
	} else {
		fmt.Fprintf(&out, "def %s : Int := %d\n", name, v)
	}
}
func defBool(name string, v bool) { fmt.Fprintf(&out, "def %s : Bool := %v\n", name, v) }
func defStrList(name string, vs []string) {
	q := make([]string, len(vs))
	for i, v := range vs {
		q[i] = leanStr(v)
	}
	fmt.Fprintf(&out, "def %s : List String := [%s]\n", name, strings.Join(q, ", "))
}

func src(n ast.Node) string {
	if n == nil {
		return ""
	}
	p1, p2 := fset.Position(n.Pos()), fset.Position(n.End())
	data, err := os.ReadFile(p1.Filename)
	if err != nil {
		return ""
	}
	return string(data[p1.Offset:p2.Offset])
}

// normalised source text: whitespace removed
func nsrc(n ast.Node) string {
	return strings.Join(strings.Fields(src(n)), "")
}

func strLit(e ast.Expr) (string, bool) {
	bl, ok := e.(*ast.BasicLit)
	if !ok || bl.Kind != token.STRING {
		return "", false
	}
	s, err := strconv.Unquote(bl.Value)
	if err != nil {
		return "", false
	}
	return s, true
}

func intLit(e ast.Expr) (int, bool) {
	switch v := e.(type) {
	case *ast.BasicLit:
		if v.Kind == token.INT {
			n, err := strconv.Atoi(v.Value)
			return n, err == nil
		}
	case *ast.UnaryExpr:
		if v.Op == token.SUB {
			n, ok := intLit(v.X)
			return -n, ok
		}
	case *ast.ParenExpr:
		return intLit(v.X)
	}
	return 0, false
}

// package-level `var name = regexp.MustCompile(<lit>)`
func regexVar(f *ast.File, name string) string {
	if f == nil {
		return "unknownShape:" + name
	}
	for _, d := range f.Decls {
		gd, ok := d.(*ast.GenDecl)
		if !ok || gd.Tok != token.VAR {
			continue
		}
		for _, sp := range gd.Specs {
			vs := sp.(*ast.ValueSpec)
			for i, n := range vs.Names {
				if n.Name != name || i >= len(vs.Values) {
					continue
				}
				call, ok := vs.Values[i].(*ast.CallExpr)
				if !ok || len(call.Args) != 1 {
					return "unknownShape:" + name
				}
				if s, ok := strLit(call.Args[0]); ok && strings.HasSuffix(nsrc(call.Fun), "MustCompile") {
					return s
				}
				return "unknownShape:" + name
			}
		}
	}
	return "unknownShape:" + name
}

func constInt(f *ast.File, name string) (int, bool) {
	if f == nil {
		return 0, false
	}
	for _, d := range f.Decls {
		gd, ok := d.(*ast.GenDecl)
		if !ok || (gd.Tok != token.CONST && gd.Tok != token.VAR) {
			continue
		}
		for _, sp := range gd.Specs {
			vs := sp.(*ast.ValueSpec)
			for i, n := range vs.Names {
				if n.Name == name && i < len(vs.Values) {
					return intLit(vs.Values[i])
				}
			}
		}
	}
	return 0, false
}

func varStrList(f *ast.File, name string) ([]string, bool) {
	if f == nil {
		return nil, false
	}
	for _, d := range f.Decls {
		gd, ok := d.(*ast.GenDecl)
		if !ok || gd.Tok != token.VAR {
			continue
		}
		for _, sp := range gd.Specs {
			vs := sp.(*ast.ValueSpec)
			for i, n := range vs.Names {
				if n.Name != name || i >= len(vs.Values) {
					continue
				}
				cl, ok := vs.Values[i].(*ast.CompositeLit)
				if !ok {
					return nil, false
				}
				var res []string
				for _, e := range cl.Elts {
					s, ok := strLit(e)
					if !ok {
						return nil, false
					}
					res = append(res, s)
				}
				return res, true
			}
		}
	}
	return nil, false
}

func funcDecl(f *ast.File, recv, name string) *ast.FuncDecl {
	if f == nil {
		return nil
	}
	for _, d := range f.Decls {
		fd, ok := d.(*ast.FuncDecl)
		if !ok || fd.Name.Name != name {
			continue
		}
		r := ""
		if fd.Recv != nil && len(fd.Recv.List) == 1 {
			r = strings.TrimPrefix(nsrc(fd.Recv.List[0].Type), "*")
		}
		if r == recv {
			return fd
		}
	}
	return nil
}

func section(name string) { fmt.Fprintf(&out, "\n-- %s\n", name) }

func main() {
	repo = "/repo"
	outPath := ""
	if len(os.Args) > 1 {
		repo = os.Args[1]
	}
	if len(os.Args) > 2 {
		outPath = os.Args[2]
	}
	out.WriteString("-- GENERATED by /verif/extract from the Go sources of " + repo + "; do not edit.\n")
	out.WriteString("namespace Pike.Facts\n")

	factsProxy()
	factsKey()
	factsCache()
	factsDispatcher()
	factsResponse()
	factsLocation()
	factsCompress()
	factsServer()
	factsMain()
	factsLocks()
	factsLoops()
	factsUpstream()
	factsProxyTimeout()
	factsLRUCallbacks()
	factsSkeleton()
	factsStoreConstructors()
	factsPools()
	factsStatusCallback()
	factsTransport()

	out.WriteString("\nend Pike.Facts\n")
	if outPath == "" {
		fmt.Print(out.String())
		return
	}
	old, err := os.ReadFile(outPath)
	if err == nil && string(old) == out.String() {
		return // unchanged: keep the file (and lake's trace) as is
	}
	_ = os.Remove(outPath)
	if err := os.WriteFile(outPath, []byte(out.String()), 0o644); err != nil {
		fmt.Fprintln(os.Stderr, err)
		os.Exit(2)
	}
}

// ---------------------------------------------------------------- server/proxy.go
func factsProxy() {
	section("server/proxy.go")
	f := parse("server/proxy.go")
	defStr("noCacheRe", regexVar(f, "noCacheReg"))
	defStr("sMaxAgeRe", regexVar(f, "sMaxAgeReg"))
	defStr("maxAgeRe", regexVar(f, "maxAgeReg"))
	// how Set-Cookie presence is tested in getCacheMaxAge
	test := "unknownShape:setCookieTest"
	if fd := funcDecl(f, "", "getCacheMaxAge"); fd != nil {
		ast.Inspect(fd.Body, func(n ast.Node) bool {
			is, ok := n.(*ast.IfStmt)
			if !ok {
				return true
			}
			c := nsrc(is.Cond)
			if !strings.Contains(c, "SetCookie") && !strings.Contains(c, "Set-Cookie") {
				return true
			}
			retZero := len(is.Body.List) == 1 && nsrc(is.Body.List[0]) == "return0"
			switch {
			case !retZero:
			case strings.HasPrefix(c, "header.Get(") && strings.HasSuffix(c, ")!=\"\""):
				test = "get"
			case strings.HasPrefix(c, "len(header.Values(") && (strings.HasSuffix(c, "))!=0") || strings.HasSuffix(c, "))>0")):
				test = "values"
			case strings.HasPrefix(c, "len(header[") && (strings.HasSuffix(c, "])!=0") || strings.HasSuffix(c, "])>0")):
				test = "values"
			}
			return false
		})
	}
	defStr("setCookieTest", test)
	// request headers withheld from the upstream for `fetching` requests
	var stripped []string
	if fd := funcDecl(f, "", "NewProxy"); fd != nil {
		ast.Inspect(fd.Body, func(n ast.Node) bool {
			is, ok := n.(*ast.IfStmt)
			if !ok || nsrc(is.Cond) != "status==cache.StatusFetching" {
				return true
			}
			ast.Inspect(is.Body, func(m ast.Node) bool {
				call, ok := m.(*ast.CallExpr)
				if ok && nsrc(call.Fun) == "reqHeader.Del" && len(call.Args) == 1 {
					stripped = append(stripped, headerName(call.Args[0]))
				}
				return true
			})
			return true
		})
	}
	sort.Strings(stripped)
	defStrList("strippedOnFetch", stripped)
}

func headerName(e ast.Expr) string {
	if s, ok := strLit(e); ok {
		return s
	}
	m := map[string]string{
		"elton.HeaderIfModifiedSince": "If-Modified-Since",
		"elton.HeaderIfNoneMatch":     "If-None-Match",
		"elton.HeaderRange":           "Range",
		"elton.HeaderIfRange":         "If-Range",
		"elton.HeaderAcceptEncoding":  "Accept-Encoding",
		"headerRange":                 "Range",
		"headerIfRange":               "If-Range",
	}
	if v, ok := m[nsrc(e)]; ok {
		return v
	}
	return "unknownShape:" + nsrc(e)
}


// ---------------------------------------------------------------- cache/dispatcher.go
func factsDispatcher() {
	section("cache/dispatcher.go")
	f := parse("cache/dispatcher.go")
	names := map[string]string{"option.Size": "optionSize"}
	if v, ok := constInt(f, "defaultZoneSize"); ok {
		names["defaultZoneSize"] = fmt.Sprint(v)
	}
	fd := funcDecl(f, "", "NewDispatcher")
	if fd == nil {
		out.WriteString("def dispatcherSizes_shape : String := \"unknownShape:NewDispatcher\"\ndef dispatcherSizes (optionSize : Int) : Int × Int := default\n")
		return
	}
	// the size computation ends where the shard list is allocated
	stop := func(s ast.Stmt) bool {
		as, ok := s.(*ast.AssignStmt)
		return ok && len(as.Rhs) == 1 && strings.HasPrefix(nsrc(as.Rhs[0]), "make(")
	}
	// which variables size the list and each LRU
	zonesVar, capVar := "", ""
	ast.Inspect(fd.Body, func(n ast.Node) bool {
		call, ok := n.(*ast.CallExpr)
		if !ok {
			return true
		}
		fn := nsrc(call.Fun)
		if fn == "make" && len(call.Args) == 2 && nsrc(call.Args[0]) == "[]*httpLRUCache" {
			zonesVar = nsrc(call.Args[1])
		}
		if fn == "newHTTPLRUCache" && len(call.Args) == 1 {
			capVar = nsrc(call.Args[0])
		}
		return true
	})
	if zonesVar == "" || capVar == "" {
		out.WriteString("def dispatcherSizes_shape : String := \"unknownShape:NewDispatcher list/cap\"\ndef dispatcherSizes (optionSize : Int) : Int × Int := default\n")
		return
	}
	// both must be variables of the size computation (assigned before the list is allocated): a limit computed per
	// shard inside the loop is not something this translation covers
	assigned := map[string]bool{}
	for _, st := range fd.Body.List {
		if stop(st) {
			break
		}
		ast.Inspect(st, func(n ast.Node) bool {
			if as, ok := n.(*ast.AssignStmt); ok {
				for _, l := range as.Lhs {
					assigned[nsrc(l)] = true
				}
			}
			return true
		})
	}
	if !assigned[zonesVar] || !assigned[capVar] {
		out.WriteString("def dispatcherSizes_shape : String := \"unknownShape:NewDispatcher per-shard limit\"\ndef dispatcherSizes (optionSize : Int) : Int × Int := default\n")
		return
	}
	out.WriteString(transFunc("dispatcherSizes", "(optionSize : Int)", names, fd.Body.List, stop, "Int × Int", "("+zonesVar+", "+capVar+")"))
}

// ---------------------------------------------------------------- server/cache.go getKey
func factsKey() {
	section("server/cache.go")
	f := parse("server/cache.go")
	layout := []string{}
	shape := "ok"
	extra := -1
	fresh := false
	fd := funcDecl(f, "", "getKey")
	if fd == nil {
		shape = "unknownShape:getKey"
	} else {
		lens := map[string]string{} // methodLen -> method
		segOf := map[string]string{"req.Method": "method", "req.Host": "host", "uri": "uri"}
		pending := "" // what `len` must be advanced by next
		for _, st := range fd.Body.List {
			n := nsrc(st)
			switch {
			case strings.HasPrefix(n, "methodLen:=len(req.Method)"):
				lens["methodLen"] = "method"
			case strings.HasPrefix(n, "hostLen:=len(req.Host)"):
				lens["hostLen"] = "host"
			case n == "uriLen:=len(uri)":
				lens["uriLen"] = "uri"
			case n == "uri:=req.RequestURI", strings.HasPrefix(n, "iflen(uri)==0{uri=req.URL.String()"):
			case strings.HasPrefix(n, "buffer:=make([]byte,"):
				e := strings.TrimSuffix(strings.TrimPrefix(n, "buffer:=make([]byte,"), ")")
				terms := strings.Split(e, "+")
				sort.Strings(terms)
				if len(terms) == 4 && terms[1] == "hostLen" && terms[2] == "methodLen" && terms[3] == "uriLen" {
					if v, err := strconv.Atoi(terms[0]); err == nil {
						extra = v
					}
				}
				fresh = true
			case n == "len:=0":
			case strings.HasPrefix(n, "copy(buffer[len:],"):
				if pending != "" {
					shape = "unknownShape:getKey offset not advanced before " + n
				}
				x := strings.TrimSuffix(strings.TrimPrefix(n, "copy(buffer[len:],"), ")")
				if sg, ok := segOf[x]; ok {
					layout = append(layout, sg)
					pending = sg
				} else {
					shape = "unknownShape:getKey copy " + x
				}
			case n == "buffer[len]=spaceByte":
				if pending != "" {
					shape = "unknownShape:getKey offset not advanced before " + n
				}
				layout = append(layout, "sp")
				pending = "sp"
			case n == "len++":
				if pending != "sp" {
					shape = "unknownShape:getKey len++ after " + pending
				}
				pending = ""
			case strings.HasPrefix(n, "len+="):
				v := strings.TrimPrefix(n, "len+=")
				if lens[v] == "" || lens[v] != pending {
					shape = "unknownShape:getKey " + n + " after " + pending
				}
				pending = ""
			case n == "returnbuffer":
			default:
				shape = "unknownShape:getKey statement " + n
			}
		}
		if len(layout) > 0 && pending != layout[len(layout)-1] {
			shape = "unknownShape:getKey trailing"
		}
	}
	sp := "unknownShape:spaceByte"
	if f != nil {
		for _, d := range f.Decls {
			gd, ok := d.(*ast.GenDecl)
			if !ok || gd.Tok != token.CONST {
				continue
			}
			for _, spc := range gd.Specs {
				vs := spc.(*ast.ValueSpec)
				for i, nm := range vs.Names {
					if nm.Name == "spaceByte" && i < len(vs.Values) && strings.TrimSpace(src(vs.Values[i])) == "byte(' ')" {
						sp = " "
					}
				}
			}
		}
	}
	defStr("keyShape", shape)
	defStrList("keyLayout", layout)
	defInt("keyExtraLen", extra)
	defStr("keySeparator", sp)
	defBool("keyFreshBuffer", fresh)
	// requestIsPass: the methods that are NOT passed
	var cached []string
	if fd := funcDecl(f, "", "requestIsPass"); fd != nil && len(fd.Body.List) == 1 {
		n := nsrc(fd.Body.List[0])
		for _, part := range strings.Split(strings.TrimPrefix(n, "return"), "&&") {
			switch part {
			case "req.Method!=http.MethodGet":
				cached = append(cached, "GET")
			case "req.Method!=http.MethodHead":
				cached = append(cached, "HEAD")
			default:
				cached = append(cached, "unknownShape:"+part)
			}
		}
	}
	defStrList("cachedMethods", cached)
}

// ---------------------------------------------------------------- location/location.go
func factsLocation() {
	section("location/location.go")
	f := parse("location/location.go")
	fd := funcDecl(f, "Location", "getPriority")
	names := map[string]string{"len(l.Prefixes)": "nPrefixes", "len(l.Hosts)": "nHosts"}
	params := "(nPrefixes nHosts : Int)"
	if fd == nil {
		out.WriteString("def locationPriority_shape : String := \"unknownShape:getPriority\"\ndef locationPriority " + params + " : Int := default\n")
	} else {
		// drop the memoisation (load; early return when non-zero; store) and the final return
		var body []ast.Stmt
		resVar := ""
		ok := true
		for _, st := range fd.Body.List {
			n := nsrc(st)
			switch {
			case n == "priority:=l.priority.Load()":
			case strings.HasPrefix(n, "ifpriority!=0{returnint(priority)}"):
			case n == "l.priority.Store(priority)":
			case strings.HasPrefix(n, "return"):
				resVar = strings.TrimSuffix(strings.TrimPrefix(strings.TrimPrefix(n, "return"), "int("), ")")
			default:
				body = append(body, st)
			}
		}
		if resVar == "" {
			ok = false
		}
		if ok {
			out.WriteString(transFunc("locationPriority", params, names, body, func(ast.Stmt) bool { return false }, "Int", resVar))
		} else {
			out.WriteString("def locationPriority_shape : String := \"unknownShape:getPriority return\"\ndef locationPriority " + params + " : Int := default\n")
		}
	}
	// comparator of the sort in Locations.Set
	cmp := "unknownShape:sort comparator"
	if sd := funcDecl(f, "Locations", "Set"); sd != nil {
		ast.Inspect(sd.Body, func(n ast.Node) bool {
			call, ok := n.(*ast.CallExpr)
			if !ok || !strings.HasPrefix(nsrc(call.Fun), "sort.Slice") || len(call.Args) != 2 {
				return true
			}
			if fl, ok := call.Args[1].(*ast.FuncLit); ok && len(fl.Body.List) == 1 {
				switch nsrc(fl.Body.List[0]) {
				case "returndata[i].getPriority()<data[j].getPriority()":
					cmp = "asc"
				case "returndata[i].getPriority()>data[j].getPriority()":
					cmp = "desc"
				}
			}
			return false
		})
	}
	defStr("locationSort", cmp)
}

// ---------------------------------------------------------------- cache/http_response.go
func factsResponse() {
	section("cache/http_response.go")
	f := parse("cache/http_response.go")
	ih, ok := varStrList(f, "ignoreHeaders")
	if !ok {
		ih = []string{"unknownShape:ignoreHeaders"}
	}
	defStrList("ignoreHeaders", ih)
	defStr("defaultFilterRe", regexVar(f, "defaultCompressContentTypeFilter"))
	// the profile Cacheable switches the response to
	best := "unknownShape:BestCompression"
	if cf := parse("compress/compress.go"); cf != nil {
		for _, d := range cf.Decls {
			gd, ok := d.(*ast.GenDecl)
			if !ok || gd.Tok != token.CONST {
				continue
			}
			for _, sp := range gd.Specs {
				vs := sp.(*ast.ValueSpec)
				for i, nm := range vs.Names {
					if nm.Name == "BestCompression" && i < len(vs.Values) {
						if v, ok := strLit(vs.Values[i]); ok {
							best = v
						}
					}
				}
			}
		}
	}
	defStr("bestCompressionName", best)
	prof := "unknownShape:Cacheable profile"
	if hf := parse("cache/http_cache.go"); hf != nil {
		if fd := funcDecl(hf, "httpCache", "Cacheable"); fd != nil {
			for _, st := range fd.Body.List {
				if nsrc(st) == "resp.CompressSrv=compress.BestCompression" {
					prof = "BestCompression"
				}
			}
		}
	}
	defStr("cacheableProfile", prof)
}

// ---------------------------------------------------------------- cache/http_cache.go
func factsCache() {
	section("cache/http_cache.go")
	f := parse("cache/http_cache.go")
	if v, ok := constInt(f, "defaultHitForPassSeconds"); ok {
		defInt("defaultHitForPassSeconds", v)
	} else {
		defInt("defaultHitForPassSeconds", -1)
	}
	// Status iota order
	var order []string
	if f != nil {
		for _, d := range f.Decls {
			gd, ok := d.(*ast.GenDecl)
			if !ok || gd.Tok != token.CONST {
				continue
			}
			isStatus := false
			for _, sp := range gd.Specs {
				vs := sp.(*ast.ValueSpec)
				if vs.Type != nil && nsrc(vs.Type) == "Status" && len(vs.Values) == 1 && nsrc(vs.Values[0]) == "iota" {
					isStatus = true
				}
				if isStatus {
					for _, nm := range vs.Names {
						order = append(order, nm.Name)
					}
				}
			}
		}
	}
	defStrList("statusOrder", order)
	// HitForPass: the guard that applies the default
	guard := "unknownShape:HitForPass guard"
	if fd := funcDecl(f, "httpCache", "HitForPass"); fd != nil {
		ast.Inspect(fd.Body, func(n ast.Node) bool {
			is, ok := n.(*ast.IfStmt)
			if ok && len(is.Body.List) == 1 && nsrc(is.Body.List[0]) == "ttl=defaultHitForPassSeconds" {
				guard = nsrc(is.Cond)
			}
			return true
		})
	}
	defStr("hitForPassGuard", guard)
	// does a woken waiter read entry fields (hc.<field>) after the channel receive in Get?
	reread := true
	shape := "unknownShape:Get"
	if fd := funcDecl(f, "httpCache", "Get"); fd != nil {
		shape = "ok"
		reread = false
		afterRecv := false
		ast.Inspect(fd.Body, func(n ast.Node) bool {
			switch x := n.(type) {
			case *ast.SelectStmt:
				// the waiter must wait with a plain receive: leaving the wait by another select case would
				// leave its channel registered with nobody receiving
				shape = "waitInSelect"
			case *ast.UnaryExpr:
				if x.Op == token.ARROW {
					afterRecv = true
				}
			case *ast.SelectorExpr:
				if id, ok := x.X.(*ast.Ident); ok && id.Name == "hc" && afterRecv {
					switch x.Sel.Name {
					case "status", "response", "createdAt", "expiredAt", "chanList":
						reread = true
					}
				}
			}
			return true
		})
	}
	defStr("getShape", shape)
	defBool("waiterRereadsEntry", reread)
}

// ---------------------------------------------------------------- compress/*.go
func factsCompress() {
	section("compress/gzip.go, compress/brotli.go, compress/lz4.go")
	clamp := func(rel, fn, name string, names map[string]string) {
		f := parse(rel)
		fd := funcDecl(f, "", fn)
		if fd == nil {
			fmt.Fprintf(&out, "def %s_shape : String := \"unknownShape:%s\"\ndef %s (level : Int) : Int := default\n", name, fn, name)
			return
		}
		// the clamp is the `if` statement that assigns `level`
		var stmts []ast.Stmt
		for _, st := range fd.Body.List {
			if is, ok := st.(*ast.IfStmt); ok {
				vs := map[string]bool{}
				assignedVars([]ast.Stmt{is}, vs)
				if vs["level"] && len(vs) == 1 {
					stmts = append(stmts, st)
				}
			}
		}
		out.WriteString(transFunc(name, "(level : Int)", names, stmts, func(ast.Stmt) bool { return false }, "Int", "level"))
		// writer finalised before the bytes are read: Close is deferred inside fn, and fn itself
		// never reads the buffer (the caller does, after fn returned)
		deferred, readsInside := false, false
		ast.Inspect(fd.Body, func(n ast.Node) bool {
			switch x := n.(type) {
			case *ast.DeferStmt:
				if nsrc(x.Call) == "w.Close()" {
					deferred = true
				}
			case *ast.CallExpr:
				if nsrc(x.Fun) == "buffer.Bytes" || nsrc(x.Fun) == "buffer.String" {
					readsInside = true
				}
			}
			return true
		})
		defBool(name+"_closeDeferred", deferred)
		defBool(name+"_readsBufferBeforeClose", readsInside)
	}
	brq := 6
	if v, ok := constInt(parse("compress/brotli.go"), "defaultBrQuality"); ok {
		brq = v
	} else {
		brq = -999
	}
	clamp("compress/gzip.go", "gzipFn", "gzipLevel", map[string]string{"gzip.BestCompression": "9", "gzip.DefaultCompression": "(-1)", "gzip.BestSpeed": "1", "gzip.NoCompression": "0"})
	clamp("compress/brotli.go", "brotliEncode", "brotliLevel", map[string]string{"defaultBrQuality": fmt.Sprint(brq), "brotli.BestCompression": "11", "brotli.DefaultCompression": "6", "brotli.BestSpeed": "0"})
	// callers read the buffer after the encoder function returned
	callerReads := func(rel, caller, callee string) bool {
		fd := funcDecl(parse(rel), "", caller)
		if fd == nil {
			return false
		}
		sawCall, readsAfter := false, false
		ast.Inspect(fd.Body, func(n ast.Node) bool {
			if c, ok := n.(*ast.CallExpr); ok {
				if nsrc(c.Fun) == callee {
					sawCall = true
				}
				if nsrc(c.Fun) == "buffer.Bytes" && sawCall {
					readsAfter = true
				}
			}
			return true
		})
		return readsAfter
	}
	defBool("gzipCallerReadsAfter", callerReads("compress/gzip.go", "doGzip", "gzipFn"))
	defBool("brotliCallerReadsAfter", callerReads("compress/brotli.go", "doBrotli", "brotliEncode"))
	// lz4: initial destination factor, maximum, growth
	lf := parse("compress/lz4.go")
	initF, maxR, grows := -1, -1, false
	if v, ok := constInt(lf, "lz4MaxRatio"); ok {
		maxR = v
	}
	if fd := funcDecl(lf, "", "doLZ4Decode"); fd != nil {
		ast.Inspect(fd.Body, func(n ast.Node) bool {
			switch x := n.(type) {
			case *ast.AssignStmt:
				t := nsrc(x)
				if strings.HasPrefix(t, "size:=") && strings.HasSuffix(t, "*len(buf)") {
					if v, err := strconv.Atoi(strings.TrimSuffix(strings.TrimPrefix(t, "size:="), "*len(buf)")); err == nil {
						initF = v
					}
				}
				if strings.HasPrefix(t, "dst:=make([]byte,") && strings.HasSuffix(t, "*len(buf))") {
					if v, err := strconv.Atoi(strings.TrimSuffix(strings.TrimPrefix(t, "dst:=make([]byte,"), "*len(buf))")); err == nil {
						initF = v
					}
				}
				if t == "size*=4" || t == "size*=2" || t == "size=maxSize" {
					grows = true
				}
			}
			return true
		})
	}
	defInt("lz4InitialFactor", initF)
	defInt("lz4MaxRatio", maxR)
	defBool("lz4Grows", grows)
}

// ---------------------------------------------------------------- server/server.go, main.go, registries
func hasDefaultMinLength(fd *ast.FuncDecl) bool {
	if fd == nil {
		return false
	}
	guard, used := false, false
	ast.Inspect(fd.Body, func(n ast.Node) bool {
		switch x := n.(type) {
		case *ast.IfStmt:
			if nsrc(x.Cond) == "minLength==0" && len(x.Body.List) == 1 && nsrc(x.Body.List[0]) == "minLength=defaultCompressMinLength" {
				guard = true
			}
		case *ast.KeyValueExpr:
			if nsrc(x.Key) == "compressMinLength" && nsrc(x.Value) == "minLength" {
				used = true
			}
		case *ast.AssignStmt:
			if nsrc(x) == "s.compressMinLength=minLength" {
				used = true
			}
		}
		return true
	})
	return guard && used
}

func callsIn(fd *ast.FuncDecl) []string {
	var calls []string
	if fd == nil {
		return calls
	}
	ast.Inspect(fd.Body, func(n ast.Node) bool {
		if c, ok := n.(*ast.CallExpr); ok {
			calls = append(calls, nsrc(c.Fun))
		}
		return true
	})
	return calls
}

func containsStr(xs []string, s string) bool {
	for _, x := range xs {
		if x == s {
			return true
		}
	}
	return false
}

func factsServer() {
	section("server/server.go")
	f := parse("server/server.go")
	if v, ok := constInt(f, "defaultCompressMinLength"); ok {
		defInt("defaultCompressMinLength", v)
	} else {
		defInt("defaultCompressMinLength", -1)
	}
	defBool("newServerAppliesDefaultMinLength", hasDefaultMinLength(funcDecl(f, "", "NewServer")))
	defBool("updateAppliesDefaultMinLength", hasDefaultMinLength(funcDecl(f, "server", "Update")))
	// middleware order in server.Start
	var order []string
	if fd := funcDecl(f, "server", "Start"); fd != nil {
		ast.Inspect(fd.Body, func(n ast.Node) bool {
			if c, ok := n.(*ast.CallExpr); ok && nsrc(c.Fun) == "e.Use" && len(c.Args) == 1 {
				if in, ok := c.Args[0].(*ast.CallExpr); ok {
					order = append(order, nsrc(in.Fun))
				}
			}
			return true
		})
	}
	defStrList("middlewareOrder", order)
	sr := callsIn(funcDecl(f, "servers", "Reset"))
	defBool("serversResetDeletesAbsent", containsStr(sr, "util.MapDelete"))
	defBool("serversResetUpdatesExisting", containsStr(sr, "s.Update") && containsStr(sr, "NewServer"))
}

func factsMain() {
	section("main.go update() and the registries' Reset functions")
	f := parse("main.go")
	var order []string
	if fd := funcDecl(f, "", "update"); fd != nil {
		for _, c := range callsIn(fd) {
			switch c {
			case "compress.Reset", "cache.ResetDispatchers", "upstream.ResetWithOnStats", "upstream.Reset", "location.Reset", "server.Reset", "server.Start":
				order = append(order, c)
			}
		}
	}
	defStrList("reloadOrder", order)
	cr := callsIn(funcDecl(parse("compress/compress.go"), "compressSrvs", "Reset"))
	defBool("compressResetDeletesAbsent", containsStr(cr, "util.MapDelete") || containsStr(cr, "cs.m.Delete"))
	dr := funcDecl(parse("cache/dispatcher.go"), "dispatchers", "Reset")
	dc := callsIn(dr)
	keeps := false
	if dr != nil {
		ast.Inspect(dr.Body, func(n ast.Node) bool {
			if is, ok := n.(*ast.IfStmt); ok && nsrc(is.Cond) == "!ok" {
				for _, c := range callsIn(&ast.FuncDecl{Body: is.Body}) {
					if c == "ds.m.Store" {
						keeps = true
					}
				}
			}
			return true
		})
	}
	defBool("dispatchersResetDeletesAbsent", containsStr(dc, "util.MapDelete"))
	defBool("dispatchersResetKeepsExisting", keeps)
	ur := funcDecl(parse("upstream/upstream.go"), "upstreamServers", "Reset")
	uc := callsIn(ur)
	// store-before-destroy: index of us.m.Store before currentServer.Destroy
	si, di := -1, -1
	for i, c := range uc {
		if c == "us.m.Store" && si < 0 {
			si = i
		}
		if c == "currentServer.Destroy" && di < 0 {
			di = i
		}
	}
	defBool("upstreamsResetDeletesAbsent", containsStr(uc, "util.MapDelete"))
	defBool("upstreamsResetStoresBeforeDestroy", si >= 0 && di > si)
	ls := funcDecl(parse("location/location.go"), "Locations", "Set")
	swaps := 0
	if ls != nil {
		ast.Inspect(ls.Body, func(n ast.Node) bool {
			if a, ok := n.(*ast.AssignStmt); ok && len(a.Lhs) == 1 && nsrc(a.Lhs[0]) == "ls.locations" {
				swaps++
			}
			return true
		})
	}
	defBool("locationsSetSingleSwap", swaps == 1)
}
