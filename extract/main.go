// extract: regenerates lean/Pike/Facts.lean from the Go sources of /repo (pure syntax:
// go/parser + go/ast, no type checking), so that the Lean theorems are re-checked against
// what the code says now.  A construct that is not in the shape understood here yields the
// string "unknownShape:<what>"; theorems that need the fact then stop checking.
package main

import (
	"fmt"
	"go/ast"
	"go/parser"
	"go/token"
	"os"
	"path/filepath"
	"sort"
	"strconv"
	"strings"
)

var fset = token.NewFileSet()
var repo string
var out strings.Builder

func parse(rel string) *ast.File {
	f, err := parser.ParseFile(fset, filepath.Join(repo, rel), nil, parser.ParseComments)
	if err != nil {
		fmt.Fprintf(os.Stderr, "extract: cannot parse %s: %v\n", rel, err)
		return nil
	}
	return f
}

func leanStr(s string) string {
	var b strings.Builder
	b.WriteByte('"')
	for _, r := range []byte(s) {
		switch {
		case r == '"':
			b.WriteString("\\\"")
		case r == '\\':
			b.WriteString("\\\\")
		case r == '\n':
			b.WriteString("\\n")
		case r == '\t':
			b.WriteString("\\t")
		case r < 0x20 || r >= 0x7f:
			fmt.Fprintf(&b, "\\x%02x", r)
		default:
			b.WriteByte(r)
		}
	}
	b.WriteByte('"')
	return b.String()
}

func defStr(name, v string)  { fmt.Fprintf(&out, "def %s : String := %s\n", name, leanStr(v)) }
func defInt(name string, v int) {
	if v < 0 {
		fmt.Fprintf(&out, "def %s : Int := (%d)\n", name, v)
	} else {
		fmt.Fprintf(&out, "def %s : Int := %d\n", name, v)
	}
}
func defBool(name string, v bool) { fmt.Fprintf(&out, "def %s : Bool := %v\n", name, v) }
func defStrList(name string, vs []string) {
	q := make([]string, len(vs))
	for i, v := range vs {
		q[i] = leanStr(v)
	}
	fmt.Fprintf(&out, "def %s : List String := [%s]\n", name, strings.Join(q, ", "))
}

func src(n ast.Node) string {
	if n == nil {
		return ""
	}
	p1, p2 := fset.Position(n.Pos()), fset.Position(n.End())
	data, err := os.ReadFile(p1.Filename)
	if err != nil {
		return ""
	}
	return string(data[p1.Offset:p2.Offset])
}

// normalised source text: whitespace removed
func nsrc(n ast.Node) string {
	return strings.Join(strings.Fields(src(n)), "")
}

func strLit(e ast.Expr) (string, bool) {
	bl, ok := e.(*ast.BasicLit)
	if !ok || bl.Kind != token.STRING {
		return "", false
	}
	s, err := strconv.Unquote(bl.Value)
	if err != nil {
		return "", false
	}
	return s, true
}

func intLit(e ast.Expr) (int, bool) {
	switch v := e.(type) {
	case *ast.BasicLit:
		if v.Kind == token.INT {
			n, err := strconv.Atoi(v.Value)
			return n, err == nil
		}
	case *ast.UnaryExpr:
		if v.Op == token.SUB {
			n, ok := intLit(v.X)
			return -n, ok
		}
	case *ast.ParenExpr:
		return intLit(v.X)
	}
	return 0, false
}

// package-level `var name = regexp.MustCompile(<lit>)`
func regexVar(f *ast.File, name string) string {
	if f == nil {
		return "unknownShape:" + name
	}
	for _, d := range f.Decls {
		gd, ok := d.(*ast.GenDecl)
		if !ok || gd.Tok != token.VAR {
			continue
		}
		for _, sp := range gd.Specs {
			vs := sp.(*ast.ValueSpec)
			for i, n := range vs.Names {
				if n.Name != name || i >= len(vs.Values) {
					continue
				}
				call, ok := vs.Values[i].(*ast.CallExpr)
				if !ok || len(call.Args) != 1 {
					return "unknownShape:" + name
				}
				if s, ok := strLit(call.Args[0]); ok && strings.HasSuffix(nsrc(call.Fun), "MustCompile") {
					return s
				}
				return "unknownShape:" + name
			}
		}
	}
	return "unknownShape:" + name
}

func constInt(f *ast.File, name string) (int, bool) {
	if f == nil {
		return 0, false
	}
	for _, d := range f.Decls {
		gd, ok := d.(*ast.GenDecl)
		if !ok || (gd.Tok != token.CONST && gd.Tok != token.VAR) {
			continue
		}
		for _, sp := range gd.Specs {
			vs := sp.(*ast.ValueSpec)
			for i, n := range vs.Names {
				if n.Name == name && i < len(vs.Values) {
					return intLit(vs.Values[i])
				}
			}
		}
	}
	return 0, false
}

func varStrList(f *ast.File, name string) ([]string, bool) {
	if f == nil {
		return nil, false
	}
	for _, d := range f.Decls {
		gd, ok := d.(*ast.GenDecl)
		if !ok || gd.Tok != token.VAR {
			continue
		}
		for _, sp := range gd.Specs {
			vs := sp.(*ast.ValueSpec)
			for i, n := range vs.Names {
				if n.Name != name || i >= len(vs.Values) {
					continue
				}
				cl, ok := vs.Values[i].(*ast.CompositeLit)
				if !ok {
					return nil, false
				}
				var res []string
				for _, e := range cl.Elts {
					s, ok := strLit(e)
					if !ok {
						return nil, false
					}
					res = append(res, s)
				}
				return res, true
			}
		}
	}
	return nil, false
}

func funcDecl(f *ast.File, recv, name string) *ast.FuncDecl {
	if f == nil {
		return nil
	}
	for _, d := range f.Decls {
		fd, ok := d.(*ast.FuncDecl)
		if !ok || fd.Name.Name != name {
			continue
		}
		r := ""
		if fd.Recv != nil && len(fd.Recv.List) == 1 {
			r = strings.TrimPrefix(nsrc(fd.Recv.List[0].Type), "*")
		}
		if r == recv {
			return fd
		}
	}
	return nil
}

func section(name string) { fmt.Fprintf(&out, "\n-- %s\n", name) }

func main() {
	repo = "/repo"
	outPath := ""
	if len(os.Args) > 1 {
		repo = os.Args[1]
	}
	if len(os.Args) > 2 {
		outPath = os.Args[2]
	}
	out.WriteString("-- GENERATED by /verif/extract from the Go sources of " + repo + "; do not edit.\n")
	out.WriteString("namespace Pike.Facts\n")

	factsProxy()
	factsCache()
	factsDispatcher()
	factsResponse()
	factsLocation()
	factsCompress()
	factsServer()
	factsMain()
	factsLocks()

	out.WriteString("\nend Pike.Facts\n")
	if outPath == "" {
		fmt.Print(out.String())
		return
	}
	old, err := os.ReadFile(outPath)
	if err == nil && string(old) == out.String() {
		return // unchanged: keep the file (and lake's trace) as is
	}
	_ = os.Remove(outPath)
	if err := os.WriteFile(outPath, []byte(out.String()), 0o644); err != nil {
		fmt.Fprintln(os.Stderr, err)
		os.Exit(2)
	}
}

// ---------------------------------------------------------------- server/proxy.go
func factsProxy() {
	section("server/proxy.go")
	f := parse("server/proxy.go")
	defStr("noCacheRe", regexVar(f, "noCacheReg"))
	defStr("sMaxAgeRe", regexVar(f, "sMaxAgeReg"))
	defStr("maxAgeRe", regexVar(f, "maxAgeReg"))
	// how Set-Cookie presence is tested in getCacheMaxAge
	test := "unknownShape:setCookieTest"
	if fd := funcDecl(f, "", "getCacheMaxAge"); fd != nil {
		ast.Inspect(fd.Body, func(n ast.Node) bool {
			is, ok := n.(*ast.IfStmt)
			if !ok {
				return true
			}
			c := nsrc(is.Cond)
			if !strings.Contains(c, "SetCookie") && !strings.Contains(c, "Set-Cookie") {
				return true
			}
			retZero := len(is.Body.List) == 1 && nsrc(is.Body.List[0]) == "return0"
			switch {
			case !retZero:
			case strings.HasPrefix(c, "header.Get(") && strings.HasSuffix(c, ")!=\"\""):
				test = "get"
			case strings.HasPrefix(c, "len(header.Values(") && (strings.HasSuffix(c, "))!=0") || strings.HasSuffix(c, "))>0")):
				test = "values"
			case strings.HasPrefix(c, "len(header[") && (strings.HasSuffix(c, "])!=0") || strings.HasSuffix(c, "])>0")):
				test = "values"
			}
			return false
		})
	}
	defStr("setCookieTest", test)
	// request headers withheld from the upstream for `fetching` requests
	var stripped []string
	if fd := funcDecl(f, "", "NewProxy"); fd != nil {
		ast.Inspect(fd.Body, func(n ast.Node) bool {
			is, ok := n.(*ast.IfStmt)
			if !ok || nsrc(is.Cond) != "status==cache.StatusFetching" {
				return true
			}
			ast.Inspect(is.Body, func(m ast.Node) bool {
				call, ok := m.(*ast.CallExpr)
				if ok && nsrc(call.Fun) == "reqHeader.Del" && len(call.Args) == 1 {
					stripped = append(stripped, headerName(call.Args[0]))
				}
				return true
			})
			return true
		})
	}
	sort.Strings(stripped)
	defStrList("strippedOnFetch", stripped)
}

func headerName(e ast.Expr) string {
	if s, ok := strLit(e); ok {
		return s
	}
	m := map[string]string{
		"elton.HeaderIfModifiedSince": "If-Modified-Since",
		"elton.HeaderIfNoneMatch":     "If-None-Match",
		"elton.HeaderRange":           "Range",
		"elton.HeaderIfRange":         "If-Range",
		"elton.HeaderAcceptEncoding":  "Accept-Encoding",
		"headerRange":                 "Range",
		"headerIfRange":               "If-Range",
	}
	if v, ok := m[nsrc(e)]; ok {
		return v
	}
	return "unknownShape:" + nsrc(e)
}

func factsCache()      {}
func factsDispatcher() {}
func factsResponse()   {}
func factsLocation()   {}
func factsCompress()   {}
func factsServer()     {}
func factsMain()       {}
func factsLocks()      {}
