package main

import (
	"fmt"
	"go/ast"
	"os"
	"path/filepath"
	"regexp"
	"sort"
	"strconv"
	"strings"
)

// factsLoops: closures started with `go` or `defer` inside a loop that refer to the loop's own
// iteration variables.  With a go.mod language version below 1.22 those variables are shared by
// all iterations, so such a closure sees whatever iteration is current when it finally runs.
func factsLoops() {
	section("loop variables captured by go/defer closures (all non-test files of the module)")
	perIter := false
	if b, err := os.ReadFile(filepath.Join(repo, "go.mod")); err == nil {
		if m := regexp.MustCompile(`(?m)^go\s+(\d+)\.(\d+)`).FindStringSubmatch(string(b)); m != nil {
			maj, _ := strconv.Atoi(m[1])
			min, _ := strconv.Atoi(m[2])
			perIter = maj > 1 || (maj == 1 && min >= 22)
		}
	}
	var caps []string
	dirs := []string{".", "app", "cache", "compress", "config", "location", "server", "store", "upstream", "util", "hooks", "schedule", "log"}
	for _, d := range dirs {
		ents, err := os.ReadDir(filepath.Join(repo, d))
		if err != nil {
			continue
		}
		for _, e := range ents {
			n := e.Name()
			if e.IsDir() || !strings.HasSuffix(n, ".go") || strings.HasSuffix(n, "_test.go") {
				continue
			}
			rel := filepath.Join(d, n)
			f := parse(rel)
			if f == nil {
				continue
			}
			for _, decl := range f.Decls {
				fd, ok := decl.(*ast.FuncDecl)
				if !ok || fd.Body == nil {
					continue
				}
				fname := fd.Name.Name
				if fd.Recv != nil && len(fd.Recv.List) == 1 {
					fname = typeName(fd.Recv.List[0].Type) + "." + fname
				}
				ast.Inspect(fd.Body, func(n ast.Node) bool {
					var vars []string
					var body *ast.BlockStmt
					switch x := n.(type) {
					case *ast.RangeStmt:
						if x.Tok.String() == ":=" {
							for _, e := range []ast.Expr{x.Key, x.Value} {
								if id, ok := e.(*ast.Ident); ok && id.Name != "_" {
									vars = append(vars, id.Name)
								}
							}
						}
						body = x.Body
					case *ast.ForStmt:
						if as, ok := x.Init.(*ast.AssignStmt); ok && as.Tok.String() == ":=" {
							for _, e := range as.Lhs {
								if id, ok := e.(*ast.Ident); ok && id.Name != "_" {
									vars = append(vars, id.Name)
								}
							}
						}
						body = x.Body
					}
					if body == nil || len(vars) == 0 {
						return true
					}
					ast.Inspect(body, func(m ast.Node) bool {
						var lit *ast.FuncLit
						switch y := m.(type) {
						case *ast.GoStmt:
							lit, _ = y.Call.Fun.(*ast.FuncLit)
						case *ast.DeferStmt:
							lit, _ = y.Call.Fun.(*ast.FuncLit)
						}
						if lit == nil {
							return true
						}
						params := map[string]bool{}
						if lit.Type.Params != nil {
							for _, p := range lit.Type.Params.List {
								for _, nm := range p.Names {
									params[nm.Name] = true
								}
							}
						}
						used := map[string]bool{}
						ast.Inspect(lit.Body, func(k ast.Node) bool {
							if id, ok := k.(*ast.Ident); ok {
								for _, v := range vars {
									if id.Name == v && !params[v] {
										used[v] = true
									}
								}
							}
							return true
						})
						for v := range used {
							caps = append(caps, fmt.Sprintf("%s:%s:%s", rel, fname, v))
						}
						return true
					})
					return true
				})
			}
		}
	}
	sort.Strings(caps)
	fmt.Fprintf(&out, "def loopVarPerIteration : Bool := %v\n", perIter)
	defStrList("closureLoopCaptures", caps)
}

// factsUpstream: the periodic health checker is started for every upstream, at the top level of
// NewUpstreamServer (not under a condition), after one synchronous check.
func factsUpstream() {
	section("upstream/upstream.go NewUpstreamServer")
	fd := funcDecl(parse("upstream/upstream.go"), "", "NewUpstreamServer")
	first, loop := -1, -1
	if fd != nil {
		for i, st := range fd.Body.List {
			switch x := st.(type) {
			case *ast.ExprStmt:
				if nsrc(x.X) == "uh.DoHealthCheck()" && first < 0 {
					first = i
				}
			case *ast.GoStmt:
				if nsrc(x.Call) == "uh.StartHealthCheck()" && loop < 0 {
					loop = i
				}
			}
		}
	}
	defBool("healthCheckOnCreate", first >= 0)
	defBool("healthCheckLoopUnconditional", loop >= 0 && first >= 0 && first < loop)
}

// factsProxyTimeout: the location's proxy timeout is attached to the request context the reverse proxy uses
// (c.WithContext(ctx) inside `if l.ProxyTimeout != 0`), and the transport of an upstream sets no cap on the
// number of concurrent connections per host.
func factsProxyTimeout() {
	section("server/proxy.go proxy timeout; upstream/upstream.go transport")
	attached := false
	if fd := funcDecl(parse("server/proxy.go"), "", "NewProxy"); fd != nil {
		ast.Inspect(fd.Body, func(n ast.Node) bool {
			is, ok := n.(*ast.IfStmt)
			if !ok || nsrc(is.Cond) != "l.ProxyTimeout!=0" {
				return true
			}
			hasCtx, hasAttach := false, false
			for _, st := range is.Body.List {
				switch x := st.(type) {
				case *ast.AssignStmt:
					if len(x.Rhs) == 1 && nsrc(x.Rhs[0]) == "context.WithTimeout(c.Context(),l.ProxyTimeout)" {
						hasCtx = true
					}
				case *ast.ExprStmt:
					if nsrc(x.X) == "c.WithContext(ctx)" {
						hasAttach = true
					}
				}
			}
			attached = hasCtx && hasAttach
			return true
		})
	}
	defBool("proxyTimeoutAttached", attached)
	var fields []string
	if fd := funcDecl(parse("upstream/upstream.go"), "", "newTransport"); fd != nil {
		ast.Inspect(fd.Body, func(n ast.Node) bool {
			cl, ok := n.(*ast.CompositeLit)
			if !ok || nsrc(cl.Type) != "http.Transport" {
				return true
			}
			for _, el := range cl.Elts {
				if kv, ok := el.(*ast.KeyValueExpr); ok {
					fields = append(fields, nsrc(kv.Key))
				}
			}
			return false
		})
	}
	sort.Strings(fields)
	defStrList("transportFields", fields)
}

// factsLRUCallbacks: does anything install an eviction callback on a shard's LRU?  (the model's eviction
// just drops the least recently used key; a callback could re-insert or recycle the entry)
func factsLRUCallbacks() {
	section("cache/*.go: lru.Cache.OnEvicted")
	var sites []string
	for _, rel := range []string{"cache/dispatcher.go", "cache/http_cache.go", "cache/cache.go", "cache/http_response.go"} {
		f := parse(rel)
		if f == nil {
			continue
		}
		ast.Inspect(f, func(n ast.Node) bool {
			switch x := n.(type) {
			case *ast.SelectorExpr:
				if x.Sel.Name == "OnEvicted" {
					sites = append(sites, fmt.Sprintf("%s:%d", rel, fset.Position(x.Pos()).Line))
				}
			case *ast.KeyValueExpr:
				if nsrc(x.Key) == "OnEvicted" {
					sites = append(sites, fmt.Sprintf("%s:%d", rel, fset.Position(x.Pos()).Line))
				}
			}
			return true
		})
	}
	sort.Strings(sites)
	defStrList("lruOnEvictedSites", sites)
}

// factsStoreConstructors: every store constructor returns the interface type Store (a constructor returning a
// concrete pointer type would turn a failed open into a non-nil interface holding a nil pointer, which
// NewDispatcher's `store != nil` test lets through)
func factsStoreConstructors() {
	section("store/*.go constructors")
	var res []string
	for _, rel := range []string{"store/badger.go", "store/mongo.go", "store/redis.go", "store/store.go"} {
		f := parse(rel)
		if f == nil {
			continue
		}
		for _, d := range f.Decls {
			fd, ok := d.(*ast.FuncDecl)
			if !ok || fd.Recv != nil || fd.Type.Results == nil {
				continue
			}
			n := fd.Name.Name
			if !(strings.HasPrefix(n, "new") || strings.HasPrefix(n, "New")) || !strings.HasSuffix(n, "Store") {
				continue
			}
			first := ""
			if len(fd.Type.Results.List) > 0 {
				first = nsrc(fd.Type.Results.List[0].Type)
			}
			res = append(res, n+":"+first)
		}
	}
	sort.Strings(res)
	defStrList("storeConstructors", res)
	var types []string
	for _, r := range res {
		types = append(types, r[strings.Index(r, ":")+1:])
	}
	defStrList("storeConstructorResults", types)
}

// factsPools: uses of sync.Pool in pike's own non-test code.  The models treat keys, bodies, records and entry
// objects as values owned by whoever holds them; a pooled backing array that is handed on while somebody still
// holds the previous value breaks that silently.
func factsPools() {
	section("sync.Pool in the module's non-test files")
	var sites []string
	dirs := []string{".", "app", "cache", "compress", "config", "location", "server", "store", "upstream", "util", "hooks", "schedule", "log"}
	for _, d := range dirs {
		ents, err := os.ReadDir(filepath.Join(repo, d))
		if err != nil {
			continue
		}
		for _, e := range ents {
			n := e.Name()
			if e.IsDir() || !strings.HasSuffix(n, ".go") || strings.HasSuffix(n, "_test.go") {
				continue
			}
			rel := filepath.Join(d, n)
			f := parse(rel)
			if f == nil {
				continue
			}
			ast.Inspect(f, func(x ast.Node) bool {
				if se, ok := x.(*ast.SelectorExpr); ok && nsrc(se) == "sync.Pool" {
					sites = append(sites, fmt.Sprintf("%s:%d", rel, fset.Position(se.Pos()).Line))
				}
				return true
			})
		}
	}
	sort.Strings(sites)
	defStrList("syncPoolSites", sites)
}

// factsStatusCallback: main.go hands the upstream package a callback that the health checker calls, from its own
// single goroutine, between the check of one server and the next.  What the callback does synchronously therefore
// delays (or, if it blocks, stops) every further health check of that upstream.  Listed: the calls it makes
// synchronously (logging left out) and the ones it hands to a goroutine.
func factsStatusCallback() {
	section("main.go: the upstream status callback")
	var syncCalls, goCalls []string
	found := false
	if f := parse("main.go"); f != nil {
		ast.Inspect(f, func(x ast.Node) bool {
			ce, ok := x.(*ast.CallExpr)
			if !ok || nsrc(ce.Fun) != "upstream.ResetWithOnStats" || len(ce.Args) < 2 {
				return true
			}
			fl, ok := ce.Args[1].(*ast.FuncLit)
			if !ok {
				syncCalls = append(syncCalls, "callback is not a function literal: "+nsrc(ce.Args[1]))
				found = true
				return false
			}
			found = true
			ast.Inspect(fl.Body, func(y ast.Node) bool {
				switch s := y.(type) {
				case *ast.GoStmt:
					goCalls = append(goCalls, nsrc(s.Call.Fun))
					return false
				case *ast.CallExpr:
					n := nsrc(s.Fun)
					if strings.HasPrefix(n, "log.Default") || strings.HasPrefix(n, "zap.") || n == "fmt.Sprintf" {
						return true
					}
					syncCalls = append(syncCalls, n)
				}
				return true
			})
			return false
		})
	}
	if !found {
		syncCalls = append(syncCalls, "missing")
	}
	defStrList("statusCallbackSyncCalls", syncCalls)
	defStrList("statusCallbackGoCalls", goCalls)
}

// factsTransport: the upstream request is performed by net/http's own Transport.  A RoundTripper of pike's own around
// it (a retry, a redirect-following http.Client, …) changes how often and where a request reaches the origin; listed are
// the RoundTrip methods declared in the module's non-test files and the http.Client values built in the request path.
func factsTransport() {
	section("RoundTripper implementations and http.Client values in the module's non-test files")
	var rts, clients []string
	dirs := []string{".", "app", "cache", "compress", "config", "location", "server", "store", "upstream", "util", "hooks", "schedule", "log"}
	for _, d := range dirs {
		ents, err := os.ReadDir(filepath.Join(repo, d))
		if err != nil {
			continue
		}
		for _, e := range ents {
			n := e.Name()
			if e.IsDir() || !strings.HasSuffix(n, ".go") || strings.HasSuffix(n, "_test.go") {
				continue
			}
			rel := filepath.Join(d, n)
			f := parse(rel)
			if f == nil {
				continue
			}
			ast.Inspect(f, func(x ast.Node) bool {
				switch y := x.(type) {
				case *ast.FuncDecl:
					if y.Recv != nil && y.Name.Name == "RoundTrip" {
						rts = append(rts, fmt.Sprintf("%s:%s", rel, nsrc(y.Recv.List[0].Type)))
					}
				case *ast.CompositeLit:
					if t := nsrc(y.Type); t == "http.Client" && d != "." && d != "config" {
						clients = append(clients, fmt.Sprintf("%s:%d", rel, fset.Position(y.Pos()).Line))
					}
				case *ast.SelectorExpr:
					if s := nsrc(y); (s == "http.DefaultClient" || s == "http.Get" || s == "http.Post") && (d == "upstream" || d == "server" || d == "cache") {
						clients = append(clients, fmt.Sprintf("%s:%d:%s", rel, fset.Position(y.Pos()).Line, s))
					}
				}
				return true
			})
		}
	}
	sort.Strings(rts)
	sort.Strings(clients)
	defStrList("roundTripperImpls", rts)
	defStrList("requestPathHTTPClients", clients)
}
